#!/usr/bin/env python3
"""tools/seeded_eval.py [--confirm] [--eval] [ids...]
Confirms seeded changes (patch applies, builds, whole suite passes, demo fails with / passes without) in a scratch
worktree /tmp/wt-eval, and evaluates the registered checks against them by applying the patch to /repo and undoing it."""
import subprocess, sys, os, re, json, glob, shutil
ENV="export GOFLAGS=-mod=mod GOPROXY=off GOSUMDB=off GOTOOLCHAIN=local; "
SRC=os.environ.get("SEEDED_SRC","/tmp/seeded")
WT="/tmp/wt-eval"
def sh(cmd, cwd=None, timeout=1800):
    r=subprocess.run(ENV+cmd, shell=True, cwd=cwd, capture_output=True, text=True, timeout=timeout)
    return r.returncode, r.stdout+r.stderr
def demo_info(d):
    txt=open(os.path.join(d,"demo_path.txt")).read()
    m=re.search(r"([\w.-]+/[\w./-]*_test\.go|[\w.-]+/[\w./-]*main\.go)", txt)
    path=m.group(1) if m else None
    m=re.search(r"((?:[A-Z][A-Z0-9_]*=\S+[ \t]+)*go test[^\n]*|(?:[A-Z][A-Z0-9_]*=\S+[ \t]+)*go run[^\n]*)", txt)
    cmd=m.group(1).strip() if m else None
    return path, cmd
def confirm(d):
    name=os.path.basename(d)
    out={"id":name}
    if not os.path.isdir(WT):
        sh(f"git -C /repo worktree add -q --detach {WT} HEAD")
    sh("git checkout -q -- . && git clean -fdq", cwd=WT)
    sh("git checkout -q --detach $(git -C /repo rev-parse HEAD)", cwd=WT)
    rc,o=sh(f"git apply --check {d}/patch.diff", cwd=WT)
    if rc!=0: out["error"]="patch does not apply: "+o[:300]; return out
    path,cmd=demo_info(d)
    if not path or not cmd: out["error"]="cannot parse demo_path.txt"; return out
    demo_src=[f for f in glob.glob(d+"/demo*test.go")+glob.glob(d+"/demo/main.go")]
    if not demo_src: out["error"]="no demo file"; return out
    os.makedirs(os.path.dirname(os.path.join(WT,path)), exist_ok=True)
    shutil.copy(demo_src[0], os.path.join(WT,path))
    # without change
    rc0,o0=sh(cmd, cwd=WT, timeout=900)
    sh(f"git apply {d}/patch.diff", cwd=WT)
    rcb,ob=sh("go build ./... 2>&1 | head -5", cwd=WT)
    rc1,o1=sh(cmd, cwd=WT, timeout=900)
    os.remove(os.path.join(WT,path))
    rcs,os_=sh("go test -vet=off -count=1 ./... 2>&1 | grep -E '^(FAIL|---|ok|panic)' | grep -v '^ok' | head -20", cwd=WT, timeout=1500)
    sh("git checkout -q -- . && git clean -fdq", cwd=WT)
    fails=[l for l in os_.splitlines() if l.startswith("FAIL") or l.startswith("--- FAIL")]
    fails=[l for l in fails if "substreams/info" not in l and "TestBasicInfo" not in l and "TestExtendedInfo" not in l and l.strip()!="FAIL"]
    out.update({"demo_without_change_rc":rc0,"demo_with_change_rc":rc1,"builds":ob.strip()=="","suite_failures":fails,
                "confirmed": rc0==0 and rc1!=0 and ob.strip()=="" and not fails})
    if not out["confirmed"]:
        out["detail"]=(o0[-300:] if rc0!=0 else "")+" | "+(o1[-200:] if rc1==0 else "")
    return out
RELATED={"C01":["C01","C04","C07","C05"],"C02":["C02","C01","C07"],"C03":["C03"],"C04":["C04","C01","C05"],"C05":["C05","C07","C01"],"C06":["C06"],
 "C07":["C07","C05","C01","C16"],"C08":["C08","C02","C09","C01"],"C09":["C09","C07"],"C10":["C10","C07"],"C11":["C11","C03"],"C12":["C12","C01","C04"],"C13":["C13"],"C14":["C14","C15e"],
 "C15":["C15a","C15e","C15"],"C16":["C16"],"C17":["C17"],"C18":["C18","C10"]}
def evaluate(d, tier="quick"):
    name=os.path.basename(d); prop=name.split("-")[0]
    registered=set(json.load(open("/verif/MANIFEST.json"))and [c["property_id"] for c in json.load(open("/verif/MANIFEST.json"))["checks"]])
    rc,o=sh(f"git -C /repo apply {d}/patch.diff")
    if rc!=0: return {"id":name,"error":"apply to /repo failed: "+o[:200]}
    res={}
    try:
        for c in RELATED.get(prop,[prop]):
            rc,o=sh(f"cd /verif && VERIF_SEED=1 ./check {c} {tier} 2>&1", timeout=3000)
            if "unknown property" in o: continue
            sigs=sorted(set(re.findall(r"signature=(\S+)", o)))
            known=set(re.findall(r"KNOWN-FINDING: property=\S+ signature=(\S+)", o))
            sigs=[s for s in sigs if s not in known]
            res[c]={"rc":rc,"signatures":sigs[:6]}
            if rc==1 and c==prop: break
    finally:
        sh("git -C /repo checkout -- .")
    caught=[c for c,v in res.items() if v["rc"]==1]
    return {"id":name,"caught_by":caught,"results":res}
def main():
    args=[a for a in sys.argv[1:] if not a.startswith("--")]
    do_c="--confirm" in sys.argv; do_e="--eval" in sys.argv
    tier="thorough" if "--thorough" in sys.argv else "quick"
    dirs=sorted(d for d in glob.glob(SRC+"/C[0-9][0-9]-*") if os.path.isdir(d))
    if args: dirs=[d for d in dirs if any(a in os.path.basename(d) for a in args)]
    for d in dirs:
        if do_c:
            r=confirm(d); print("CONFIRM", json.dumps(r)); sys.stdout.flush()
            json.dump(r, open(os.path.join(d,"confirm.json"),"w"))
        if do_e:
            r=evaluate(d,tier); print("EVAL", json.dumps(r)); sys.stdout.flush()
            json.dump(r, open(os.path.join(d,f"eval_{tier}.json"),"w"))
main()
