#!/bin/bash
# tools/sweep.sh [tier] [seeds...] : run every registered check at the given seeds, print one line per run.
cd "$(dirname "$0")/.."
tier="${1:-quick}"; shift
seeds="${*:-1 2 3}"
ids=$(jq -r '.checks[].property_id' MANIFEST.json)
./check build "race checkptr asan" >/dev/null || exit 2
for s in $seeds; do
  for id in $ids; do
    t0=$(date +%s)
    out=$(VERIF_SEED=$s ./bin/vh check "$id" "$tier" 2>&1); rc=$?
    t1=$(date +%s)
    sum=$(echo "$out" | grep '^SUMMARY' | head -1)
    echo "seed=$s $id rc=$rc $((t1-t0))s  $(echo "$sum" | sed 's/SUMMARY //')"
    if [ $rc -ne 0 ]; then echo "$out" | grep -E '^VIOLATION|signature=|SELF-FAIL|HARNESS' | head -6; fi
  done
done
