#!/usr/bin/env python3
"""tools/seeded_import.py <src dir> <round tag>
Copies confirmed seeded changes <src>/Cxx-n into /verif/seeded/Cxx-<tag>-n (demo .go files renamed to .go.txt so that the
directory is never compiled), folding the lead's confirm.json and eval_quick.json into meta.json, and prints the DESIGN table rows."""
import sys, os, json, glob, shutil
src, tag = sys.argv[1], sys.argv[2]
rows = []
for d in sorted(glob.glob(src + "/C[0-9][0-9]-*")):
    name = os.path.basename(d)
    prop, n = name.split("-", 1)
    conf = json.load(open(d + "/confirm.json"))
    if not conf.get("confirmed"):
        print("SKIP (not confirmed)", name, file=sys.stderr)
        continue
    ev = json.load(open(d + "/eval_quick.json"))
    meta = json.load(open(d + "/meta.json"))
    dst = f"/verif/seeded/{prop}-{tag}-{n}"
    shutil.rmtree(dst, ignore_errors=True)
    os.makedirs(dst)
    shutil.copy(d + "/patch.diff", dst)
    shutil.copy(d + "/demo_path.txt", dst)
    for f in glob.glob(d + "/demo*test.go") + glob.glob(d + "/demo/main.go"):
        shutil.copy(f, dst + "/" + os.path.basename(f) + ".txt")
    meta["confirmed_by_lead"] = {
        "in": "scratch worktree /tmp/wt-eval (removed)", "patch_applies": True, "builds": conf["builds"],
        "whole_suite_passes_with_change": not conf["suite_failures"],
        "demo_with_change": "fails" if conf["demo_with_change_rc"] != 0 else "passes",
        "demo_without_change": "passes" if conf["demo_without_change_rc"] == 0 else "fails",
        "how": "tools/seeded_eval.py --confirm: git apply, go build ./..., go test -vet=off -count=1 ./... (only the two offline ./info tests fail), demo command from demo_path.txt with and without the patch"}
    meta["checks_run"] = {
        "how": "tools/seeded_eval.py --eval: git -C /repo apply patch.diff; ./check <ID> quick (VERIF_SEED=1); git -C /repo checkout -- .",
        "caught_by": ev["caught_by"], "signatures": {c: v["signatures"] for c, v in ev["results"].items() if v["rc"] == 1},
        "silent": [c for c, v in ev["results"].items() if v["rc"] == 0]}
    json.dump(meta, open(dst + "/meta.json", "w"), indent=1)
    sigs = []
    for c in ev["caught_by"]:
        sigs += ev["results"][c]["signatures"][:2]
    rows.append(f"| {prop}-{tag}-{n} | {meta['summary'][:110].replace('|','/')} | {', '.join(ev['caught_by']) or '**none**'} | {', '.join('`'+s+'`' for s in sigs[:2])} |")
print("\n".join(rows))
