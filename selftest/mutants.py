#!/usr/bin/env python3
"""Planted breaks (lead's own self-test, DESIGN §5): each entry = (name, property checks expected to fire, file, old, new).
Usage: selftest/mutants.py [name-substring ...]   -- applies each break to /repo's working tree, runs the quick checks,
restores the tree (git checkout), prints which signatures fired. Never commits anything to /repo."""
import subprocess, sys, json, os, re
REPO="/repo"
M=[
 ("c01-merge-reverse-order", ["C01","C05"], "orchestrator/stage/stages.go",
  "	if !s.previousUnitComplete(mergeUnit) {\n		return CmdMergeNotReady(mergeUnit, \"previous unit not complete\")\n	}\n",
  "	if false && !s.previousUnitComplete(mergeUnit) {\n		return CmdMergeNotReady(mergeUnit, \"previous unit not complete\")\n	}\n"),
 ("c01-gate-off-by-one", ["C01","C04"], "pipeline/gate.go", "		return blockNum >= requestStartBlockNum", "		return blockNum > requestStartBlockNum"),
 ("c02-setkv-to-setnewkv-int-add", ["C02","C11"], "storage/store/merge.go",
  "				b.setKV(k, []byte(fmt.Sprintf(\"%d\", sum(v0, v1))))\n			}\n		case manifest.OutputValueTypeFloat64:\n			sum := func(a, b float64) float64 {\n				return a + b\n			}\n			for k, v := range kvPartialStore.kv {\n				v0b, fv0 := b.kv[k]\n				v0 := foundOrZeroFloat(v0b, fv0)",
  "				b.setNewKV(k, []byte(fmt.Sprintf(\"%d\", sum(v0, v1))))\n			}\n		case manifest.OutputValueTypeFloat64:\n			sum := func(a, b float64) float64 {\n				return a + b\n			}\n			for k, v := range kvPartialStore.kv {\n				v0b, fv0 := b.kv[k]\n				v0 := foundOrZeroFloat(v0b, fv0)"),
 ("c02-drop-delete-prefix-replay", ["C02","C01","C07"], "storage/store/merge.go",
  "	for _, prefix := range kvPartialStore.DeletedPrefixes {\n		b.DeletePrefix(kvPartialStore.lastOrdinal, prefix)\n	}",
  "	for _, prefix := range kvPartialStore.DeletedPrefixes[:0] {\n		b.DeletePrefix(kvPartialStore.lastOrdinal, prefix)\n	}"),
 ("c02-min-merge-wrong-compare", ["C02"], "storage/store/merge.go",
  "			min := func(a, b int64) int64 {\n				if a <= b {\n					return a\n				}\n				return b\n			}",
  "			min := func(a, b int64) int64 {\n				if a >= b {\n					return a\n				}\n				return b\n			}"),
 ("c03-skip-remove-reversible-on-final", ["C03"], "pipeline/process_block.go",
  "	// the block is not applied any more: if it comes back (chain flipping back) its outputs are recorded again\n	p.forkHandler.removeReversibleOutput(clock.Id)\n", "\n"),
 ("c03-undo-signal-dedupe-too-eager", ["C03"], "pipeline/process_block.go",
  "func (p *Pipeline) handleStepNew(ctx context.Context, clock *pbsubstreams.Clock, cursor *bstream.Cursor, execOutput execout.ExecutionOutput) (err error) {\n	p.insideReorgUpTo = nil\n",
  "func (p *Pipeline) handleStepNew(ctx context.Context, clock *pbsubstreams.Clock, cursor *bstream.Cursor, execOutput execout.ExecutionOutput) (err error) {\n"),
 ("c04-walker-end-inclusive", ["C04","C01"], "orchestrator/execout/execout_walker.go",
  "		if item.BlockNum >= r.ExclusiveEndBlock {\n			return nil\n		}", "		if item.BlockNum > r.ExclusiveEndBlock {\n			return nil\n		}"),
 ("c04-walker-start-off-by-one", ["C04","C01"], "orchestrator/execout/execout_walker.go",
  "		if item.BlockNum < r.StartBlock {\n			continue\n		}", "		if item.BlockNum <= r.StartBlock {\n			continue\n		}"),
 ("c05-drop-previous-unit-complete", ["C05"], "orchestrator/stage/stages.go",
  "func (s *Stages) previousUnitComplete(u Unit) bool {\n	state := s.getState(Unit{Segment: u.Segment - 1, Stage: u.Stage})\n	return state == UnitCompleted || state == UnitNoOp\n}",
  "func (s *Stages) previousUnitComplete(u Unit) bool {\n	state := s.getState(Unit{Segment: u.Segment - 1, Stage: u.Stage})\n	return state == UnitCompleted || state == UnitNoOp || state == UnitPartialPresent\n}"),
 ("c05-weaken-dependencies", ["C05"], "orchestrator/stage/stages.go",
  "		if previousSegment != UnitCompleted && previousSegment != UnitNoOp {\n			return false\n		}", "		if previousSegment != UnitCompleted && previousSegment != UnitNoOp && previousSegment != UnitMerging {\n			return false\n		}"),
 ("c06-entrypoint-not-hashed", ["C06"], "manifest/signature.go", "	buf.WriteString(module.BinaryEntrypoint)\n", "\n"),
 ("c06-initial-block-not-hashed", ["C06"], "manifest/signature.go", "	buf.Write(initialBlockBytes)\n", "	_ = initialBlockBytes\n"),
 ("c07-unit-complete-when-any-module-has-file", ["C07","C05"], "orchestrator/stage/fetchstorage.go",
  "	mods[name] = struct{}{}\n	return len(mods) == moduleCount", "	mods[name] = struct{}{}\n	return len(mods) >= 1 && moduleCount >= 1"),
 ("c08-unstable-sort", ["C08","C09"], "pb/sf/substreams/intern/v2/deltas.go", None, None),
 ("c09-readops-unsorted", ["C09"], "storage/store/base_store.go", "	b.kvOps.Sort()\n	for _, op := range b.kvOps.Operations {", "	if len(b.deltas) == 0 {\n		b.kvOps.Sort()\n	}\n	for _, op := range b.kvOps.Operations {"),
 ("c10-swap-start-end-in-partial-name", ["C10","C01"], "storage/store/filename.go",
  "	return fmt.Sprintf(\"%010d-%010d.partial\", r.ExclusiveEndBlock, r.StartBlock)", "	return fmt.Sprintf(\"%010d-%010d.partial\", r.StartBlock, r.ExclusiveEndBlock)"),
 ("c11-create-forgets-key-size", ["C11"], "storage/store/delta.go", "		b.totalSizeBytes += newSize\n		b.totalSizeBytes += keySize\n\n	case pbsubstreams.StoreDelta_DELETE:", "		b.totalSizeBytes += newSize\n\n	case pbsubstreams.StoreDelta_DELETE:"),
 ("c12-handoff-next-boundary-off", ["C12","C01"], "pipeline/resolve.go", "		libHandoffBoundary := libHandoff - (libHandoff % segmentSize)", "		libHandoffBoundary := libHandoff - (libHandoff % segmentSize) + segmentSize"),
 ("c13-lastindex-inclusive-end", ["C13"], "block/segmenter.go", None, None),
 ("c14-ignore-filter-dependency", ["C14","C15"], "pipeline/exec/graph.go", "				if !seen[mod.BlockFilter.Module] {\n					continue modLoop\n				}", "				if false && !seen[mod.BlockFilter.Module] {\n					continue modLoop\n				}"),
 ("c15-and-to-or-in-bitmap", ["C15"], "sqe/bitmap.go", None, None),
 ("c16-invalid-argument-retryable", ["C16"], "orchestrator/work/worker.go", "			if grpcErr := dgrpc.AsGRPCError(err); grpcErr.Code() == codes.InvalidArgument {", "			if grpcErr := dgrpc.AsGRPCError(err); grpcErr.Code() == codes.FailedPrecondition {"),
 ("c16-swallow-job-failed", ["C16"], "orchestrator/scheduler/scheduler.go", "	case work.MsgJobFailed:\n		cmds = append(cmds, loop.Quit(msg.Error))", "	case work.MsgJobFailed:\n		cmds = append(cmds, loop.Quit(nil))"),
 ("c18-wrong-tag-byte", ["C18","C01"], "storage/execout/pb/noalloc_version.go", None, None),
]
def run(cmd, **kw): return subprocess.run(cmd, shell=True, capture_output=True, text=True, **kw)
def main():
    sel=sys.argv[1:]
    for name, checks, f, old, new in M:
        if sel and not any(x in name for x in sel): continue
        if old is None:
            print(f"{name}: (no patch text yet)"); continue
        p=os.path.join(REPO,f); s=open(p).read()
        if old not in s:
            print(f"{name}: PATTERN NOT FOUND in {f}"); continue
        open(p,'w').write(s.replace(old,new,1))
        try:
            b=run(f"cd {REPO} && GOFLAGS=-mod=mod GOPROXY=off GOSUMDB=off GOTOOLCHAIN=local go build ./... 2>&1 | head -5")
            if b.stdout.strip():
                print(f"{name}: does not compile: {b.stdout.strip()[:200]}"); continue
            res=[]
            for c in checks:
                r=run(f"cd /verif && VERIF_SEED=1 ./check {c} quick 2>&1")
                sigs=re.findall(r"signature=(\S+)", r.stdout)
                res.append(f"{c}: rc={r.returncode} {sorted(set(sigs))[:4]}")
            print(f"{name}: "+" | ".join(res))
        finally:
            run(f"cd {REPO} && git checkout -- .")
main()
