// Package c14 checks C14: execution stages respect every module dependency.
package c14

import (
	"fmt"
	"math/rand"
	"runtime/debug"
	"sort"
	"strings"
	"time"

	pbssinternal "github.com/streamingfast/substreams/pb/sf/substreams/intern/v2"
	pbsubstreamsrpc "github.com/streamingfast/substreams/pb/sf/substreams/rpc/v2"
	pbsubstreams "github.com/streamingfast/substreams/pb/sf/substreams/v1"
	"github.com/streamingfast/substreams/pipeline/exec"
	"github.com/streamingfast/substreams/service"

	"verif/harness/fw"
	"verif/harness/gen"
)

// hangSeen: a staging call of this worker process never returned (its goroutine spins for good).
var hangSeen bool

const (
	firstTimeout  = 20 * time.Second
	secondTimeout = 60 * time.Second
	hostileEvery  = 8 // case i is a "hostile" case when i%hostileEvery == hostileEvery-1
)

func init() {
	fw.Register(&fw.Spec{
		ID:    "C14",
		Level: "exploration",
		Rule: "case = one generated VALID module graph (3..12 modules; map / store (all legal policy x value type) / block_index; source block+clock, params, map, store get+deltas inputs; block filters (string and from-params); params-only and clock-only modules; arbitrary initial blocks; shuffled list order; " +
			"1% of params values are the name of another module) x EVERY module as output x {production, development} at first streamable block 0, plus production at a first streamable block in {1,3,10}. " +
			"Each exec.NewOutputModuleGraph call runs under a 20 s timer (60 s on retry). On success the harness checks, with its own reachability over the protobuf (inputs in get and deltas mode + block-filter module): " +
			"every needed module in exactly one layer; every module it reads from in a strictly earlier layer of the flattened stage/layer order; no unneeded module in StagedUsedModules/UsedModules/Stores; layers homogeneous (stores | non-stores); " +
			"a store layer is the last layer of its stage and every stage but the last ends with a store layer; with the initial blocks of ModulesInitBlocks() every module has an input that exists at its initial block (source/clock always exist; params only when it is the single input; map/store input exists from its module's initial block). " +
			"An error on a valid graph at first streamable block 0 is a violation. Every 8th case is a 'hostile' graph (one rule of the manifest broken but accepted by service.ValidateTier1Request/ValidateTier2Request): only termination and, on success, the same invariants are judged. " +
			"non-trivial = (graph, output) whose staging has >= 2 stages and >= 3 needed modules; distinct by (graph rendering, output)",
		Assumptions: []string{
			"a valid graph is what harness/gen/modgraph_b.go MGOwnCheck states (manifest rules + request validation rules + one input available at the initial block, params counting only for params-only modules) and manifest.ValidateModules + manifest.NewModuleGraph accept",
			"'reads from' = map inputs, store inputs (get and deltas) and the block-filter module; a params VALUE is free text and never a dependency",
			"'given initial block' is what Graph.ModulesInitBlocks() reports; for the existence check a params value counts as an existing input only for a params-only module (which receives the clock); with other inputs present the engine does not run the module until one of them exists, so params cannot vouch for them — the same rule the graph construction applies, hence no alarm on a tree that enforces it",
			"hostile class 'untyped-input' (an input with no oneof member set passes request validation and makes computeStages panic) is reported as a counter only: such an input is outside the property's quantifier",
		},
		Cases: func(tier, mode string) int {
			if tier == "thorough" {
				return 1000000
			}
			return 12000
		},
		MinNontrivial: 1000,
		CaseTimeout:   200 * time.Second,
		Run:           run,
		Post: func(m *fw.Merged) {
			if n := m.Counts["gen_rejected_candidates"]; n > 0 {
				m.Notes = append(m.Notes, fmt.Sprintf("%d generated candidate graphs were rejected by MGCheck and regenerated", n))
			}
			if n := m.Counts["valid_graph_rejected_by_request_validation"]; n > 0 {
				m.Notes = append(m.Notes, fmt.Sprintf("%d (graph, output) pairs of generated valid graphs were rejected by the request validation and skipped", n))
			}
		},
	})
}

type outcome struct {
	g     *exec.Graph
	err   error
	pan   string
	stack string
}

// stage runs the real staging under a timer. ok=false means the timer fired.
func stage(out string, prod bool, mods *pbsubstreams.Modules, fsb uint64, d time.Duration) (o outcome, ok bool) {
	ch := make(chan outcome, 1)
	go func() {
		var o outcome
		defer func() {
			if r := recover(); r != nil {
				o.pan = fmt.Sprint(r)
				o.stack = string(debug.Stack())
			}
			ch <- o
		}()
		o.g, o.err = exec.NewOutputModuleGraph(out, prod, mods, fsb)
	}()
	t := time.NewTimer(d)
	defer t.Stop()
	select {
	case o = <-ch:
		return o, true
	case <-t.C:
		return outcome{}, false
	}
}

func requestAccepted(mods *pbsubstreams.Modules, out *pbsubstreams.Module) (err error) {
	defer func() {
		if r := recover(); r != nil {
			err = fmt.Errorf("panic in request validation: %v", r)
		}
	}()
	if gen.MGKind(out) == "store" {
		return service.ValidateTier2Request(&pbssinternal.ProcessRangeRequest{
			OutputModule: out.Name, Modules: mods, MeteringConfig: "null://", BlockType: gen.MGBlockType,
			StateStore: "memory://state", MergedBlocksStore: "memory://blocks", SegmentSize: 10, SegmentNumber: 0,
		})
	}
	return service.ValidateTier1Request(&pbsubstreamsrpc.Request{OutputModule: out.Name, Modules: mods, ProductionMode: true}, gen.MGBlockType)
}

func run(c *fw.Case) {
	r := c.R
	hostile := c.Index%hostileEvery == hostileEvery-1
	opts := gen.MGOpts{MinModules: 3, MaxModules: 12, CollidePct: 1}
	if hostile {
		opts.CollidePct = 0 // one deviation per hostile graph
	}
	mods, rej := gen.MGGen(r, opts)
	c.Count("gen_rejected_candidates", int64(rej))
	c.Count("graphs", 1)
	class := ""
	if hostile {
		class = makeHostile(r, mods)
		c.Count("hostile_graphs/"+class, 1)
		c.Distinct("hostile_classes", class)
	} else {
		c.Count("valid_graphs", 1)
	}
	c.Distinct("n_modules", fmt.Sprint(len(mods.Modules)))
	c.Distinct("graph_shapes", gen.MGShape(mods))
	digest := gen.MGDigest(mods)
	fsbExtra := []uint64{1, 3, 10}[r.Intn(3)]

	wit := func(out string, prod bool, fsb uint64) map[string]any {
		return map[string]any{"hostile_class": class, "output_module": out, "production_mode": prod, "first_streamable_block": fsb,
			"graph": gen.MGRender(mods), "graph_protojson": gen.MGJSON(mods)}
	}

	sampled := false
	for _, outMod := range mods.Modules {
		out := outMod.Name
		if err := requestAccepted(mods, outMod); err != nil {
			if class == "" {
				c.Count("valid_graph_rejected_by_request_validation", 1)
				c.Logf("request validation rejected valid graph for output %s: %v", out, err)
			} else {
				c.Count("hostile_rejected_by_request_validation/"+class, 1)
			}
			continue // only inputs the request validation accepts count
		}
		if class != "" {
			c.Count("hostile_accepted_by_request_validation/"+class, 1)
		}
		okAtZero := map[bool]bool{}
		for _, run := range []struct {
			prod bool
			fsb  uint64
		}{{true, 0}, {false, 0}, {true, fsbExtra}} {
			if hangSeen {
				// a staging call of this process is spinning for good: one witness decides the property, do not wait again
				c.Count("staging_calls_skipped_after_a_hang", 1)
				return
			}
			c.Count("staging_calls", 1)
			o, ok := stage(out, run.prod, mods, run.fsb, firstTimeout)
			if !ok {
				c.Count("timeouts_first_attempt", 1)
				o, ok = stage(out, run.prod, mods, run.fsb, secondTimeout)
				if !ok {
					c.Violation(sigClass("C14/hang", class), fmt.Sprintf("NewOutputModuleGraph(%q, prod=%v, fsb=%d) did not return within %s and again not within %s", out, run.prod, run.fsb, firstTimeout, secondTimeout), wit(out, run.prod, run.fsb))
					hangSeen = true
					return // two goroutines are spinning now; do not pile up more in this case
				}
				c.Inconclusive(fmt.Sprintf("staging of output %q exceeded %s once, returned on retry", out, firstTimeout))
			}
			if o.pan != "" {
				if class == "untyped-input" {
					c.Count("hostile_untyped_input_panics", 1)
					continue
				}
				w := wit(out, run.prod, run.fsb)
				w["stack"] = o.stack
				c.Violation(sigClass("C14/panic/"+fw.NormalizeMsg(o.pan), class), fmt.Sprintf("NewOutputModuleGraph(%q, prod=%v, fsb=%d) panicked: %s", out, run.prod, run.fsb, o.pan), w)
				continue
			}
			if o.err != nil {
				switch {
				case class != "":
					c.Count("hostile_staging_errors/"+class, 1)
				case run.fsb != 0:
					c.Count("errors_at_nonzero_first_streamable_block", 1)
					// raising every unset initial block to the first streamable block only makes more inputs available: a graph
					// accepted on a chain starting at 0 whose explicit initial blocks are all at or above the first streamable
					// block must be accepted on that chain too
					explicitOK := true
					for _, m := range mods.Modules {
						if m.InitialBlock != 0 && m.InitialBlock < run.fsb {
							explicitOK = false
						}
					}
					if okAtZero[run.prod] && explicitOK {
						c.Violation("C14/valid-graph-rejected-at-first-streamable-block/"+fw.NormalizeMsg(o.err.Error()), fmt.Sprintf("NewOutputModuleGraph(%q, prod=%v, fsb=%d) failed although the same graph is staged with fsb=0 and no module has an explicit initial block below %d: %v", out, run.prod, run.fsb, run.fsb, o.err), wit(out, run.prod, run.fsb))
					}
				default:
					c.Violation("C14/valid-graph-rejected/"+fw.NormalizeMsg(o.err.Error()), fmt.Sprintf("NewOutputModuleGraph(%q, prod=%v, fsb=0) failed on a valid graph: %v", out, run.prod, o.err), wit(out, run.prod, run.fsb))
				}
				continue
			}
			c.Count("stagings_succeeded", 1)
			if run.fsb == 0 {
				okAtZero[run.prod] = true
			}
			v := view{stages: o.g.StagedUsedModules(), used: o.g.UsedModules(), stores: o.g.Stores(), initBlocks: o.g.ModulesInitBlocks()}
			shape, nStages, nNeeded := checkInvariants(c, mods, out, v, class, func() map[string]any { return wit(out, run.prod, run.fsb) })
			c.Distinct("stage_shapes", shape)
			if nStages >= 2 && nNeeded >= 3 && class == "" {
				c.Nontrivial(digest + "|" + out)
			}
			if !sampled && nStages >= 3 && c.WantSample() {
				sampled = true
				c.Sample(map[string]any{"graph": gen.MGRender(mods), "output": out, "production_mode": run.prod, "first_streamable_block": run.fsb, "stages": renderStages(o.g.StagedUsedModules())})
			}
		}
	}
}

func sigClass(sig, class string) string {
	if class == "" {
		return sig
	}
	return sig + "/hostile-" + class
}

func renderStages(st exec.ExecutionStages) string {
	var stages []string
	for _, s := range st {
		var layers []string
		for _, l := range s {
			var names []string
			for _, m := range l {
				names = append(names, m.Name)
			}
			layers = append(layers, strings.Join(names, " "))
		}
		stages = append(stages, strings.Join(layers, " , "))
	}
	return strings.Join(stages, " | ")
}

// view is what the execution graph reports about one staging.
type view struct {
	stages     exec.ExecutionStages
	used       []*pbsubstreams.Module
	stores     []*pbsubstreams.Module
	initBlocks map[string]uint64
}

// checkInvariants judges one successful staging. It returns the shape of the staging.
func checkInvariants(c *fw.Case, mods *pbsubstreams.Modules, out string, g view, class string, wit func() map[string]any) (shape string, nStages, nNeeded int) {
	by := gen.MGByName(mods)
	needed := gen.MGReach(mods, out, nil)
	nNeeded = len(needed)
	coll := gen.MGCollisionEdges(mods)
	var neededColl map[string]bool
	if coll != nil {
		neededColl = gen.MGReach(mods, out, coll)
	}
	stages := g.stages
	nStages = len(stages)
	viol := func(sig, what string) {
		if seenSig(c, sigClass(sig, class)) {
			c.Count("further_violations_same_signature_same_case", 1)
			return
		}
		w := wit()
		w["stages"] = renderStages(stages)
		c.Violation(sigClass(sig, class), fmt.Sprintf("output %q: %s", out, what), w)
	}
	unneeded := func(where, name string) {
		if neededColl[name] {
			viol("C14/unneeded-module-used/params-value-names-a-module", fmt.Sprintf("module %q is not read (transitively) by the output, yet it is in %s; a params value of a needed module is the string %q", name, where, name))
		} else {
			viol("C14/unneeded-module-in-"+where, fmt.Sprintf("module %q is not read (transitively) by the output, yet it is in %s", name, where))
		}
	}

	// ---- layers, flattened
	layerOf := map[string]int{}
	placed := map[string]int{}
	li := 0
	var shapeParts []string
	for si, st := range stages {
		if len(st) == 0 {
			viol("C14/empty-stage", fmt.Sprintf("stage %d has no layer", si))
			shapeParts = append(shapeParts, "")
			continue
		}
		var lparts []string
		for k, layer := range st {
			if len(layer) == 0 {
				viol("C14/empty-layer", fmt.Sprintf("stage %d layer %d is empty", si, k))
				li++
				continue
			}
			nStores := 0
			for _, m := range layer {
				placed[m.Name]++
				layerOf[m.Name] = li
				if m.GetKindStore() != nil {
					nStores++
				}
			}
			c.Count("layers_checked", 1)
			isStore := nStores == len(layer)
			if nStores != 0 && !isStore {
				viol("C14/mixed-layer", fmt.Sprintf("stage %d layer %d mixes stores and non-stores", si, k))
			}
			if nStores > 0 && k != len(st)-1 {
				viol("C14/store-layer-not-closing-stage", fmt.Sprintf("stage %d layer %d contains stores but is not the last layer of its stage", si, k))
			}
			if k == len(st)-1 && si != len(stages)-1 && !isStore {
				viol("C14/stage-not-closed-by-store-layer", fmt.Sprintf("stage %d (not the last) ends with a non-store layer", si))
			}
			if isStore {
				lparts = append(lparts, fmt.Sprintf("S%d", len(layer)))
			} else {
				lparts = append(lparts, fmt.Sprintf("M%d", len(layer)))
			}
			li++
		}
		c.Count("stages_checked", 1)
		shapeParts = append(shapeParts, strings.Join(lparts, ","))
	}
	shape = strings.Join(shapeParts, "|")

	// ---- exactly once / left out
	for _, name := range sortedNames(needed) {
		c.Count("needed_modules_checked", 1)
		switch n := placed[name]; {
		case n == 0:
			viol("C14/needed-module-not-staged", fmt.Sprintf("needed module %q is in no layer", name))
		case n > 1:
			viol("C14/module-in-several-layers", fmt.Sprintf("module %q appears %d times in the layers", name, n))
		}
	}
	for _, name := range sortedNames(toSet(placed)) {
		if !needed[name] {
			unneeded("StagedUsedModules", name)
		}
	}
	for _, m := range mods.Modules {
		if !needed[m.Name] {
			c.Count("unneeded_modules_checked", 1)
		}
	}
	// UsedModules / Stores
	used := map[string]int{}
	for _, m := range g.used {
		used[m.Name]++
	}
	for _, name := range sortedNames(needed) {
		if used[name] != 1 {
			viol("C14/used-modules-wrong-multiplicity", fmt.Sprintf("needed module %q appears %d times in UsedModules()", name, used[name]))
		}
	}
	for _, name := range sortedNames(toSet(used)) {
		if !needed[name] {
			unneeded("UsedModules", name)
		}
	}
	stores := map[string]int{}
	for _, m := range g.stores {
		stores[m.Name]++
		if m.GetKindStore() == nil {
			viol("C14/non-store-in-stores", fmt.Sprintf("Stores() contains %q which is not a store", m.Name))
		}
	}
	for _, name := range sortedNames(needed) {
		if gen.MGKind(by[name]) == "store" && stores[name] != 1 {
			viol("C14/stores-wrong-multiplicity", fmt.Sprintf("needed store %q appears %d times in Stores()", name, stores[name]))
		}
	}
	for _, name := range sortedNames(toSet(stores)) {
		if !needed[name] {
			unneeded("Stores", name)
		}
	}

	// ---- every module read from is in a strictly earlier layer
	for _, name := range sortedNames(needed) {
		if placed[name] == 0 {
			continue
		}
		for _, d := range gen.MGDeps(by[name]) {
			c.Count("dependency_edges_checked", 1)
			if placed[d] == 0 {
				continue // reported above
			}
			if layerOf[d] >= layerOf[name] {
				viol("C14/dependency-not-in-earlier-layer/"+gen.MGKind(by[d]), fmt.Sprintf("module %q (layer %d) reads %s module %q which is in layer %d", name, layerOf[name], gen.MGKind(by[d]), d, layerOf[d]))
			}
		}
	}

	// ---- an input exists at the given initial block
	given := g.initBlocks
	for _, name := range sortedNames(needed) {
		at, ok := given[name]
		if !ok {
			continue
		}
		c.Count("initial_block_checks", 1)
		initOf := func(n string) uint64 {
			if v, ok := given[n]; ok {
				return v
			}
			return by[n].InitialBlock
		}
		if !gen.MGInputAvailable(by[name], initOf, at, true) {
			viol("C14/no-input-at-initial-block", fmt.Sprintf("module %q is given initial block %d but none of its inputs exists at that block", name, at))
		}
	}
	return
}

// seenSig remembers, per case, which signatures were already reported (a case
// checks up to 36 stagings of one graph; one witness per signature is enough).
var sigSeen = map[*fw.Case]map[string]bool{}

func seenSig(c *fw.Case, sig string) bool {
	m := sigSeen[c]
	if m == nil {
		for k := range sigSeen {
			delete(sigSeen, k)
		}
		m = map[string]bool{}
		sigSeen[c] = m
	}
	if m[sig] {
		return true
	}
	m[sig] = true
	return false
}

func toSet(m map[string]int) map[string]bool {
	out := map[string]bool{}
	for k := range m {
		out[k] = true
	}
	return out
}

func sortedNames(m map[string]bool) []string {
	out := make([]string, 0, len(m))
	for k := range m {
		out = append(out, k)
	}
	sort.Strings(out)
	return out
}

// ---------------------------------------------------------------- hostile graphs

var hostileClasses = []string{
	"untyped-input", "self-filter-index", "self-store-input", "no-inputs", "inputs-start-later",
	"query-from-params-without-params", "params-value-names-descendant",
	"index-with-block-filter", "index-with-params", "two-cycle-through-filter",
}

// makeHostile breaks one manifest-level rule of a valid graph in place and
// returns the class. Whether the request validation still accepts the graph is
// observed by the caller.
func makeHostile(r *rand.Rand, mods *pbsubstreams.Modules) string {
	start := r.Intn(len(hostileClasses))
	for k := 0; k < len(hostileClasses); k++ {
		class := hostileClasses[(start+k)%len(hostileClasses)]
		if applyHostile(r, mods, class) {
			return class
		}
	}
	// always applicable
	applyHostile(r, mods, "no-inputs")
	return "no-inputs"
}

func pick(r *rand.Rand, mods *pbsubstreams.Modules, ok func(*pbsubstreams.Module) bool) *pbsubstreams.Module {
	var cand []*pbsubstreams.Module
	for _, m := range mods.Modules {
		if ok(m) {
			cand = append(cand, m)
		}
	}
	if len(cand) == 0 {
		return nil
	}
	return cand[r.Intn(len(cand))]
}

func applyHostile(r *rand.Rand, mods *pbsubstreams.Modules, class string) bool {
	anyMod := func(*pbsubstreams.Module) bool { return true }
	isKind := func(k string) func(*pbsubstreams.Module) bool {
		return func(m *pbsubstreams.Module) bool { return gen.MGKind(m) == k }
	}
	switch class {
	case "untyped-input":
		m := pick(r, mods, anyMod)
		m.Inputs = append(m.Inputs, &pbsubstreams.Module_Input{})
		return true
	case "self-filter-index":
		m := pick(r, mods, isKind("index"))
		if m == nil {
			return false
		}
		m.BlockFilter = &pbsubstreams.Module_BlockFilter{Module: m.Name, Query: &pbsubstreams.Module_BlockFilter_QueryString{QueryString: "a"}}
		return true
	case "self-store-input":
		m := pick(r, mods, isKind("store"))
		if m == nil {
			return false
		}
		m.Inputs = append(m.Inputs, gen.MGStore(m.Name, r.Intn(2) == 0))
		return true
	case "no-inputs":
		m := pick(r, mods, func(m *pbsubstreams.Module) bool { return m.BlockFilter.GetQueryFromParams() == nil })
		if m == nil {
			return false
		}
		m.Inputs = nil
		return true
	case "inputs-start-later":
		// a new module whose only inputs start after its own initial block
		d := pick(r, mods, func(m *pbsubstreams.Module) bool { return gen.MGKind(m) != "index" && m.InitialBlock > 0 })
		if d == nil {
			return false
		}
		n := &pbsubstreams.Module{Name: "late_reader", BinaryEntrypoint: "late_reader", Kind: gen.MGKindMap("proto:my.pkg.Out0"), Output: &pbsubstreams.Module_Output{Type: "proto:my.pkg.Out0"},
			InitialBlock: d.InitialBlock - 1 - uint64(r.Intn(int(min64(d.InitialBlock, 3))))}
		if gen.MGKind(d) == "map" {
			n.Inputs = append(n.Inputs, gen.MGMap(d.Name))
		} else {
			n.Inputs = append(n.Inputs, gen.MGStore(d.Name, r.Intn(2) == 0))
		}
		if r.Intn(2) == 0 {
			n.Inputs = append([]*pbsubstreams.Module_Input{gen.MGParams("p")}, n.Inputs...)
		}
		mods.Modules = append(mods.Modules, n)
		return true
	case "query-from-params-without-params":
		idx := pick(r, mods, isKind("index"))
		if idx == nil {
			return false
		}
		m := pick(r, mods, func(m *pbsubstreams.Module) bool {
			return gen.MGKind(m) != "index" && m.Inputs[0].GetParams() == nil && m.InitialBlock >= idx.InitialBlock && !gen.MGReach(mods, idx.Name, nil)[m.Name]
		})
		if m == nil {
			return false
		}
		m.BlockFilter = &pbsubstreams.Module_BlockFilter{Module: idx.Name, Query: &pbsubstreams.Module_BlockFilter_QueryFromParams{QueryFromParams: &pbsubstreams.Module_QueryFromParams{}}}
		return true
	case "params-value-names-descendant":
		prepend := false
		m := pick(r, mods, func(m *pbsubstreams.Module) bool {
			return m.Inputs[0].GetParams() != nil && m.BlockFilter.GetQueryFromParams() == nil
		})
		if m == nil {
			// give a params input to a map/store module that has none
			m = pick(r, mods, func(m *pbsubstreams.Module) bool { return gen.MGKind(m) != "index" && m.Inputs[0].GetParams() == nil })
			prepend = true
		}
		if m == nil {
			return false
		}
		desc := gen.MGDescendants(mods, m.Name, nil)
		o := pick(r, mods, func(x *pbsubstreams.Module) bool { return x != m && desc[x.Name] })
		if o == nil {
			return false
		}
		if prepend {
			m.Inputs = append([]*pbsubstreams.Module_Input{gen.MGParams("")}, m.Inputs...)
		}
		m.Inputs[0].GetParams().Value = o.Name
		return true
	case "index-with-block-filter":
		a := pick(r, mods, isKind("index"))
		if a == nil {
			return false
		}
		b := pick(r, mods, func(m *pbsubstreams.Module) bool {
			return gen.MGKind(m) == "index" && m != a && m.InitialBlock <= a.InitialBlock && !gen.MGReach(mods, m.Name, nil)[a.Name]
		})
		if b == nil {
			return false
		}
		a.BlockFilter = &pbsubstreams.Module_BlockFilter{Module: b.Name, Query: &pbsubstreams.Module_BlockFilter_QueryString{QueryString: "k"}}
		return true
	case "index-with-params":
		a := pick(r, mods, isKind("index"))
		if a == nil {
			return false
		}
		a.Inputs = append([]*pbsubstreams.Module_Input{gen.MGParams("x")}, a.Inputs...)
		return true
	case "two-cycle-through-filter":
		// index A reads map M, M is filtered by A
		a := pick(r, mods, isKind("index"))
		if a == nil {
			return false
		}
		m := pick(r, mods, func(m *pbsubstreams.Module) bool { return gen.MGKind(m) == "map" && m.InitialBlock >= a.InitialBlock })
		if m == nil {
			return false
		}
		has := false
		for _, in := range a.Inputs {
			if in.GetMap().GetModuleName() == m.Name {
				has = true
			}
		}
		if !has {
			a.Inputs = append(a.Inputs, gen.MGMap(m.Name))
		}
		m.BlockFilter = &pbsubstreams.Module_BlockFilter{Module: a.Name, Query: &pbsubstreams.Module_BlockFilter_QueryString{QueryString: "k"}}
		return true
	}
	return false
}

func min64(a, b uint64) uint64 {
	if a < b {
		return a
	}
	return b
}
