package c06

import (
	"encoding/hex"
	"fmt"
	"sync"

	"github.com/streamingfast/substreams/manifest"

	pbsubstreams "github.com/streamingfast/substreams/pb/sf/substreams/v1"
	"google.golang.org/protobuf/proto"

	"verif/harness/fw"
	"verif/harness/gen"
)

// concurrentDeterminism: requests are hashed concurrently in a server (each request builds its own
// ModuleHashes). Several different graphs are hashed at the same time from several goroutines, many
// times, and every result must equal the value computed alone.
func concurrentDeterminism(c *fw.Case, w witness, mods *pbsubstreams.Modules, base hashes) {
	others := []*pbsubstreams.Modules{mods}
	for i := 0; i < 3; i++ {
		g, _ := gen.MGGen(c.R, genOpts)
		others = append(others, g)
	}
	alone := make([]hashes, len(others))
	alone[0] = base
	for i := 1; i < len(others); i++ {
		h, err := directHashes(others[i], false)
		if err != nil {
			return
		}
		alone[i] = h
	}
	var wg sync.WaitGroup
	var mu sync.Mutex
	var bad string
	for gi := range others {
		for rep := 0; rep < 2; rep++ {
			wg.Add(1)
			go func(gi int) {
				defer wg.Done()
				for k := 0; k < 12; k++ {
					h, err := directHashes(others[gi], k%2 == 1)
					mu.Lock()
					if err != nil {
						if bad == "" {
							bad = "hashing failed while other graphs were being hashed concurrently: " + err.Error()
						}
					} else if d := diffNames(alone[gi], h); len(d) > 0 && bad == "" {
						bad = fmt.Sprintf("hashes of modules %v differ when other graphs are hashed concurrently (alone %s, concurrent %s)", d, alone[gi][d[0]], h[d[0]])
					}
					mu.Unlock()
				}
			}(gi)
		}
	}
	wg.Wait()
	c.Count("concurrent_hash_rounds", int64(len(others)*2*12))
	if bad != "" {
		report(c, "C06/nondeterministic/concurrent-requests", bad, w.base())
	}
}

// quotedWhitespace: two filter queries that differ only by whitespace INSIDE a quoted key name
// different keys, hence different computations: the filtered module's hash must differ.
func quotedWhitespace(c *fw.Case, w witness, mods *pbsubstreams.Modules) {
	for i, m := range mods.Modules {
		if m.BlockFilter == nil || m.BlockFilter.GetQueryFromParams() != nil {
			continue
		}
		cur := m.BlockFilter.GetQueryString()
		variant := func(q string) (string, bool) {
			g := proto.Clone(mods).(*pbsubstreams.Modules)
			g.Modules[i].BlockFilter.Query = &pbsubstreams.Module_BlockFilter_QueryString{QueryString: q}
			h, err := directHashes(g, false)
			if err != nil {
				return "", false
			}
			return h[m.Name], true
		}
		qa, qb := cur+" || 'Transfer from'", cur+" || 'Transfer  from'"
		ha, oka := variant(qa)
		hb, okb := variant(qb)
		if !oka || !okb {
			continue
		}
		c.Count("quoted_whitespace_query_pairs", 1)
		if ha == hb {
			d := w.base()
			d["module"] = m.Name
			d["query_a"], d["query_b"] = qa, qb
			report(c, "C06/block_filter_query/whitespace-inside-quoted-key-not-hashed", fmt.Sprintf("module %q: filter queries %q and %q select different keys but give the same hash %s", m.Name, qa, qb, ha), d)
		}
		return
	}
}


// reusedGraph: a package is hashed, then a hashed field of one module is changed IN PLACE (as manifest.ApplyParams and
// the CLI's parameter / initial-block overrides do) and the package is hashed again with a fresh ModuleHashes over the SAME
// ModuleGraph object. Fields that do not alter the graph's edges are used, so the graph stays valid. The second hashes must
// equal those of a freshly built graph of the changed package (no stale identifier may survive the change).
func reusedGraph(c *fw.Case, w witness, mods *pbsubstreams.Modules) {
	g := gen.MGClone(mods)
	graph, err := manifest.NewModuleGraph(g.Modules)
	if err != nil {
		return
	}
	hashAll := func() (hashes, error) {
		mh := manifest.NewModuleHashes()
		h := hashes{}
		for _, m := range g.Modules {
			b, err := mh.HashModule(g, m, graph)
			if err != nil {
				return nil, err
			}
			h[m.Name] = hex.EncodeToString(b)
		}
		return h, nil
	}
	if _, err := hashAll(); err != nil {
		return
	}
	for step := 0; step < 3; step++ {
		m := g.Modules[c.R.Intn(len(g.Modules))]
		what := ""
		switch c.R.Intn(3) {
		case 0: // params value (ApplyParams)
			for _, in := range m.Inputs {
				if p := in.GetParams(); p != nil {
					p.Value = p.Value + fmt.Sprintf("&x=%d", c.R.Intn(1000))
					what = "params-value"
					break
				}
			}
		case 1:
			m.InitialBlock += uint64(1 + c.R.Intn(5))
			what = "initial-block"
		case 2:
			m.BinaryEntrypoint = m.BinaryEntrypoint + "_v2"
			what = "entrypoint"
		}
		if what == "" {
			continue
		}
		if own, code := gen.MGCheck(g); own != nil || code != nil {
			return // the changed package is not valid any more (initial block pushed past a dependency, ...)
		}
		fresh, err := directHashes(gen.MGClone(g), false)
		if err != nil {
			return
		}
		again, err := hashAll()
		if err != nil {
			report(c, "C06/hash-error-on-valid-graph/reused-graph", "hashing again over the same graph object failed: "+err.Error(), w.base())
			return
		}
		c.Count("reused_graph_rehashes", 1)
		if d := diffNames(fresh, again); len(d) > 0 {
			det := w.base()
			det["changed_module"], det["changed_field"], det["fresh_graph"], det["reused_graph"] = m.Name, what, fresh, again
			report(c, "C06/stale-hash-after-in-place-change/"+what, fmt.Sprintf("after changing %s of module %q in place and hashing again with a fresh ModuleHashes over the same ModuleGraph, modules %v keep an identifier that differs from the one a freshly built graph gives", what, m.Name, d), det)
			return
		}
	}
}
