// Package c06 checks C06: a module's cache identity (module hash) changes exactly
// when its computation can change.
package c06

import (
	"encoding/hex"
	"fmt"
	"math/rand"
	"os"
	"path/filepath"
	"sort"
	"strings"

	"github.com/streamingfast/substreams/manifest"
	pbsubstreams "github.com/streamingfast/substreams/pb/sf/substreams/v1"
	"github.com/streamingfast/substreams/pipeline/exec"
	"google.golang.org/protobuf/proto"

	"verif/harness/fw"
	"verif/harness/gen"
)

const nRefGraphs = 5

var genOpts = gen.MGOpts{MinModules: 3, MaxModules: 12, CollidePct: 3}

func init() {
	fw.Register(&fw.Spec{
		ID:    "C06",
		Level: "exploration",
		Rule: "case = one generated valid module graph (3..12 modules, see harness/gen/modgraph_b.go; 3% of params values are the name of another module). Hashes of ALL modules are taken from manifest.NewModuleHashes().HashModule and cross-checked against exec.NewOutputModuleGraph(out).ModuleHashes().Get for every module as output. " +
			"(1) determinism: hashed concurrently with three other graphs from eight goroutines, recomputed with fresh objects, in reverse module order, on a proto.Clone and on a marshal/unmarshal round trip; every worker process also hashes the same 5 seed-derived reference graphs and the parent asserts that all processes (and itself) produced the same (graph, module, hash) set. " +
			"(2) every module x every single-field mutation that keeps the graph valid {binary content (module gets its own new binary), binary type, entrypoint, kind, initial block, input added (source/map/store/params), each input removed, inputs reordered (all adjacent swaps + one random swap), params value, source type, block-filter module, block-filter query, block filter added/removed}: " +
			"the set of modules whose hash changed must equal {m} U descendants(m), descendants by the harness's own reachability over inputs and block filters (the set is the same in the original and in the mutated graph because only m's own fields change). " +
			"(3) identity-preserving transformations leave every hash unchanged: consistent rename (fresh names or a permutation of the existing names), unrelated modules inserted, binaries permuted / re-indexed, import under an alias through manifest.NewReader (spkg written to disk + importing YAML manifest, optionally with a 'use' module). " +
			"(4) store update policy / value type, store input mode, map output type, module list order, dependent additions: hash changed / unchanged is only counted. " +
			"(5) added after the seeded rounds: the package hashed from 8 goroutines at once must give the single-threaded hashes; filter queries differing only by white space inside a quoted key must hash differently; after a hashed field (params value, initial block, entry point) is changed IN PLACE and the package is hashed again with a fresh ModuleHashes over the SAME ModuleGraph object, the hashes must equal those of a freshly built graph. " +
			"non-trivial = mutation of a module that has both an ancestor and a descendant; distinct by (graph, module, mutation)",
		Assumptions: []string{
			"'descendants' = modules that transitively read m through map inputs, store inputs (get or deltas) or their block-filter module; a params VALUE is free text, never a dependency",
			"every generated module has its own entrypoint string, so no two modules of a graph are indistinguishable twins (a swap of two twins would legitimately keep the hash)",
			"a block-filter query 'from params' is the params value: switching between the literal and the from-params form with the same text is not a change and is not generated",
			"unrelated additions have no edge to or from the existing modules; additions that read existing modules are counted only",
		},
		Cases: func(tier, mode string) int {
			if tier == "thorough" {
				return 10000
			}
			return 60
		},
		MinNontrivial: 300,
		Run:           run,
		Post:          post,
	})
}

// ---------------------------------------------------------------- hashing through the real code

type hashes map[string]string

func directHashes(mods *pbsubstreams.Modules, reverse bool) (h hashes, err error) {
	defer func() {
		if r := recover(); r != nil {
			err = fmt.Errorf("panic while hashing: %v", r)
		}
	}()
	graph, err := manifest.NewModuleGraph(mods.Modules)
	if err != nil {
		return nil, err
	}
	mh := manifest.NewModuleHashes()
	h = hashes{}
	n := len(mods.Modules)
	for i := 0; i < n; i++ {
		m := mods.Modules[i]
		if reverse {
			m = mods.Modules[n-1-i]
		}
		b, err := mh.HashModule(mods, m, graph)
		if err != nil {
			return nil, fmt.Errorf("module %q: %w", m.Name, err)
		}
		h[m.Name] = hex.EncodeToString(b)
		if got := mh.Get(m.Name); got != h[m.Name] {
			return nil, fmt.Errorf("module %q: HashModule returned %s but Get returns %s", m.Name, h[m.Name], got)
		}
	}
	return h, nil
}

// execHashes returns the hashes the execution graph of output out reports, for
// the modules it reports one for.
func execHashes(mods *pbsubstreams.Modules, out string) (h hashes, err error) {
	defer func() {
		if r := recover(); r != nil {
			err = fmt.Errorf("panic in NewOutputModuleGraph: %v", r)
		}
	}()
	g, err := exec.NewOutputModuleGraph(out, true, mods, 0)
	if err != nil {
		return nil, err
	}
	h = hashes{}
	for _, m := range g.UsedModules() {
		h[m.Name] = g.ModuleHashes().Get(m.Name)
	}
	return h, nil
}

// ---------------------------------------------------------------- reference graphs (cross-process determinism)

func refKeys(seed int64) (keys []string, err error) {
	for i := 0; i < nRefGraphs; i++ {
		r := rand.New(rand.NewSource(seed*7919 + int64(i) + 1))
		mods, _ := gen.MGGen(r, gen.MGOpts{MinModules: 6, MaxModules: 12})
		h, err := directHashes(mods, false)
		if err != nil {
			return nil, err
		}
		for _, m := range mods.Modules {
			keys = append(keys, fmt.Sprintf("%d:%s:%s", i, m.Name, h[m.Name]))
		}
	}
	return keys, nil
}

var refRecorded bool

func post(m *fw.Merged) {
	for k, v := range m.Counts {
		if strings.HasPrefix(k, "mutated_graph_refused_by_code/") && !strings.HasSuffix(k, "/params-value-names-a-module") && v > 0 {
			m.Notes = append(m.Notes, fmt.Sprintf("%s=%d: graphs valid by the harness's rules were refused by manifest.ValidateModules/NewModuleGraph and could not be hashed", k, v))
		}
	}
	sort.Strings(m.Notes)
	keys, err := refKeys(m.Seed)
	if err != nil {
		m.Notes = append(m.Notes, "parent could not hash the reference graphs: "+err.Error())
		return
	}
	m.Counts["refhash_expected_pairs"] = int64(len(keys))
	got := m.Distinct["refhash"]
	bad := len(got) != len(keys)
	for _, k := range keys {
		if _, ok := got[fw.Hash(k)]; !ok {
			bad = true
		}
	}
	if bad && len(got) > 0 {
		m.Violations = append(m.Violations, fw.Violation{Sig: "C06/hash-differs-between-processes", Case: 0, Mode: "plain",
			What: fmt.Sprintf("the %d reference graphs have %d (graph, module) pairs; the worker processes and the parent together produced %d distinct (graph, module, hash) triples, so at least one process computed a different hash", nRefGraphs, len(keys), len(got))})
	}
}

// ---------------------------------------------------------------- the case

type witness struct {
	c    *fw.Case
	mods *pbsubstreams.Modules
}

func (w witness) base() map[string]any {
	return map[string]any{"graph": gen.MGRender(w.mods), "graph_protojson": gen.MGJSON(w.mods)}
}

func diffNames(a, b hashes) (changed []string) {
	for k, v := range a {
		if b[k] != v {
			changed = append(changed, k)
		}
	}
	sort.Strings(changed)
	return
}

func run(c *fw.Case) {
	if !refRecorded {
		refRecorded = true
		keys, err := refKeys(c.Seed)
		if err != nil {
			report(c, "C06/hash-error-on-valid-graph", "hashing a reference graph failed: "+err.Error(), nil)
		}
		for _, k := range keys {
			c.Distinct("refhash", k)
		}
		c.Count("processes_that_hashed_the_reference_graphs", 1)
	}

	r := c.R
	mods, rej := gen.MGGen(r, genOpts)
	c.Count("gen_rejected_candidates", int64(rej))
	c.Count("graphs", 1)
	c.Distinct("n_modules", fmt.Sprint(len(mods.Modules)))
	c.Distinct("graph_shapes", gen.MGShape(mods))
	w := witness{c, mods}
	digest := fmt.Sprintf("%016x", fw.Hash(gen.MGDigest(mods)))
	coll := gen.MGCollisionEdges(mods)
	if coll != nil {
		c.Count("graphs_with_params_value_naming_a_module", 1)
	}

	base, err := directHashes(mods, false)
	if err != nil {
		report(c, "C06/hash-error-on-valid-graph/"+fw.NormalizeMsg(err.Error()), "hashing a valid graph failed: "+err.Error(), w.base())
		return
	}

	concurrentDeterminism(c, w, mods, base)
	quotedWhitespace(c, w, mods)
	reusedGraph(c, w, mods)

	// ---- (1) determinism inside the process
	round := &pbsubstreams.Modules{}
	if b, err := proto.Marshal(mods); err == nil {
		_ = proto.Unmarshal(b, round)
	}
	for _, v := range []struct {
		name string
		mods *pbsubstreams.Modules
		rev  bool
	}{{"fresh-objects", mods, false}, {"reverse-order", mods, true}, {"proto-clone", gen.MGClone(mods), false}, {"marshal-roundtrip", round, true}} {
		h, err := directHashes(v.mods, v.rev)
		if err != nil {
			report(c, "C06/hash-error-on-valid-graph/"+fw.NormalizeMsg(err.Error()), "hashing a valid graph failed ("+v.name+"): "+err.Error(), w.base())
			continue
		}
		c.Count("determinism_comparisons", int64(len(base)))
		if d := diffNames(base, h); len(d) > 0 || len(h) != len(base) {
			det := w.base()
			det["first"], det["second"], det["variant"] = base, h, v.name
			report(c, "C06/nondeterministic/"+v.name, fmt.Sprintf("recomputing the hashes (%s) gave different values for modules %v", v.name, d), det)
		}
	}
	checkExec(c, w, mods, base, nil, "original")

	// ---- (2) mutations
	for _, m := range mods.Modules {
		anc := gen.MGReach(mods, m.Name, nil)
		expected := gen.MGDescendants(mods, m.Name, nil)
		nontrivial := len(anc) > 1 && len(expected) > 1
		for _, mu := range mutationsFor(r, mods, m) {
			c.Count("mutations_generated", 1)
			g2 := gen.MGClone(mods)
			m2 := gen.MGByName(g2)[m.Name]
			if !mu.apply(g2, m2) {
				c.Count("mutations_not_applicable/"+mu.kind, 1)
				continue
			}
			own, code := gen.MGCheck(g2)
			if own != nil {
				c.Count("mutations_skipped_graph_would_be_invalid/"+mu.kind, 1)
				continue
			}
			if code != nil {
				// valid by the harness's rules, refused by the real validation: not hashable
				if gen.MGCollisionEdges(g2) != nil {
					c.Count("mutated_graph_refused_by_code/params-value-names-a-module", 1)
				} else {
					c.Count("mutated_graph_refused_by_code/"+mu.kind, 1)
					c.Logf("mutation %s of %s refused by code: %v", mu.desc, m.Name, code)
				}
				continue
			}
			if exp2 := gen.MGDescendants(g2, m.Name, nil); !sameSet(expected, exp2) {
				panic(fmt.Sprintf("harness bug: mutation %s of %q changed the descendant set: %v vs %v", mu.desc, m.Name, keys(expected), keys(exp2)))
			}
			h2, err := directHashes(g2, false)
			det := func() map[string]any {
				d := w.base()
				d["mutated_module"], d["mutation"], d["mutated_graph"], d["mutated_graph_protojson"] = m.Name, mu.desc, gen.MGRender(g2), gen.MGJSON(g2)
				d["expected_to_change"] = keys(expected)
				return d
			}
			if err != nil {
				report(c, "C06/hash-error-on-valid-graph/"+fw.NormalizeMsg(err.Error()), fmt.Sprintf("hashing failed after mutation %s of %q: %v", mu.desc, m.Name, err), det())
				continue
			}
			changed := map[string]bool{}
			for _, n := range diffNames(base, h2) {
				changed[n] = true
			}
			if mu.info {
				if changed[m.Name] {
					c.Count("info/"+mu.kind+"/hash_changed", 1)
				} else {
					c.Count("info/"+mu.kind+"/hash_unchanged", 1)
				}
				continue
			}
			c.Count("mutations_checked", 1)
			c.Count("mutations_checked/"+mu.kind, 1)
			c.Distinct("mutation_kinds", mu.kind)
			c.Count("module_hash_comparisons", int64(len(base)))
			if nontrivial {
				c.Nontrivial(digest + "|" + m.Name + "|" + mu.desc)
			}
			// attribution helper: modules that the real graph builder links to m
			// only because a params value is spelled like a module name
			var viaCollision map[string]bool
			if coll != nil || gen.MGCollisionEdges(g2) != nil {
				viaCollision = gen.MGDescendants(mods, m.Name, coll)
				for k := range gen.MGDescendants(g2, m.Name, gen.MGCollisionEdges(g2)) {
					viaCollision[k] = true
				}
			}
			var missing, extra []string
			for _, n := range keys(expected) {
				if !changed[n] {
					missing = append(missing, n)
				}
			}
			for _, n := range keys(changed) {
				if !expected[n] {
					extra = append(extra, n)
				}
			}
			if len(missing) > 0 {
				d := det()
				d["hash_did_not_change"] = missing
				sig := "C06/" + mu.kind + "/descendant-hash-unchanged"
				if !changed[m.Name] {
					sig = "C06/" + mu.kind + "/own-hash-unchanged"
				}
				if mu.sub != "" {
					sig += "/" + mu.sub
				}
				report(c, sig, fmt.Sprintf("mutation %s of module %q: hashes of %v did not change (must change: %v)", mu.desc, m.Name, missing, keys(expected)), d)
			}
			if len(extra) > 0 {
				d := det()
				d["hash_changed_unexpectedly"] = extra
				explained := viaCollision != nil
				for _, n := range extra {
					if !viaCollision[n] {
						explained = false
					}
				}
				sig := "C06/" + mu.kind + "/unrelated-module-hash-changed"
				if explained {
					sig = "C06/hash-depends-on-unrelated-module/params-value-names-a-module"
				}
				report(c, sig, fmt.Sprintf("mutation %s of module %q: hashes of %v changed although they are neither %q nor its descendants", mu.desc, m.Name, extra, m.Name), d)
			}
			checkExec(c, w, g2, h2, []string{m.Name}, "mutated")
		}
	}

	// ---- (3) identity-preserving transformations
	attributed := func(t *pbsubstreams.Modules) bool { return coll != nil || gen.MGCollisionEdges(t) != nil }
	compare := func(name string, t *pbsubstreams.Modules, th hashes, rename func(string) string, info bool) {
		var diff []string
		for _, m := range mods.Modules {
			c.Count("identity_comparisons", 1)
			if th[rename(m.Name)] != base[m.Name] {
				diff = append(diff, m.Name)
			}
		}
		if info {
			if len(diff) > 0 {
				c.Count("info/"+name+"/some_hash_changed", 1)
			} else {
				c.Count("info/"+name+"/all_hashes_unchanged", 1)
			}
			return
		}
		c.Count("identity_transformations_checked/"+name, 1)
		if len(diff) > 0 {
			d := w.base()
			d["transformation"], d["transformed_graph"], d["transformed_graph_protojson"], d["modules_whose_hash_changed"] = name, gen.MGRender(t), gen.MGJSON(t), diff
			sig := "C06/identity/" + name + "/hash-changed"
			if attributed(t) {
				sig = "C06/hash-depends-on-unrelated-module/params-value-names-a-module"
			}
			report(c, sig, fmt.Sprintf("%s changed the hashes of %v", name, diff), d)
		}
	}
	ident := func(s string) string { return s }
	hashT := func(name string, t *pbsubstreams.Modules) hashes {
		own, code := gen.MGCheck(t)
		if own != nil {
			panic(fmt.Sprintf("harness bug: transformation %s produced an invalid graph: %v", name, own))
		}
		if code != nil {
			if attributed(t) {
				c.Count("transformed_graph_refused_by_code/params-value-names-a-module", 1)
				return nil
			}
			d := w.base()
			d["transformation"], d["transformed_graph_protojson"] = name, gen.MGJSON(t)
			report(c, "C06/identity/"+name+"/refused", fmt.Sprintf("%s of a valid graph is refused by the real validation: %v", name, code), d)
			return nil
		}
		th, err := directHashes(t, false)
		if err != nil {
			d := w.base()
			d["transformation"], d["transformed_graph_protojson"] = name, gen.MGJSON(t)
			report(c, "C06/hash-error-on-valid-graph/"+fw.NormalizeMsg(err.Error()), fmt.Sprintf("hashing failed after %s: %v", name, err), d)
			return nil
		}
		return th
	}

	for _, fresh := range []bool{true, false} {
		t, f := renameAll(r, mods, fresh)
		name := "rename-fresh-names"
		if !fresh {
			name = "rename-permute-names"
		}
		if th := hashT(name, t); th != nil {
			compare(name, t, th, f, false)
		}
	}
	{
		t := addUnrelated(r, mods, false)
		if th := hashT("unrelated-additions", t); th != nil {
			compare("unrelated-additions", t, th, ident, false)
			checkExecSubset(c, w, t, th, "unrelated-additions")
		}
		t = addUnrelated(r, mods, true)
		if th := hashT("dependent-additions", t); th != nil {
			compare("dependent-additions", t, th, ident, true)
		}
	}
	{
		t := reindexBinaries(r, mods)
		if th := hashT("binary-reindex", t); th != nil {
			compare("binary-reindex", t, th, ident, false)
		}
	}
	{
		t := gen.MGClone(mods)
		r.Shuffle(len(t.Modules), func(a, b int) { t.Modules[a], t.Modules[b] = t.Modules[b], t.Modules[a] })
		if th := hashT("module-list-reorder", t); th != nil {
			compare("module-list-reorder", t, th, ident, true)
		}
	}
	aliasImport(c, w, r, mods, base, compare)

	if c.WantSample() {
		c.Sample(map[string]any{"graph": gen.MGRender(mods), "hashes": base})
	}
}

// checkExec compares the hashes reported by the execution graph with the
// directly computed ones, for the given outputs (nil: every module).
func checkExec(c *fw.Case, w witness, mods *pbsubstreams.Modules, direct hashes, outs []string, what string) {
	if outs == nil {
		for _, m := range mods.Modules {
			outs = append(outs, m.Name)
		}
	}
	for _, out := range outs {
		eh, err := execHashes(mods, out)
		if err != nil {
			c.Count("exec_graph_errors/"+what, 1)
			c.Logf("exec graph for %s (%s): %v", out, what, err)
			continue
		}
		needed := gen.MGReach(mods, out, nil)
		for n := range needed {
			c.Count("exec_graph_hash_comparisons", 1)
			if eh[n] != direct[n] {
				d := w.base()
				d["hashed_graph"], d["hashed_graph_protojson"], d["output_module"], d["module"], d["exec_graph_hash"], d["direct_hash"] = gen.MGRender(mods), gen.MGJSON(mods), out, n, eh[n], direct[n]
				report(c, "C06/exec-graph-hash-differs-from-direct-hash", fmt.Sprintf("module %q: exec.Graph(output %q).ModuleHashes().Get = %q, HashModule over the whole graph = %q", n, out, eh[n], direct[n]), d)
				return
			}
		}
	}
}

func checkExecSubset(c *fw.Case, w witness, mods *pbsubstreams.Modules, direct hashes, what string) {
	// a few outputs only
	var outs []string
	for i, m := range mods.Modules {
		if i%3 == 0 {
			outs = append(outs, m.Name)
		}
	}
	checkExec(c, w, mods, direct, outs, what)
}

func sameSet(a, b map[string]bool) bool {
	if len(a) != len(b) {
		return false
	}
	for k := range a {
		if !b[k] {
			return false
		}
	}
	return true
}

func keys(m map[string]bool) []string {
	out := make([]string, 0, len(m))
	for k, v := range m {
		if v {
			out = append(out, k)
		}
	}
	sort.Strings(out)
	return out
}

// ---------------------------------------------------------------- mutations

type mutation struct {
	kind  string // stable class (signature component)
	sub   string // optional stable sub-class
	desc  string // exact description
	info  bool   // field not enumerated by the property: counted only
	apply func(g *pbsubstreams.Modules, m *pbsubstreams.Module) bool
}

func inputKind(in *pbsubstreams.Module_Input) string {
	switch in.Input.(type) {
	case *pbsubstreams.Module_Input_Source_:
		return "source"
	case *pbsubstreams.Module_Input_Map_:
		return "map"
	case *pbsubstreams.Module_Input_Store_:
		return "store"
	case *pbsubstreams.Module_Input_Params_:
		return "params"
	}
	return "?"
}

func renderInput(in *pbsubstreams.Module_Input) string {
	switch v := in.Input.(type) {
	case *pbsubstreams.Module_Input_Source_:
		return "source:" + v.Source.Type
	case *pbsubstreams.Module_Input_Map_:
		return "map:" + v.Map.ModuleName
	case *pbsubstreams.Module_Input_Store_:
		return fmt.Sprintf("store:%s:%s", v.Store.ModuleName, strings.ToLower(v.Store.Mode.String()))
	case *pbsubstreams.Module_Input_Params_:
		return fmt.Sprintf("params:%q", v.Params.Value)
	}
	return "?"
}

func hasInput(m *pbsubstreams.Module, in *pbsubstreams.Module_Input) bool {
	for _, x := range m.Inputs {
		if renderInput(x) == renderInput(in) || (inputKind(x) == "params" && inputKind(in) == "params") {
			return true
		}
	}
	return false
}

func insertInput(m *pbsubstreams.Module, pos int, in *pbsubstreams.Module_Input) {
	m.Inputs = append(m.Inputs, nil)
	copy(m.Inputs[pos+1:], m.Inputs[pos:])
	m.Inputs[pos] = in
}

func mutationsFor(r *rand.Rand, G *pbsubstreams.Modules, m *pbsubstreams.Module) (out []mutation) {
	add := func(kind, desc string, apply func(g *pbsubstreams.Modules, m *pbsubstreams.Module) bool) {
		out = append(out, mutation{kind: kind, desc: desc, apply: apply})
	}
	info := func(kind, desc string, apply func(g *pbsubstreams.Modules, m *pbsubstreams.Module) bool) {
		out = append(out, mutation{kind: kind, desc: desc, info: true, apply: apply})
	}
	kind := gen.MGKind(m)
	desc := gen.MGDescendants(G, m.Name, nil)
	firstNonParams := 0
	if len(m.Inputs) > 0 && m.Inputs[0].GetParams() != nil {
		firstNonParams = 1
	}

	// binary content / type: the module gets its own new binary
	extra := mgBytes(r, 1+r.Intn(4))
	add("binary_content", fmt.Sprintf("binary content: own copy of binary %d with %d bytes appended", m.BinaryIndex, len(extra)), func(g *pbsubstreams.Modules, m *pbsubstreams.Module) bool {
		old := g.Binaries[m.BinaryIndex]
		g.Binaries = append(g.Binaries, &pbsubstreams.Binary{Type: old.Type, Content: append(append([]byte(nil), old.Content...), extra...)})
		m.BinaryIndex = uint32(len(g.Binaries) - 1)
		return true
	})
	flipAt := r.Intn(1 << 16)
	add("binary_content", "binary content: own copy with one byte changed", func(g *pbsubstreams.Modules, m *pbsubstreams.Module) bool {
		old := g.Binaries[m.BinaryIndex]
		nc := append([]byte(nil), old.Content...)
		nc[flipAt%len(nc)] ^= 0x41
		g.Binaries = append(g.Binaries, &pbsubstreams.Binary{Type: old.Type, Content: nc})
		m.BinaryIndex = uint32(len(g.Binaries) - 1)
		return true
	})
	oldType := G.Binaries[m.BinaryIndex].Type
	newType := oldType
	for newType == oldType {
		newType = gen.MGBinaryTypes[r.Intn(len(gen.MGBinaryTypes))]
	}
	add("binary_type", fmt.Sprintf("binary type %q -> %q (own copy of the binary)", oldType, newType), func(g *pbsubstreams.Modules, m *pbsubstreams.Module) bool {
		old := g.Binaries[m.BinaryIndex]
		g.Binaries = append(g.Binaries, &pbsubstreams.Binary{Type: newType, Content: append([]byte(nil), old.Content...)})
		m.BinaryIndex = uint32(len(g.Binaries) - 1)
		return true
	})
	// point at another existing binary (differs in content)
	if len(G.Binaries) > 1 {
		nb := (int(m.BinaryIndex) + 1 + r.Intn(len(G.Binaries)-1)) % len(G.Binaries)
		add("binary_content", fmt.Sprintf("binary index %d -> %d (another binary)", m.BinaryIndex, nb), func(g *pbsubstreams.Modules, m *pbsubstreams.Module) bool {
			m.BinaryIndex = uint32(nb)
			return true
		})
	}

	newEp := m.BinaryEntrypoint + "_v2"
	if r.Intn(2) == 0 {
		newEp = "x" + m.BinaryEntrypoint
	}
	add("entrypoint", fmt.Sprintf("entrypoint %q -> %q", m.BinaryEntrypoint, newEp), func(g *pbsubstreams.Modules, m *pbsubstreams.Module) bool {
		m.BinaryEntrypoint = newEp
		return true
	})

	// kind (only when nothing reads m, otherwise the readers' inputs would be invalid)
	if len(desc) == 1 {
		for _, nk := range []string{"map", "store", "index"} {
			if nk == kind {
				continue
			}
			nk := nk
			combo := gen.MGStoreCombos[r.Intn(len(gen.MGStoreCombos))]
			add("kind", fmt.Sprintf("kind %s -> %s", kind, nk), func(g *pbsubstreams.Modules, m *pbsubstreams.Module) bool {
				switch nk {
				case "map":
					m.Kind = gen.MGKindMap("proto:my.pkg.Out0")
					m.Output = &pbsubstreams.Module_Output{Type: "proto:my.pkg.Out0"}
				case "store":
					m.Kind = gen.MGKindStore(combo)
					m.Output = nil
				case "index":
					m.Kind = gen.MGKindIndex()
					m.Output = &pbsubstreams.Module_Output{Type: gen.MGIndexOutputType}
				}
				return true
			})
		}
	}

	// initial block: several candidates, the first that keeps the graph valid is used
	{
		cands := []uint64{m.InitialBlock + 1, m.InitialBlock + uint64(2+r.Intn(50))}
		if m.InitialBlock > 0 {
			cands = append(cands, m.InitialBlock-1, uint64(r.Int63n(int64(m.InitialBlock))))
		}
		for i := 0; i < 3; i++ {
			cands = append(cands, gen.MGInitBlocks[r.Intn(len(gen.MGInitBlocks))])
		}
		r.Shuffle(len(cands), func(a, b int) { cands[a], cands[b] = cands[b], cands[a] })
		var chosen []uint64
		for _, v := range cands {
			if v == m.InitialBlock {
				continue
			}
			g2 := gen.MGClone(G)
			gen.MGByName(g2)[m.Name].InitialBlock = v
			if gen.MGOwnCheck(g2) == nil {
				chosen = append(chosen, v)
				if len(chosen) == 2 {
					break
				}
			}
		}
		for _, v := range chosen {
			v := v
			add("initial_block", fmt.Sprintf("initial block %d -> %d", m.InitialBlock, v), func(g *pbsubstreams.Modules, m *pbsubstreams.Module) bool {
				m.InitialBlock = v
				return true
			})
		}
	}

	// input added
	{
		var cands []*pbsubstreams.Module_Input
		for _, t := range []string{gen.MGBlockType, gen.MGClockType, "sf.ethereum.type.v2.Block"} {
			cands = append(cands, gen.MGSource(t))
		}
		for _, x := range G.Modules {
			if desc[x.Name] {
				continue // would create a cycle
			}
			switch gen.MGKind(x) {
			case "map":
				cands = append(cands, gen.MGMap(x.Name))
			case "store":
				cands = append(cands, gen.MGStore(x.Name, false), gen.MGStore(x.Name, true))
			}
		}
		if kind != "index" {
			cands = append(cands, gen.MGParams(gen.MGParamValues[r.Intn(len(gen.MGParamValues))]))
		}
		r.Shuffle(len(cands), func(a, b int) { cands[a], cands[b] = cands[b], cands[a] })
		seenKinds := map[string]int{}
		for _, in := range cands {
			if hasInput(m, in) {
				continue
			}
			k := inputKind(in)
			if seenKinds[k] >= 1 {
				continue
			}
			seenKinds[k]++
			pos := 0
			if k != "params" {
				pos = firstNonParams + r.Intn(len(m.Inputs)-firstNonParams+1)
			}
			in := in
			add("input_added", fmt.Sprintf("input %s inserted at position %d", renderInput(in), pos), func(g *pbsubstreams.Modules, m *pbsubstreams.Module) bool {
				insertInput(m, pos, proto.Clone(in).(*pbsubstreams.Module_Input))
				return true
			})
		}
	}

	// each input removed
	if len(m.Inputs) >= 2 {
		for i := range m.Inputs {
			i := i
			add("input_removed", fmt.Sprintf("input %d (%s) removed", i, renderInput(m.Inputs[i])), func(g *pbsubstreams.Modules, m *pbsubstreams.Module) bool {
				m.Inputs = append(m.Inputs[:i:i], m.Inputs[i+1:]...)
				return true
			})
		}
	}

	// inputs reordered: all adjacent swaps + one random swap
	if n := len(m.Inputs) - firstNonParams; n >= 2 {
		type pair struct{ a, b int }
		var pairs []pair
		for i := firstNonParams; i+1 < len(m.Inputs); i++ {
			pairs = append(pairs, pair{i, i + 1})
		}
		if n >= 3 {
			a := firstNonParams + r.Intn(n-2)
			b := a + 2 + r.Intn(len(m.Inputs)-a-2)
			pairs = append(pairs, pair{a, b})
		}
		for _, p := range pairs {
			p := p
			sub := "inputs-of-different-type"
			if inputKind(m.Inputs[p.a]) == inputKind(m.Inputs[p.b]) {
				sub = "inputs-of-same-type"
			}
			out = append(out, mutation{kind: "input_reordered", sub: sub,
				desc: fmt.Sprintf("inputs %d (%s) and %d (%s) swapped", p.a, renderInput(m.Inputs[p.a]), p.b, renderInput(m.Inputs[p.b])),
				apply: func(g *pbsubstreams.Modules, m *pbsubstreams.Module) bool {
					m.Inputs[p.a], m.Inputs[p.b] = m.Inputs[p.b], m.Inputs[p.a]
					return true
				}})
		}
	}

	// params value
	if firstNonParams == 1 {
		old := m.Inputs[0].GetParams().Value
		pool := gen.MGParamValues
		if m.BlockFilter.GetQueryFromParams() != nil {
			pool = gen.MGQueries
		}
		nv := old
		for nv == old {
			nv = pool[r.Intn(len(pool))]
		}
		if r.Intn(3) == 0 {
			nv = old + "x"
		}
		add("params_value", fmt.Sprintf("params value %q -> %q", old, nv), func(g *pbsubstreams.Modules, m *pbsubstreams.Module) bool {
			m.Inputs[0].GetParams().Value = nv
			return true
		})
	}

	// source type
	for i, in := range m.Inputs {
		s := in.GetSource()
		if s == nil {
			continue
		}
		var nt string
		for _, t := range []string{gen.MGClockType, gen.MGBlockType, "sf.ethereum.type.v2.Block", "sf.solana.type.v1.Block"} {
			if t != s.Type && !hasInput(m, gen.MGSource(t)) {
				nt = t
				break
			}
		}
		i := i
		add("source_type", fmt.Sprintf("input %d source type %q -> %q", i, s.Type, nt), func(g *pbsubstreams.Modules, m *pbsubstreams.Module) bool {
			m.Inputs[i].GetSource().Type = nt
			return true
		})
	}

	// block filter
	var idxCands []*pbsubstreams.Module
	for _, x := range G.Modules {
		if gen.MGKind(x) == "index" && !desc[x.Name] && x.InitialBlock <= m.InitialBlock && (m.BlockFilter == nil || m.BlockFilter.Module != x.Name) {
			idxCands = append(idxCands, x)
		}
	}
	if bf := m.BlockFilter; bf != nil {
		if len(idxCands) > 0 {
			x := idxCands[r.Intn(len(idxCands))]
			add("block_filter_module", fmt.Sprintf("block filter module %q -> %q", bf.Module, x.Name), func(g *pbsubstreams.Modules, m *pbsubstreams.Module) bool {
				m.BlockFilter.Module = x.Name
				return true
			})
		}
		cur, _ := m.BlockFilterQueryString()
		nq := cur
		for nq == cur {
			nq = gen.MGQueries[r.Intn(len(gen.MGQueries))]
		}
		if r.Intn(3) == 0 {
			nq = cur + " || zz"
		}
		if bf.GetQueryFromParams() != nil {
			add("block_filter_query", fmt.Sprintf("block filter query from-params (%q) -> literal %q", cur, nq), func(g *pbsubstreams.Modules, m *pbsubstreams.Module) bool {
				m.BlockFilter.Query = &pbsubstreams.Module_BlockFilter_QueryString{QueryString: nq}
				return true
			})
		} else {
			add("block_filter_query", fmt.Sprintf("block filter query %q -> %q", cur, nq), func(g *pbsubstreams.Modules, m *pbsubstreams.Module) bool {
				m.BlockFilter.Query = &pbsubstreams.Module_BlockFilter_QueryString{QueryString: nq}
				return true
			})
			if firstNonParams == 1 && m.Inputs[0].GetParams().Value != cur {
				add("block_filter_query", fmt.Sprintf("block filter query literal %q -> from-params (%q)", cur, m.Inputs[0].GetParams().Value), func(g *pbsubstreams.Modules, m *pbsubstreams.Module) bool {
					m.BlockFilter.Query = &pbsubstreams.Module_BlockFilter_QueryFromParams{QueryFromParams: &pbsubstreams.Module_QueryFromParams{}}
					return true
				})
			}
		}
		add("block_filter_removed", fmt.Sprintf("block filter %s/%q removed", bf.Module, cur), func(g *pbsubstreams.Modules, m *pbsubstreams.Module) bool {
			m.BlockFilter = nil
			return true
		})
	} else if kind != "index" && len(idxCands) > 0 {
		x := idxCands[r.Intn(len(idxCands))]
		q := gen.MGQueries[r.Intn(len(gen.MGQueries))]
		add("block_filter_added", fmt.Sprintf("block filter %s/%q added", x.Name, q), func(g *pbsubstreams.Modules, m *pbsubstreams.Module) bool {
			m.BlockFilter = &pbsubstreams.Module_BlockFilter{Module: x.Name, Query: &pbsubstreams.Module_BlockFilter_QueryString{QueryString: q}}
			return true
		})
	}

	// ---- fields the property does not enumerate: counted only
	if s := m.GetKindStore(); s != nil {
		combo := gen.MGStoreCombos[r.Intn(len(gen.MGStoreCombos))]
		if combo.Policy != s.UpdatePolicy || combo.ValueType != s.ValueType {
			info("store_policy_or_value_type", fmt.Sprintf("store (%s,%s) -> (%s,%s)", s.UpdatePolicy.Pretty(), s.ValueType, combo.Policy.Pretty(), combo.ValueType), func(g *pbsubstreams.Modules, m *pbsubstreams.Module) bool {
				m.Kind = gen.MGKindStore(combo)
				return true
			})
		}
	}
	if mk := m.GetKindMap(); mk != nil {
		info("map_output_type", "map output type changed", func(g *pbsubstreams.Modules, m *pbsubstreams.Module) bool {
			m.GetKindMap().OutputType += "V2"
			m.Output = &pbsubstreams.Module_Output{Type: m.GetKindMap().OutputType}
			return true
		})
	}
	for i, in := range m.Inputs {
		s := in.GetStore()
		if s == nil {
			continue
		}
		flipped := gen.MGStore(s.ModuleName, s.Mode == pbsubstreams.Module_Input_Store_GET)
		if hasInput(m, flipped) {
			continue
		}
		i := i
		info("store_input_mode", fmt.Sprintf("input %d (%s) mode flipped", i, renderInput(in)), func(g *pbsubstreams.Modules, m *pbsubstreams.Module) bool {
			m.Inputs[i] = proto.Clone(flipped).(*pbsubstreams.Module_Input)
			return true
		})
	}
	return out
}

func mgBytes(r *rand.Rand, n int) []byte {
	b := make([]byte, n)
	for i := range b {
		b[i] = byte(1 + r.Intn(255))
	}
	return b
}

// ---------------------------------------------------------------- identity-preserving transformations

func renameRefs(mods *pbsubstreams.Modules, f func(string) string) {
	for _, m := range mods.Modules {
		m.Name = f(m.Name)
		for _, in := range m.Inputs {
			switch v := in.Input.(type) {
			case *pbsubstreams.Module_Input_Map_:
				v.Map.ModuleName = f(v.Map.ModuleName)
			case *pbsubstreams.Module_Input_Store_:
				v.Store.ModuleName = f(v.Store.ModuleName)
			}
		}
		if m.BlockFilter != nil {
			m.BlockFilter.Module = f(m.BlockFilter.Module)
		}
	}
}

func renameAll(r *rand.Rand, mods *pbsubstreams.Modules, fresh bool) (*pbsubstreams.Modules, func(string) string) {
	t := gen.MGClone(mods)
	mapping := map[string]string{}
	if fresh {
		taken := map[string]bool{}
		for _, m := range mods.Modules {
			taken[m.Name] = true
		}
		for _, m := range mods.Modules {
			mapping[m.Name] = gen.MGFreshName(r, taken)
		}
	} else {
		names := make([]string, len(mods.Modules))
		for i, m := range mods.Modules {
			names[i] = m.Name
		}
		perm := r.Perm(len(names))
		for i, n := range names {
			mapping[n] = names[perm[i]]
		}
	}
	f := func(s string) string { return mapping[s] }
	renameRefs(t, f)
	return t, f
}

// addUnrelated inserts 1..3 new modules (and possibly a new binary) without
// changing the relative order of the existing modules. dependent=false: no edge
// between new and old modules; dependent=true: new modules read old ones.
func addUnrelated(r *rand.Rand, mods *pbsubstreams.Modules, dependent bool) *pbsubstreams.Modules {
	t := gen.MGClone(mods)
	taken := map[string]bool{}
	for _, m := range t.Modules {
		taken[m.Name] = true
	}
	if r.Intn(2) == 0 {
		t.Binaries = append(t.Binaries, &pbsubstreams.Binary{Type: gen.MGBinaryTypes[r.Intn(len(gen.MGBinaryTypes))], Content: mgBytes(r, 10)})
	}
	k := 1 + r.Intn(3)
	var added []*pbsubstreams.Module
	for i := 0; i < k; i++ {
		n := &pbsubstreams.Module{Name: gen.MGFreshName(r, taken), BinaryIndex: uint32(r.Intn(len(t.Binaries))), BinaryEntrypoint: fmt.Sprintf("added%d", i), InitialBlock: gen.MGInitBlocks[r.Intn(len(gen.MGInitBlocks))]}
		switch r.Intn(3) {
		case 0:
			n.Kind = gen.MGKindMap("proto:my.pkg.Added")
			n.Output = &pbsubstreams.Module_Output{Type: "proto:my.pkg.Added"}
		case 1:
			n.Kind = gen.MGKindStore(gen.MGStoreCombos[r.Intn(len(gen.MGStoreCombos))])
		default:
			n.Kind = gen.MGKindIndex()
			n.Output = &pbsubstreams.Module_Output{Type: gen.MGIndexOutputType}
		}
		if gen.MGKind(n) != "index" && r.Intn(3) == 0 {
			n.Inputs = append(n.Inputs, gen.MGParams(gen.MGParamValues[r.Intn(len(gen.MGParamValues))]))
		}
		n.Inputs = append(n.Inputs, gen.MGSource([]string{gen.MGBlockType, gen.MGClockType}[r.Intn(2)]))
		// read an earlier added module
		for _, a := range added {
			if r.Intn(2) == 0 {
				switch gen.MGKind(a) {
				case "map":
					n.Inputs = append(n.Inputs, gen.MGMap(a.Name))
				case "store":
					n.Inputs = append(n.Inputs, gen.MGStore(a.Name, r.Intn(2) == 0))
				case "index":
					if gen.MGKind(n) != "index" && n.BlockFilter == nil && a.InitialBlock <= n.InitialBlock {
						n.BlockFilter = &pbsubstreams.Module_BlockFilter{Module: a.Name, Query: &pbsubstreams.Module_BlockFilter_QueryString{QueryString: "q"}}
					}
				}
			}
		}
		if dependent {
			o := mods.Modules[r.Intn(len(mods.Modules))]
			switch gen.MGKind(o) {
			case "map":
				n.Inputs = append(n.Inputs, gen.MGMap(o.Name))
			case "store":
				n.Inputs = append(n.Inputs, gen.MGStore(o.Name, r.Intn(2) == 0))
			case "index":
				if gen.MGKind(n) != "index" && n.BlockFilter == nil && o.InitialBlock <= n.InitialBlock {
					n.BlockFilter = &pbsubstreams.Module_BlockFilter{Module: o.Name, Query: &pbsubstreams.Module_BlockFilter_QueryString{QueryString: "q"}}
				}
			}
		}
		added = append(added, n)
		pos := r.Intn(len(t.Modules) + 1)
		t.Modules = append(t.Modules, nil)
		copy(t.Modules[pos+1:], t.Modules[pos:])
		t.Modules[pos] = n
	}
	return t
}

func reindexBinaries(r *rand.Rand, mods *pbsubstreams.Modules) *pbsubstreams.Modules {
	t := gen.MGClone(mods)
	// optionally an unused binary in front / in between
	bins := append([]*pbsubstreams.Binary(nil), t.Binaries...)
	orig := map[*pbsubstreams.Binary]int{}
	for i, b := range bins {
		orig[b] = i
	}
	if r.Intn(2) == 0 {
		bins = append(bins, &pbsubstreams.Binary{Type: gen.MGBinaryTypes[0], Content: []byte("unused")})
	}
	for {
		r.Shuffle(len(bins), func(a, b int) { bins[a], bins[b] = bins[b], bins[a] })
		moved := false
		for i, b := range bins {
			if j, ok := orig[b]; ok && j != i {
				moved = true
			}
		}
		if moved || len(bins) == 1 {
			break
		}
	}
	newIndex := map[int]int{}
	for i, b := range bins {
		if j, ok := orig[b]; ok {
			newIndex[j] = i
		}
	}
	t.Binaries = bins
	for _, m := range t.Modules {
		m.BinaryIndex = uint32(newIndex[int(m.BinaryIndex)])
	}
	return t
}

// aliasImport writes the graph as an .spkg, imports it under an alias from a
// YAML manifest through manifest.NewReader and compares the hashes of alias:name.
func aliasImport(c *fw.Case, w witness, r *rand.Rand, mods *pbsubstreams.Modules, base hashes,
	compare func(name string, t *pbsubstreams.Modules, th hashes, rename func(string) string, info bool)) {
	scratch := os.Getenv("VH_SCRATCH")
	if scratch == "" {
		scratch = os.TempDir()
	}
	dir, err := os.MkdirTemp(scratch, fmt.Sprintf("c06-import-%d-", c.Index))
	if err != nil {
		c.Inconclusive("cannot create scratch dir: " + err.Error())
		return
	}
	defer os.RemoveAll(dir)

	pkg := &pbsubstreams.Package{
		Version:     1,
		PackageMeta: []*pbsubstreams.PackageMetadata{{Name: "gen_pkg", Version: "v0.1.0"}},
		Modules:     gen.MGClone(mods),
	}
	for range mods.Modules {
		pkg.ModuleMeta = append(pkg.ModuleMeta, &pbsubstreams.ModuleMetadata{PackageIndex: 0})
	}
	b, err := proto.Marshal(pkg)
	if err != nil {
		panic(err)
	}
	alias := gen.MGFreshName(r, map[string]bool{})
	withUse := r.Intn(3) == 0
	var y strings.Builder
	y.WriteString("specVersion: v0.1.0\npackage:\n  name: importer\n  version: v0.0.1\n\nimports:\n")
	fmt.Fprintf(&y, "  %s: ./pkg.spkg\n", alias)
	useName := ""
	if withUse {
		u := mods.Modules[r.Intn(len(mods.Modules))]
		useName = "local_use_of_" + u.Name
		if len(useName) > 60 {
			useName = useName[:60]
		}
		fmt.Fprintf(&y, "\nmodules:\n  - name: %s\n    use: %s:%s\n    initialBlock: %d\n", useName, alias, u.Name, u.InitialBlock)
	}
	for _, f := range []struct {
		name string
		data []byte
	}{{"pkg.spkg", b}, {"substreams.yaml", []byte(y.String())}, {"README.md", []byte("generated\n")}} {
		if err := os.WriteFile(filepath.Join(dir, f.name), f.data, 0o644); err != nil {
			c.Inconclusive("cannot write scratch file: " + err.Error())
			return
		}
	}
	name := "alias-import"
	fail := func(stage string, err error) {
		d := w.base()
		d["manifest_yaml"], d["stage"] = y.String(), stage
		if gen.MGCollisionEdges(mods) != nil {
			c.Count("alias_import_failed/params-value-names-a-module", 1)
			return
		}
		report(c, "C06/identity/alias-import/"+stage+"-failed/"+fw.NormalizeMsg(err.Error()), fmt.Sprintf("importing a valid package under alias %q failed (%s): %v", alias, stage, err), d)
	}
	var bundle *manifest.PackageBundle
	func() {
		defer func() {
			if rec := recover(); rec != nil {
				err = fmt.Errorf("panic: %v", rec)
			}
		}()
		var rd *manifest.Reader
		rd, err = manifest.NewReader(filepath.Join(dir, "substreams.yaml"))
		if err == nil {
			bundle, err = rd.Read()
		}
	}()
	if err != nil {
		fail("read", err)
		return
	}
	t := bundle.Package.Modules
	c.Count("alias_imports_read", 1)
	if withUse {
		c.Count("alias_imports_with_use_module", 1)
	}
	// hashes with the reader's own graph, as a client would
	th := hashes{}
	mh := manifest.NewModuleHashes()
	for _, m := range t.Modules {
		hb, err := mh.HashModule(t, m, bundle.Graph)
		if err != nil {
			fail("hash", err)
			return
		}
		th[m.Name] = hex.EncodeToString(hb)
	}
	f := func(s string) string { return alias + ":" + s }
	for _, m := range mods.Modules {
		if _, ok := th[f(m.Name)]; !ok {
			fail("lookup", fmt.Errorf("imported module %q not found as %q", m.Name, f(m.Name)))
			return
		}
	}
	compare(name, t, th, f, false)
	// and as a server would see the imported modules
	for i, m := range mods.Modules {
		if i%4 != 0 {
			continue
		}
		eh, err := execHashes(t, f(m.Name))
		if err != nil {
			c.Count("exec_graph_errors/alias-import", 1)
			continue
		}
		for n := range gen.MGReach(mods, m.Name, nil) {
			c.Count("exec_graph_hash_comparisons", 1)
			if eh[f(n)] != base[n] && gen.MGCollisionEdges(mods) == nil {
				d := w.base()
				d["manifest_yaml"], d["output_module"], d["module"] = y.String(), f(m.Name), f(n)
				report(c, "C06/identity/alias-import/hash-changed", fmt.Sprintf("module %q imported as %q: exec graph hash %q, original %q", n, f(n), eh[f(n)], base[n]), d)
				return
			}
		}
	}
	_ = useName
}

// report records a violation, at most one witness per signature and case (a case
// holds thousands of comparisons on one graph; the framework keeps 20 per case).
var reported = map[*fw.Case]map[string]bool{}

func report(c *fw.Case, sig, what string, detail any) {
	m := reported[c]
	if m == nil {
		for k := range reported {
			delete(reported, k)
		}
		m = map[string]bool{}
		reported[c] = m
	}
	if m[sig] {
		c.Count("further_violations_same_signature_same_case", 1)
		return
	}
	m[sig] = true
	c.Violation(sig, what, detail)
}
