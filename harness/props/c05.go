package props

import (
	"context"
	"fmt"
	"math/rand"
	"os"
	"sort"
	"strconv"
	"strings"

	"github.com/streamingfast/dmetering"
	"github.com/streamingfast/dstore"
	"github.com/streamingfast/substreams"
	"github.com/streamingfast/substreams/metrics"
	"github.com/streamingfast/substreams/orchestrator"
	orchexecout "github.com/streamingfast/substreams/orchestrator/execout"
	"github.com/streamingfast/substreams/orchestrator/loop"
	"github.com/streamingfast/substreams/orchestrator/response"
	"github.com/streamingfast/substreams/orchestrator/scheduler"
	"github.com/streamingfast/substreams/orchestrator/stage"
	"github.com/streamingfast/substreams/orchestrator/work"
	pbsubstreamsrpc "github.com/streamingfast/substreams/pb/sf/substreams/rpc/v2"
	"github.com/streamingfast/substreams/reqctx"
	"github.com/streamingfast/substreams/storage/execout"
	"github.com/streamingfast/substreams/storage/store"
	"go.uber.org/zap"

	"verif/harness/fw"
	"verif/harness/model"
	"verif/harness/native"
	"verif/harness/sim"
)

// C05: the segment scheduler is safe and live under every ordering of events.

func init() {
	fw.Register(&fw.Spec{
		ID:    "C05",
		Level: "exploration",
		Rule: "case = one generated (package, production request) whose plan has store stages (<=4 stages, <=5 segments) x a PRNG subset of the files of a complete run (full snapshots, partials from stand-alone jobs, outputs, indexes) as initial cache x 1..3 workers x 6 controlled schedules. " +
			"The harness builds the real ParallelProcessor (orchestrator.BuildParallelProcessor) and drives the real Scheduler.Update itself instead of loop.Run: pending commands and undelivered messages form two pools; at each step the PRNG either executes one pending command to completion (a real tier2 job, a real squash, a walker download) or delivers one message to Update; " +
			"this reaches every order of job completion, merge completion and download events, including several jobs finished before any completion is seen. Monitors: (a) when Worker.Work(unit) is called every lower stage that began before the unit's segment has completed the previous segment; (b) per stage, merges finish exactly once per segment and in increasing segment order, per store module lastBlockInStore never decreases and sits on a segment boundary; " +
			"(c) no panic, no MsgJobFailed/MsgMergeFailed; (d) on quit: nil error, FinalStoreMap(hand-off) == REF-LINEAR, every output of the requested range delivered by the walker equals the reference, every file left decodes to the reference content; (e) bounded progress: commands and messages exhausted without quit, or only walker polls left with an unchanged state for 3 rounds = deadlock; more than 400+60*units steps = inconclusive. " +
			"systematic part (the last plain cases: quick 8 grids x 250 executions, thorough 48 x 2500): for ONE small grid (<=6 units, 1..2 workers, one PRNG cache subset) the controlled schedules are enumerated depth-first by re-execution: follow a prefix of choices, then always the first alternative, then advance the deepest choice that has an untried alternative; a state (unit matrix + store positions + multiset of undelivered messages + pending commands by origin + walker progress) reached a second time is not explored again; every execution that reaches quit gets the monitors (a)-(e); a grid whose alternatives run out within the budget is reported as enumerated completely (modulo that state abstraction). " +
			"non-trivial = schedule with >=3 jobs or merges in which at least one message was delivered out of creation order, or a systematic grid with >=2 executions judged to the end; distinct by hash of the pick sequence",
		Assumptions: []string{
			"the only values altered in messages are the pacing fields MsgFileNotPresent.NextWait / MsgDownloadSegment.Wait (shrunk to 1 ns, never to 0: zero means 'no wait requested' to the scheduler); asynchronous file writes are awaited between steps (Stages.WaitAsyncWork), so the controlled mode does not explore the in-flight-write race (the -race mode with the real loop does)",
			"commands run one at a time on the harness goroutine: overlapping executions are represented by executing several commands before delivering their messages",
			"requests of the recorded known-finding shape C05/stage-index-shift are generated on purpose in a dedicated sub-family and must hit exactly that signature",
		},
		Cases: func(tier, mode string) int {
			if mode == "race" {
				return 60
			}
			return c05PRNGCases(tier) + c05DFSCases(tier)
		},
		Modes: func(tier string) []string {
			if os.Getenv("VH_C05_NORACE") != "" {
				return []string{"plain"}
			}
			return []string{"plain", "race"}
		},
		CaseTimeout:   1500e9,
		MinNontrivial: 30,
		Run:           runC05,
	})
}

type c05Worker struct {
	env *c05Env
	id  string
}

func (w *c05Worker) ID() string { return w.id }

func (w *c05Worker) Work(ctx context.Context, unit stage.Unit, startBlock uint64, moduleNames []string, upstream *response.Stream) loop.Cmd {
	e := w.env
	e.jobsStarted++
	// (a) dependency safety, observed on the scheduler's own state at the moment the job is started
	st := e.sched.Stages
	for i := 0; i < unit.Stage; i++ {
		info := st.VerifStage(i)
		if !info.IsStore || info.FirstSegment >= unit.Segment {
			continue
		}
		prev := st.VerifUnitState(stage.Unit{Segment: unit.Segment - 1, Stage: i})
		if prev != stage.UnitCompleted && prev != stage.UnitNoOp {
			e.viol("C05/dependency/job-started-before-lower-stage-complete", fmt.Sprintf("job for unit (segment %d, stage %d) started while unit (segment %d, stage %d) is %s: the store snapshot the job loads at its start block %d is not complete", unit.Segment, unit.Stage, unit.Segment-1, i, prev, startBlock))
		}
	}
	pctx := reqctx.WithTier2RequestParameters(ctx, e.cl.Tier2Params())
	graphStage := st.VerifStage(unit.Stage).GraphIndex
	request := work.NewRequest(pctx, reqctx.Details(ctx), unit.Stage, startBlock)
	if graphStage != unit.Stage {
		e.stageShift = true
	}
	return func() loop.Msg {
		e.jobsRun++
		err := e.cl.RunJobDirect(ctx, request, fmt.Sprintf("job:%d:%d", unit.Stage, unit.Segment))
		e.trace = append(e.trace, fmt.Sprintf("  ran job seg=%d stage=%d err=%v", unit.Segment, unit.Stage, err))
		if err != nil {
			return work.MsgJobFailed{Unit: unit, Error: err}
		}
		return work.MsgJobSucceeded{Unit: unit, Worker: w}
	}
}

type c05Env struct {
	c                    *fw.Case
	cl                   *sim.Cluster
	sched                *scheduler.Scheduler
	r                    *rand.Rand
	cmds                 []loop.Cmd
	labels               []string         // one label per pending command (what produced it): part of the DFS state key
	choose               func(n int) int  // nil = PRNG
	onState              func(n int) bool // DFS hook, called before every choice; false = abandon this run (state already explored)
	msgs                 []loop.Msg
	msgSeq               []int
	nextSeq              int
	trace                []string
	picks                []int
	viols                []sim.Finding
	jobsStarted, jobsRun int
	merges               map[stage.Unit]int
	lastMerged           map[int]int
	lastBlock            map[string]uint64
	outOfOrder           bool
	stageShift           bool
	resps                []*pbsubstreamsrpc.Response
}

func (e *c05Env) viol(sig, what string) { e.viols = append(e.viols, sim.Finding{Sig: sig, What: what}) }

func (e *c05Env) collect(r substreams.ResponseFromAnyTier) error {
	if resp, ok := r.(*pbsubstreamsrpc.Response); ok {
		e.resps = append(e.resps, resp)
	}
	return nil
}

// observe checks invariant (b) after a message was handled.
func (e *c05Env) observe() {
	st := e.sched.Stages
	for i := 0; i < st.VerifNumStages(); i++ {
		info := st.VerifStage(i)
		if !info.IsStore {
			continue
		}
		for _, m := range info.Modules {
			prev := e.lastBlock[m.Name]
			if m.LastBlockInStore < prev {
				e.viol("C05/store/last-block-went-backwards", fmt.Sprintf("store %s in-memory position went from block %d back to %d", m.Name, prev, m.LastBlockInStore))
			}
			e.lastBlock[m.Name] = m.LastBlockInStore
		}
	}
}

func msgName(m loop.Msg) string { return strings.TrimPrefix(fmt.Sprintf("%T", m), "*") }

// run drives the scheduler until quit, deadlock or step budget. Returns (quit, quitErr, verdict).
func (e *c05Env) run(budget int) (quit bool, quitErr error, verdict string) {
	pollRounds := 0
	lastFP := ""
	for step := 0; step < budget; step++ {
		n := len(e.cmds) + len(e.msgs)
		if n == 0 {
			return false, nil, "deadlock: no command pending and no message undelivered, scheduler has not quit"
		}
		if e.onState != nil && !e.onState(n) {
			return false, nil, "pruned"
		}
		var k int
		if e.choose != nil {
			k = e.choose(n)
		} else {
			k = e.r.Intn(n)
		}
		e.picks = append(e.picks, k)
		if k < len(e.cmds) {
			cmd := e.cmds[k]
			label := e.labels[k]
			e.cmds = append(e.cmds[:k], e.cmds[k+1:]...)
			e.labels = append(e.labels[:k], e.labels[k+1:]...)
			msg := cmd()
			e.sched.Stages.WaitAsyncWork()
			switch m := msg.(type) {
			case nil:
			case loop.BatchMsg:
				for i, bc := range m {
					e.pushCmd(bc, fmt.Sprintf("%s#%d", label, i))
				}
			case loop.SequenceMsg:
				if len(m) > 0 {
					rest := m[1:]
					first := m[0]
					e.pushCmd(func() loop.Msg {
						out := first()
						if len(rest) > 0 {
							e.pushCmd(func() loop.Msg { return loop.SequenceMsg(rest) }, label+"+")
						}
						return out
					}, label+"+")
				}
			default:
				e.msgs = append(e.msgs, msg)
				e.msgSeq = append(e.msgSeq, e.nextSeq)
				e.nextSeq++
			}
			continue
		}
		k -= len(e.cmds)
		msg := e.msgs[k]
		for j := 0; j < k; j++ {
			if e.msgSeq[j] < e.msgSeq[k] {
				e.outOfOrder = true
			}
		}
		e.msgs = append(e.msgs[:k], e.msgs[k+1:]...)
		e.msgSeq = append(e.msgSeq[:k], e.msgSeq[k+1:]...)
		switch m := msg.(type) {
		case loop.QuitMsg:
			return true, m.VerifErr(), ""
		case orchexecout.MsgFileNotPresent:
			if m.NextWait > 0 {
				m.NextWait = 1 // 1ns: pacing removed, but still "a retry with a wait" for the code that looks at it
			}
			msg = m
			fp := e.sched.Stages.VerifFingerprint()
			onlyPolls := true
			for _, mm := range e.msgs {
				switch mm.(type) {
				case orchexecout.MsgFileNotPresent, orchexecout.MsgDownloadSegment:
				default:
					onlyPolls = false
				}
			}
			if onlyPolls && len(e.cmds) == 0 && fp == lastFP {
				pollRounds++
				if pollRounds >= 3 {
					return false, nil, "deadlock: only the walker's poll for a missing output file is left and the scheduler state does not change: " + strings.ReplaceAll(fp, "\n", "/")
				}
			} else if fp != lastFP {
				pollRounds = 0
			}
			lastFP = fp
		case orchexecout.MsgDownloadSegment:
			if m.Wait > 1 {
				m.Wait = 1
			}
			msg = m
		case work.MsgJobFailed:
			e.viol("C05/job-failed/"+fw.NormalizeMsg(m.Error.Error()), fmt.Sprintf("job for unit (segment %d, stage %d) failed: %v", m.Unit.Segment, m.Unit.Stage, m.Error))
		case stage.MsgMergeFailed:
			e.viol("C05/merge-failed/"+fw.NormalizeMsg(m.Error.Error()), fmt.Sprintf("merge of unit (segment %d, stage %d) failed: %v", m.Unit.Segment, m.Unit.Stage, m.Error))
		case stage.MsgMergeFinished:
			e.merges[m.Unit]++
			if e.merges[m.Unit] > 1 {
				e.viol("C05/merge/segment-merged-twice", fmt.Sprintf("unit (segment %d, stage %d) merged %d times", m.Unit.Segment, m.Unit.Stage, e.merges[m.Unit]))
			}
			if last, ok := e.lastMerged[m.Unit.Stage]; ok && m.Unit.Segment <= last {
				e.viol("C05/merge/out-of-order", fmt.Sprintf("stage %d merged segment %d after segment %d", m.Unit.Stage, m.Unit.Segment, last))
			}
			e.lastMerged[m.Unit.Stage] = m.Unit.Segment
		}
		e.trace = append(e.trace, "deliver "+msgName(msg)+fmt.Sprintf(" %+v", msg))
		var cmd loop.Cmd
		func() {
			defer func() {
				if r := recover(); r != nil {
					e.viol("C05/panic/"+fw.NormalizeMsg(fmt.Sprint(r)), fmt.Sprintf("Scheduler.Update panicked on %s: %v", msgName(msg), r))
				}
			}()
			cmd = e.sched.Update(msg)
		}()
		e.observe()
		if len(e.viols) > 0 {
			return false, nil, "violation"
		}
		if cmd != nil {
			e.pushCmd(cmd, msgKey(msg))
		}
	}
	return false, nil, "budget"
}

func (e *c05Env) pushCmd(cmd loop.Cmd, label string) {
	e.cmds = append(e.cmds, cmd)
	e.labels = append(e.labels, label)
}

// msgKey renders a message without its pacing fields (they grow with every poll and are not scheduler state).
func msgKey(m loop.Msg) string {
	switch mm := m.(type) {
	case orchexecout.MsgFileNotPresent:
		if mm.NextWait > 0 {
			mm.NextWait = 1
		}
		return fmt.Sprintf("%T%+v", mm, mm)
	case orchexecout.MsgDownloadSegment:
		if mm.Wait > 0 { // zero means "no wait requested" to the scheduler: keep that distinction
			mm.Wait = 1
		}
		return fmt.Sprintf("%T%+v", mm, mm)
	case work.MsgJobSucceeded:
		return fmt.Sprintf("JobSucceeded{%d,%d}", mm.Unit.Segment, mm.Unit.Stage)
	case work.MsgJobFailed:
		return fmt.Sprintf("JobFailed{%d,%d}", mm.Unit.Segment, mm.Unit.Stage)
	case loop.QuitMsg:
		return "Quit"
	}
	return fmt.Sprintf("%T%+v", m, m)
}

// stateKey abstracts the whole controlled state: the scheduler's unit matrix and store positions, the undelivered messages
// and the pending commands (by origin), each as a multiset, and the number of messages the walker has streamed.
func (e *c05Env) stateKey() string {
	var ms, cs []string
	for _, m := range e.msgs {
		ms = append(ms, msgKey(m))
	}
	cs = append(cs, e.labels...)
	sort.Strings(ms)
	sort.Strings(cs)
	return e.sched.Stages.VerifFingerprint() + "|M:" + strings.Join(ms, ";") + "|C:" + strings.Join(cs, ";") + fmt.Sprintf("|W:%d", len(e.resps))
}

func c05PRNGCases(tier string) int {
	if tier == "thorough" {
		return 3400
	}
	return 70
}

// systematic part: (grids, executions per grid, largest grid in units)
func c05DFSCases(tier string) int {
	if tier == "thorough" {
		return 48
	}
	return 8
}

func c05DFSBudget(tier string) (execs, maxUnits int) {
	if v, err := strconv.Atoi(os.Getenv("VH_C05_DFS_BUDGET")); err == nil && v > 0 { // experiments only
		return v, 6
	}
	if tier == "thorough" {
		return 2500, 6
	}
	return 250, 6
}

func runC05(c *fw.Case) {
	if c.Mode == "race" {
		runC05Race(c)
		return
	}
	if c.Index >= c05PRNGCases(c.Tier) {
		runC05DFS(c)
		return
	}
	shapeFamily := c.Index%10 == 9 // dedicated sub-family: the recorded known-finding shape
	var g *c07Golden
	var ok bool
	if shapeFamily {
		g, ok = buildShiftShape(c)
	} else {
		// every 10th case: the OUTPUT module is a block-index module (no walker: the request ends on the stores / jobs alone)
		g, ok = buildGoldenOpt(c, c.R, 4, 30, c.Index%10 == 8)
		// every 3rd case wants a store stage with SEVERAL stores: the storage scan and the squasher then deal with units in
		// which one store has its snapshot and another only its partial
		for attempt := 0; ok && c.Index%3 == 0 && c.Index%10 != 8 && attempt < 12; attempt++ {
			multi := false
			if pl, err := g.s.cl.PlanFor(g.req); err == nil {
				for _, st := range pl.Graph.StagedUsedModules() {
					if st.LastLayer().IsStoreLayer() && len(st.LastLayer()) >= 2 {
						multi = true
					}
				}
			}
			if multi {
				c.Count("cases_with_a_multi_store_stage", 1)
				break
			}
			g.s.close()
			g, ok = buildGoldenOpt(c, c.R, 4, 30, false)
		}
	}
	if !ok {
		c.Count("golden_generation_gave_up", 1)
		return
	}
	s := g.s
	defer s.close()
	s.c = c
	ref := s.ref(g.out)
	pl, err := s.cl.PlanFor(g.req)
	if err != nil || ref == nil {
		return
	}
	if !shapeFamily && pl.Plan.BuildStores == nil {
		c.Count("plans_without_store_stage_skipped", 1)
		return
	}
	nStages := len(pl.Graph.StagedUsedModules())
	c.Distinct("grids", fmt.Sprintf("%dx%d", nStages, pl.Plan.BackprocessSegmenter().Count()))
	x := &c05Ctx{c: c, s: s, g: g, pl: pl, ref: ref, nStages: nStages}
	for sched := 0; sched < 6; sched++ {
		// initial cache: PRNG subset of the complete run's files
		chosen := map[string]bool{}
		var chosenNames []string
		p := []float64{0, 0.3, 0.6, 0.9}[c.R.Intn(4)]
		for _, name := range g.names {
			if c.R.Float64() < p {
				chosen[name] = true
				chosenNames = append(chosenNames, name)
			}
		}
		workers := 1 + c.R.Intn(3)
		env, outcome := x.one(chosen, chosenNames, workers, nil)
		if outcome == "stop" {
			return
		}
		if outcome != "ok" {
			continue
		}
		c.Distinct("pick_sequences", fmt.Sprint(env.picks))
		c.Distinct("fingerprints_final", env.sched.Stages.VerifFingerprint())
		if env.jobsRun+len(env.merges) >= 3 && env.outOfOrder {
			c.Nontrivial(fmt.Sprint(env.picks) + fmt.Sprint(chosenNames) + fmt.Sprint(s.pkg.Describe()))
		}
		if c.WantSample() && sched == 0 {
			w := x.wit(env, chosenNames, workers)
			w["trace_tail"] = env.trace
			c.Sample(w)
		}
	}
}

// runC05DFS: depth-first enumeration of the controlled schedules of ONE small grid by re-execution. Every execution follows
// a prefix of choices and then always takes the first alternative; afterwards the deepest choice with an untried alternative is
// advanced. A state (scheduler fingerprint + undelivered messages + pending commands by origin + walker progress) reached for the
// second time is not explored again. The grid is COMPLETE when no untried alternative is left within the execution budget.
func runC05DFS(c *fw.Case) {
	budget, maxUnits := c05DFSBudget(c.Tier)
	var g *c07Golden
	var pl *sim.Planned
	for attempt := 0; attempt < 400 && g == nil; attempt++ {
		gg, ok := buildGolden(c, c.R, 3, 30)
		if !ok {
			break
		}
		p, err := gg.s.cl.PlanFor(gg.req)
		if err == nil && p.Plan.BuildStores != nil && !p.KnownHangShape() {
			if u := len(p.Graph.StagedUsedModules()) * p.Plan.BackprocessSegmenter().Count(); u >= 2 && u <= maxUnits {
				g, pl = gg, p
				break
			}
		}
		gg.s.close()
	}
	if g == nil {
		c.Count("dfs_no_small_grid_found", 1)
		return
	}
	s := g.s
	defer s.close()
	s.c = c
	ref := s.ref(g.out)
	if ref == nil {
		return
	}
	nStages := len(pl.Graph.StagedUsedModules())
	grid := fmt.Sprintf("%dx%d", nStages, pl.Plan.BackprocessSegmenter().Count())
	c.Distinct("dfs_grids", grid)
	x := &c05Ctx{c: c, s: s, g: g, pl: pl, ref: ref, nStages: nStages}
	chosen := map[string]bool{}
	var chosenNames []string
	p := []float64{0, 0, 0.4, 0.8}[c.R.Intn(4)]
	for _, name := range g.names {
		if c.R.Float64() < p {
			chosen[name] = true
			chosenNames = append(chosenNames, name)
		}
	}
	workers := 1 + c.R.Intn(2)
	visited := map[string]bool{}
	var prefix, prevBranching []int
	complete := false
	execs, judged, pruned := 0, 0, 0
	for execs < budget {
		var branching []int
		step := 0
		inRun := map[string]bool{}
		configure := func(e *c05Env) {
			walkerOnly := func() bool {
				for _, m := range e.msgs {
					switch m.(type) {
					case orchexecout.MsgFileNotPresent, orchexecout.MsgDownloadSegment:
					default:
						return false
					}
				}
				for _, l := range e.labels {
					if !strings.Contains(l, "MsgFileNotPresent") && !strings.Contains(l, "MsgDownloadSegment") {
						return false
					}
				}
				return true
			}
			e.onState = func(n int) bool {
				if len(branching) >= len(prefix) && !walkerOnly() { // new territory (walker-only polling is left to the deadlock detector)
					key := e.stateKey()
					if visited[key] {
						return false
					}
					visited[key] = true
					inRun[key] = true
				} else if len(branching) < len(prevBranching) && len(branching) < len(prefix) && prevBranching[len(branching)] != n {
					c.Count("dfs_replays_that_diverged", 1)
				}
				branching = append(branching, n)
				return true
			}
			e.choose = func(n int) int {
				k := 0
				if step < len(prefix) {
					k = prefix[step]
				}
				step++
				if k >= n {
					k = n - 1
				}
				return k
			}
		}
		env, outcome := x.one(chosen, chosenNames, workers, configure)
		execs++
		if outcome == "stop" {
			return
		}
		if outcome == "pruned" {
			pruned++
		} else {
			judged++
			if outcome == "ok" {
				c.Distinct("fingerprints_final", env.sched.Stages.VerifFingerprint())
			}
		}
		// backtrack
		picks := env.picks
		i := len(picks) - 1
		for ; i >= 0; i-- {
			if i < len(branching) && picks[i]+1 < branching[i] {
				break
			}
		}
		if i < 0 {
			complete = true
			break
		}
		prefix = append(append([]int{}, picks[:i]...), picks[i]+1)
		prevBranching = branching
		if execs == 1 && c.WantSample() {
			w := x.wit(env, chosenNames, workers)
			w["kind"] = "first execution of a depth-first enumeration"
			c.Sample(w)
		}
	}
	c.Count("dfs_executions", int64(execs))
	c.Count("dfs_executions_judged_to_the_end", int64(judged))
	c.Count("dfs_executions_merged_into_explored_state", int64(pruned))
	c.Count("dfs_distinct_states", int64(len(visited)))
	if complete {
		c.Count("dfs_grids_enumerated_completely", 1)
		c.Distinct("dfs_complete_grids", fmt.Sprintf("%s w=%d cache=%d/%d %v", grid, workers, len(chosenNames), len(g.names), s.pkg.Describe()))
	} else {
		c.Count("dfs_grids_budget_exhausted", 1)
	}
	if judged >= 2 {
		c.Nontrivial(fmt.Sprintf("dfs|%v|%+v|%v|%d", s.pkg.Describe(), g.req, chosenNames, workers))
	}
}

type c05Ctx struct {
	c       *fw.Case
	s       *scen
	g       *c07Golden
	pl      *sim.Planned
	ref     *sim.Ref
	nStages int
}

func (x *c05Ctx) wit(env *c05Env, chosenNames []string, workers int) map[string]any {
	tr := env.trace
	if len(tr) > 120 {
		tr = tr[len(tr)-120:]
	}
	return x.s.witness(map[string]any{"request": x.g.req, "present_files": chosenNames, "workers": workers, "picks": env.picks, "trace_tail": tr, "final_state": strings.Split(env.sched.Stages.VerifFingerprint(), "\n")})
}

// one runs ONE controlled schedule on a fresh copy of the chosen cache files and judges it.
// outcome: "ok" (quit cleanly, all monitors held), "stop" (violation recorded or setup failed: end the case),
// "pruned" (abandoned by the DFS hook), "skip" (known finding shape / inconclusive: go on with the next schedule).
func (x *c05Ctx) one(chosen map[string]bool, chosenNames []string, workers int, configure func(*c05Env)) (*c05Env, string) {
	c, s, g, pl, ref := x.c, x.s, x.g, x.pl, x.ref
	dir, _ := os.MkdirTemp(os.Getenv("VH_SCRATCH"), "c05-")
	defer os.RemoveAll(dir)
	restore(dir, s.cl.Tag, g.files, chosen)
	cl := sim.NewCluster(dir, s.seg, s.cl.Head)
	cl.FirstStreamable = s.fsb
	env, err := newC05Env(c, cl, g.req, workers)
	if err != nil {
		c.Violation("C05/setup-failed/"+fw.NormalizeMsg(err.Error()), "building the parallel processor failed: "+err.Error(), s.witness(map[string]any{"request": g.req, "present_files": chosenNames}))
		return nil, "stop"
	}
	if configure != nil {
		configure(env)
	}
	units := x.nStages * pl.Plan.BackprocessSegmenter().Count()
	quit, quitErr, verdict := env.run(400 + 60*units)
	c.Count("schedules", 1)
	c.Count("steps", int64(len(env.picks)))
	c.Count("jobs_run", int64(env.jobsRun))
	c.Count("merges_finished", int64(len(env.merges)))
	wit := func() map[string]any { return x.wit(env, chosenNames, workers) }
	if len(env.viols) > 0 {
		for _, v := range env.viols {
			c.Violation(v.Sig, v.What, wit())
		}
		return env, "stop"
	}
	if !quit {
		switch {
		case verdict == "pruned":
			return env, "pruned"
		case verdict == "budget":
			c.Inconclusive("step budget exhausted without quit")
		case env.stageShift || pl.KnownHangShape():
			c.Violation("C05/liveness/stage-index-shift", "the scheduler never terminates: store stages were dropped from Stages (no store to build) and the remaining stage is sent to tier2 under the wrong stage index, so the requested outputs are never written: "+verdict, wit())
		default:
			c.Violation("C05/liveness/deadlock", verdict, wit())
		}
		if c.Violated() {
			return env, "stop"
		}
		return env, "skip"
	}
	if quitErr != nil {
		c.Violation("C05/quit-with-error/"+fw.NormalizeMsg(quitErr.Error()), "scheduler quit with error: "+quitErr.Error(), wit())
		return env, "stop"
	}
	// (d) final state
	handoff := pl.Details.LinearHandoffBlockNum
	if pl.Plan.BuildStores != nil {
		sm, err := env.sched.FinalStoreMap(handoff)
		if err != nil {
			c.Violation("C05/final-store-map/"+fw.NormalizeMsg(err.Error()), "FinalStoreMap failed after a clean quit: "+err.Error(), wit())
			return env, "stop"
		}
		for name, st := range sm {
			pr := s.pkg.Progs[name]
			pair := model.Pair{Policy: pr.Policy, VT: pr.VT}
			snap := sim.StoreSnap{KV: map[string][]byte{}}
			st.Iter(func(k string, v []byte) error { snap.KV[k] = v; return nil })
			got, err := sim.TypedStore(pair, snap)
			want, _ := sim.TypedStore(pair, ref.RefStoreAt(name, handoff))
			c.Count("final_stores_compared", 1)
			if err != nil || sim.DiffTyped(got, want) != "" {
				c.Violation("C05/final-store-content", fmt.Sprintf("store %s at hand-off %d differs from the sequential reference: %v %s", name, handoff, err, sim.DiffTyped(got, want)), wit())
				return env, "stop"
			}
		}
	}
	indexOut := s.pkg.Kind[g.out] == "index"
	if indexOut {
		c.Count("schedules_with_index_output_module", 1)
	}
	// walker output against the reference (an index output module is not streamed while back-processing)
	if pl.Plan.ReadExecOut != nil && !indexOut {
		fake := &sim.Result{Spec: g.req, Responses: append([]*pbsubstreamsrpc.Response{{Message: &pbsubstreamsrpc.Response_Session{Session: &pbsubstreamsrpc.SessionInit{ResolvedStartBlock: pl.Details.ResolvedStartBlockNum, LinearHandoffBlock: pl.Details.LinearHandoffBlockNum}}}}, env.resps...)}
		fake.Spec.Stop = pl.Plan.ReadExecOut.ExclusiveEndBlock
		fs, facts := sim.CheckStream(fake, ref, false)
		for _, f := range fs {
			c.Violation("C05/"+f.Sig, f.What, wit())
		}
		c.Count("walker_messages_checked", int64(facts.Data))
	}
	af, _ := cl.AuditCache(ref, s.pkg)
	for _, f := range af {
		c.Violation("C05/"+f.Sig, f.What, wit())
	}
	// requested outputs all written
	if pl.Plan.WriteExecOut != nil {
		h := pl.Graph.ModuleHashes().Get(g.out)
		seg := pl.Plan.ReadOutSegmenter(pl.Graph.ModulesInitBlocks()[g.out])
		have := map[string]bool{}
		for _, f := range cl.ListCache() {
			have[f.Rel] = true
		}
		for k := seg.FirstIndex(); k <= seg.LastIndex(); k++ {
			r := seg.Range(k)
			if r == nil {
				continue
			}
			rel := fmt.Sprintf("%s/outputs/%010d-%010d.output.zst", h, r.StartBlock, r.ExclusiveEndBlock)
			if indexOut {
				rel = fmt.Sprintf("%s/index/%010d-%010d.index.zst", h, r.StartBlock, r.ExclusiveEndBlock)
			}
			if !have[rel] {
				c.Violation("C05/output-file-missing-after-quit", "scheduler quit cleanly but requested output file "+rel+" was not written", wit())
			}
		}
	}
	if c.Violated() {
		return env, "stop"
	}
	return env, "ok"
}

func newC05Env(c *fw.Case, cl *sim.Cluster, req sim.RequestSpec, workers int) (*c05Env, error) {
	sim.Init()
	pl, err := cl.PlanFor(req)
	if err != nil {
		return nil, err
	}
	e := &c05Env{c: c, cl: cl, r: c.R, merges: map[stage.Unit]int{}, lastMerged: map[int]int{}, lastBlock: map[string]uint64{}}
	ctx := context.Background()
	ctx = dmetering.WithBytesMeter(ctx)
	ctx = reqctx.WithTier2RequestParameters(ctx, cl.Tier2Params())
	ctx = native.WithTag(ctx, "tier1")
	pl.Details.MaxParallelJobs = uint64(workers)
	ctx = reqctx.WithRequest(ctx, pl.Details)
	ctx = reqctx.WithReqStats(ctx, metrics.NewReqStats(&metrics.Config{OutputModule: req.Output, ProductionMode: req.Prod}, zap.NewNop()))
	base, err := dstore.NewStore(cl.Dir, "zst", "zstd", true)
	if err != nil {
		return nil, err
	}
	cacheStore, err := base.SubStore(cl.Tag)
	if err != nil {
		return nil, err
	}
	g := pl.Graph
	eoc, err := execout.NewConfigs(cacheStore, g.UsedModules(), g.ModuleHashes(), cl.SegSize, cl.FirstStreamable, zap.NewNop())
	if err != nil {
		return nil, err
	}
	sc, err := store.NewConfigMap(cacheStore, g.Stores(), g.ModuleHashes(), cl.FirstStreamable)
	if err != nil {
		return nil, err
	}
	n := 0
	pp, err := orchestrator.BuildParallelProcessor(ctx, pl.Plan, func(*zap.Logger) work.Worker {
		n++
		return &c05Worker{env: e, id: fmt.Sprintf("cw%d", n)}
	}, workers, g, eoc, e.collect, sc)
	if err != nil {
		return nil, err
	}
	e.sched = pp.VerifScheduler()
	native.StartLog()
	e.cmds = []loop.Cmd{e.sched.Init()}
	e.labels = []string{"init"}
	return e, nil
}

// buildShiftShape builds a (package, request) of the recorded finding shape: output mapper
// back-processed while no store is built although the graph has store stages.
func buildShiftShape(c *fw.Case) (*c07Golden, bool) {
	for attempt := 0; attempt < 300; attempt++ {
		s := newScen(c, genOptsSmall())
		outs := s.outputs()
		if len(outs) == 0 {
			s.close()
			continue
		}
		out := outs[c.R.Intn(len(outs))]
		req := s.genRequest(out)
		req.Prod = true
		req.Final = s.cl.Head
		pl, err := s.cl.PlanFor(req)
		if err != nil || !pl.KnownHangShape() {
			s.close()
			continue
		}
		return &c07Golden{s: s, out: out, req: req, files: map[string][]byte{}}, true
	}
	return nil, false
}
