// Package c15a checks the first half of property C15: the two block-filter
// evaluators of /repo/sqe agree on every accepted expression and every
// key-to-block assignment, and both agree with an independent evaluator.
package c15a

import (
	"bytes"
	"context"
	"fmt"
	"reflect"
	"sort"
	"strings"

	"github.com/RoaringBitmap/roaring/roaring64"
	"github.com/streamingfast/dstore"
	"github.com/streamingfast/substreams/block"
	pbindex "github.com/streamingfast/substreams/pb/sf/substreams/index/v1"
	"github.com/streamingfast/substreams/sqe"
	"github.com/streamingfast/substreams/storage/index"
	"go.uber.org/zap"
	"google.golang.org/protobuf/proto"

	"verif/harness/fw"
)

// Rule and Assumptions describe this half of C15 (the lead registers the combined Spec).
const Rule = "case = one batch of 3-4 filter expressions drawn as STRINGS from the accepted grammar (nested &&, ||, juxtaposition, parentheses, bare / '..' / \"..\" keys, PRNG layout) over one universe of 2-10 keys, " +
	"parsed by sqe.Parse, x 20 (quick) / 50 (thorough) key-to-block assignments over a segment of 1-200 blocks (index built per block from marshalled pbindex.Keys exactly like cache.Engine.EndOfStream; 1 in 4 additionally saved and re-loaded through index.File on a dstore). " +
	"For every (expression, assignment): {b | KeysApply(expr, keys(b))} == RoaringBitmapsApply(expr, index).ToArray() == set computed by the harness' own evaluator on its own tree; evaluations are repeated and interleaved over the SAME bitmap map, whose serialized content must stay unchanged; " +
	"BlockIndex.Skip / SkipFromKeys / ExcludesAllBlocks and the skipFromIndex decision with and without a pre-computed bitmap must equal !match. Every negated form (-x at a unary position) must be rejected by Parse, every generated positive expression accepted. " +
	"non-trivial = expression with >=1 binary operator for which some assignment selects a non-empty proper subset of the segment; distinct by expression string"

var Assumptions = []string{
	"and binds tighter than or, juxtaposition means and (sqe/parser_test.go precedence_* rows); this is what the harness' own evaluator implements",
	"bare keys never contain '&' or '|' and the words and/or/not are only written quoted (their bare meaning is not documented)",
	"the skip decision of pipeline/exec.skipFromIndex (unexported) is re-stated with the exported BlockIndex methods: Precomputed() ? Skip(block) : SkipFromKeys(keys)",
}

// MinNontrivial is the number of distinct non-trivial cases a quick run observes comfortably.
const MinNontrivial = 500

// Cases is the number of cases of a tier; Run runs case c.Index in 0..Cases(tier)-1 (all random choices from c.R).
func Cases(tier string) int {
	if tier == "thorough" {
		return 100000
	}
	return 2000
}

type parsedExpr struct {
	tree *node
	src  string
	expr sqe.Expression
	keys map[string]bool
}

type assignment struct {
	b0       uint64
	n        int
	blockKey [][]string // keys of block b0+i (nil: block produced no index output at all)
	hasOut   []bool     // block has an output record (possibly with zero keys)
}

var segStarts = []uint64{0, 0, 1, 100, 1000, 20000, 65530, 1 << 16, 1234567, (1 << 32) - 50, 1 << 32, (1 << 40) + 7}

func genAssignment(c *fw.Case, universe []keyDef, exprKeys []string) *assignment {
	r := c.R
	a := &assignment{b0: segStarts[r.Intn(len(segStarts))]}
	switch r.Intn(6) {
	case 0:
		a.n = 1 + r.Intn(3)
	case 1:
		a.n = 100 + r.Intn(101)
	default:
		a.n = 4 + r.Intn(40)
	}
	// keys emitted in this segment: 1..8 distinct (rarely 0), drawn from the universe plus noise keys that no expression mentions
	pool := make([]string, 0, len(universe)+4)
	for _, k := range universe {
		pool = append(pool, k.s)
	}
	pool = append(pool, "noise", "zz:noise", "", "a ")
	r.Shuffle(len(pool), func(i, j int) { pool[i], pool[j] = pool[j], pool[i] })
	nEmit := 1 + r.Intn(8)
	if r.Intn(2) == 0 {
		nEmit = 4 + r.Intn(5)
	}
	if r.Intn(25) == 0 {
		nEmit = 0
	}
	if nEmit > len(pool) {
		nEmit = len(pool)
	}
	emitted := pool[:nEmit]
	dens := make([]float64, nEmit)
	choices := []float64{0.03, 0.2, 0.5, 0.5, 0.7, 0.9, 0.97, 1.0}
	for i := range dens {
		dens[i] = choices[r.Intn(len(choices))]
	}
	pNoOut := []float64{0, 0, 0.1, 0.5}[r.Intn(4)]
	a.blockKey = make([][]string, a.n)
	a.hasOut = make([]bool, a.n)
	for i := 0; i < a.n; i++ {
		if r.Float64() < pNoOut {
			continue
		}
		a.hasOut[i] = true
		for j, k := range emitted {
			if r.Float64() < dens[j] {
				a.blockKey[i] = append(a.blockKey[i], k)
				if r.Intn(20) == 0 {
					a.blockKey[i] = append(a.blockKey[i], k) // a module may emit the same key twice
				}
			}
		}
	}
	return a
}

// buildIndex mirrors pipeline/cache.Engine.EndOfStream: for every output item, unmarshal the pbindex.Keys payload and add the block number to the bitmap of each key.
func buildIndex(a *assignment) (map[string]*roaring64.Bitmap, [][]byte, error) {
	indexes := make(map[string]*roaring64.Bitmap)
	payloads := make([][]byte, a.n)
	for i := 0; i < a.n; i++ {
		if !a.hasOut[i] {
			// no record for that block: a reader gets an empty payload
			continue
		}
		p, err := proto.Marshal(&pbindex.Keys{Keys: a.blockKey[i]})
		if err != nil {
			return nil, nil, err
		}
		payloads[i] = p
		extracted := &pbindex.Keys{}
		if err := proto.Unmarshal(p, extracted); err != nil {
			return nil, nil, err
		}
		for _, key := range extracted.Keys {
			if _, ok := indexes[key]; !ok {
				indexes[key] = roaring64.New()
			}
			indexes[key].Add(a.b0 + uint64(i))
		}
	}
	return indexes, payloads, nil
}

var memStoreSeq int

// flatStore makes SubStore return the same store: dstore's in-memory store hands out detached copies from SubStore,
// so that a file written through one index.File could not be read through another one.
type flatStore struct{ dstore.Store }

func (f flatStore) SubStore(string) (dstore.Store, error) { return f, nil }

// throughFile saves the index with the real index.File and loads it again (the bitmaps then alias the file's byte buffer).
func throughFile(a *assignment, idx map[string]*roaring64.Bitmap) (map[string]*roaring64.Bitmap, error) {
	memStoreSeq++
	ds, err := dstore.NewStore(fmt.Sprintf("memory://c15a-%d", memStoreSeq), "", "", true)
	if err != nil {
		return nil, err
	}
	ds = flatStore{ds}
	rng := &block.Range{StartBlock: a.b0, ExclusiveEndBlock: a.b0 + uint64(a.n)}
	w, err := index.NewFile(ds, "hash", "idx", zap.NewNop(), rng)
	if err != nil {
		return nil, err
	}
	w.Set(idx)
	if err := w.Save(context.Background()); err != nil {
		return nil, err
	}
	rd, err := index.NewFile(ds, "hash", "idx", zap.NewNop(), rng)
	if err != nil {
		return nil, err
	}
	if err := rd.Load(context.Background()); err != nil {
		return nil, err
	}
	return rd.Indices, nil
}

func snapshot(idx map[string]*roaring64.Bitmap) (map[string][]byte, error) {
	out := make(map[string][]byte, len(idx))
	for k, bm := range idx {
		b, err := bm.ToBytes()
		if err != nil {
			return nil, err
		}
		out[k] = append([]byte(nil), b...)
	}
	return out, nil
}

func hasNot(e sqe.Expression) bool {
	switch v := e.(type) {
	case *sqe.NotExpression:
		return true
	case *sqe.AndExpression:
		for _, ch := range v.Children {
			if hasNot(ch) {
				return true
			}
		}
	case *sqe.OrExpression:
		for _, ch := range v.Children {
			if hasNot(ch) {
				return true
			}
		}
	case *sqe.ParenthesisExpression:
		return hasNot(v.Child)
	}
	return false
}

func setString(bs []uint64) string {
	if len(bs) > 40 {
		return fmt.Sprintf("%v...(%d blocks)", bs[:40], len(bs))
	}
	return fmt.Sprint(bs)
}

func equalU64(a, b []uint64) bool {
	if len(a) != len(b) {
		return false
	}
	for i := range a {
		if a[i] != b[i] {
			return false
		}
	}
	return true
}

// applyBitmaps is the call under test; tests of the oracle wrap it (see selfTestBroken).
var applyBitmaps = sqe.RoaringBitmapsApply
var applyKeys = sqe.KeysApply

// Run runs one case: one expression batch.
func Run(c *fw.Case) {
	r := c.R
	ctx := context.Background()
	nAssign := 20
	if c.Tier == "thorough" {
		nAssign = 50
	}

	universe := genUniverse(r, 2+r.Intn(9))
	nExpr := 3 + r.Intn(2)
	var exprs []*parsedExpr
	for i := 0; i < nExpr; i++ {
		t := genExpr(r, universe)
		src := t.render(r)
		c.Count("expressions_generated", 1)
		e, err := sqe.Parse(ctx, src)
		if err != nil {
			c.Count("generated_expressions_rejected", 1)
			c.Violation("C15a/generated-expression-rejected", fmt.Sprintf("sqe.Parse rejected an expression of the accepted grammar: %q: %v", src, err), map[string]any{"expression": src})
			continue
		}
		if hasNot(e) {
			c.Violation("C15a/not-node-in-accepted-expression", fmt.Sprintf("sqe.Parse(%q) produced a NotExpression", src), map[string]any{"expression": src})
			continue
		}
		pe := &parsedExpr{tree: t, src: src, expr: e, keys: map[string]bool{}}
		t.collectKeys(pe.keys)
		exprs = append(exprs, pe)
		c.Distinct("expressions", src)
		var sb strings.Builder
		t.shape(&sb)
		c.Distinct("expression_shapes", sb.String())
		c.Max("expr_key_terms", int64(t.count(kKey)))
		c.Max("expr_depth", int64(t.depth()))
		if t.count(kAnd) > 0 && t.count(kOr) > 0 {
			c.Count("expressions_mixing_and_or", 1)
		}
	}
	if len(exprs) == 0 {
		return
	}

	// ---- negation must be rejected at parse time
	main := exprs[0]
	someKey := universe[0].s
	if !universe[0].bareOK {
		someKey = "k"
	}
	negs := []string{
		"-" + main.src,
		"-" + someKey,
		"- " + someKey,
		someKey + " -" + someKey,
		someKey + " && -" + someKey,
		someKey + " || -" + someKey,
		"(-" + someKey + ")",
		someKey + " || -(" + main.src + ")",
		"(" + main.src + ") -'" + someKey + "'",
		"-\"" + someKey + "\"",
	}
	for _, s := range negs {
		c.Count("negated_forms_tried", 1)
		e, err := sqe.Parse(ctx, s)
		if err == nil {
			c.Violation("C15a/negation-accepted", fmt.Sprintf("sqe.Parse accepted the negated form %q (bitmaps cannot represent negation)", s), map[string]any{"expression": s, "has_not_node": hasNot(e)})
		} else {
			c.Count("negated_forms_rejected", 1)
		}
	}

	var exprKeyList []string
	for k := range main.keys {
		exprKeyList = append(exprKeyList, k)
	}
	sort.Strings(exprKeyList)

	nontrivial := map[int]bool{}
	for ai := 0; ai < nAssign; ai++ {
		a := genAssignment(c, universe, exprKeyList)
		idx, payloads, err := buildIndex(a)
		if err != nil {
			c.Inconclusive("cannot marshal keys: " + err.Error())
			return
		}
		viaFile := ai%4 == 3
		if viaFile {
			idx2, err := throughFile(a, idx)
			if err != nil {
				c.Violation("C15a/index-file-roundtrip-error", "index.File Save/Load failed: "+err.Error(), describe(nil, a))
				return
			}
			if len(idx2) != len(idx) {
				c.Violation("C15a/index-file-roundtrip-differs", fmt.Sprintf("index.File Save/Load returned %d keys for %d", len(idx2), len(idx)), describe(nil, a))
				return
			}
			idx = idx2
			c.Count("assignments_through_index_file", 1)
		}
		c.Count("assignments", 1)
		c.Distinct("segment_sizes", fmt.Sprint(a.n))
		c.Distinct("segment_starts", fmt.Sprint(a.b0))
		before, err := snapshot(idx)
		if err != nil {
			c.Inconclusive("cannot serialize bitmap: " + err.Error())
			return
		}

		// per-block key sets
		keySets := make([]map[string]bool, a.n)
		for i := range keySets {
			m := map[string]bool{}
			for _, k := range a.blockKey[i] {
				m[k] = true
			}
			keySets[i] = m
		}

		// expected and per-keys results, per expression
		type res struct {
			oracle []uint64
			byKeys []uint64
		}
		results := make([]res, len(exprs))
		for ei, pe := range exprs {
			for i := 0; i < a.n; i++ {
				blk := a.b0 + uint64(i)
				if pe.tree.eval(keySets[i]) {
					results[ei].oracle = append(results[ei].oracle, blk)
				}
				if applyKeys(pe.expr, sqe.NewFromIndexKeys(&pbindex.Keys{Keys: a.blockKey[i]})) {
					results[ei].byKeys = append(results[ei].byKeys, blk)
				}
				c.Count("block_evaluations", 1)
			}
			if !equalU64(results[ei].oracle, results[ei].byKeys) {
				c.Violation("C15a/keys-evaluator-differs-from-oracle", fmt.Sprintf("expression %q: KeysApply selects %s, the harness evaluator selects %s", pe.src, setString(results[ei].byKeys), setString(results[ei].oracle)), describe(pe, a))
				return
			}
		}

		// interleaved, repeated bitmap evaluations over the same shared map
		order := make([]int, 0, len(exprs)*3)
		for rep := 0; rep < 2+ai%2; rep++ {
			for ei := range exprs {
				order = append(order, ei)
			}
		}
		r.Shuffle(len(order), func(i, j int) { order[i], order[j] = order[j], order[i] })
		firstBitmap := make([]*roaring64.Bitmap, len(exprs))
		for step, ei := range order {
			pe := exprs[ei]
			bm := applyBitmaps(pe.expr, idx)
			c.Count("bitmap_evaluations", 1)
			if bm == nil {
				c.Violation("C15a/bitmap-nil", fmt.Sprintf("RoaringBitmapsApply(%q) returned nil", pe.src), describe(pe, a))
				return
			}
			got := bm.ToArray()
			if !equalU64(got, results[ei].byKeys) {
				sig := "C15a/evaluators-disagree"
				if firstBitmap[ei] != nil {
					sig = "C15a/repeated-evaluation-differs"
				}
				c.Violation(sig, fmt.Sprintf("expression %q (evaluation #%d over the shared index): RoaringBitmapsApply selects %s, KeysApply selects %s", pe.src, step, setString(got), setString(results[ei].byKeys)), describe(pe, a))
				return
			}
			if !equalU64(got, results[ei].oracle) {
				c.Violation("C15a/bitmap-evaluator-differs-from-oracle", fmt.Sprintf("expression %q: RoaringBitmapsApply selects %s, the harness evaluator selects %s", pe.src, setString(got), setString(results[ei].oracle)), describe(pe, a))
				return
			}
			first := firstBitmap[ei] == nil
			if first {
				firstBitmap[ei] = bm
			}

			// the block index built from it, as pipeline.BuildModuleExecutors does (once per expression and assignment)
			if first {
				pre := newBlockIndex(pe.expr, "idx", bm)
				abs := newBlockIndex(pe.expr, "idx", nil)
				if !pre.Precomputed() || abs.Precomputed() {
					c.Violation("C15a/blockindex/precomputed-flag", "Precomputed() wrong", describe(pe, a))
					return
				}
				matchCount := len(results[ei].oracle)
				if pre.ExcludesAllBlocks() != (matchCount == 0) {
					c.Violation("C15a/blockindex/excludes-all-blocks", fmt.Sprintf("expression %q: ExcludesAllBlocks()=%v but %d blocks of the segment match", pe.src, pre.ExcludesAllBlocks(), matchCount), describe(pe, a))
					return
				}
				if abs.ExcludesAllBlocks() {
					c.Violation("C15a/blockindex/excludes-all-blocks-without-index", fmt.Sprintf("expression %q: ExcludesAllBlocks()=true without a pre-computed bitmap", pe.src), describe(pe, a))
					return
				}
				oi := 0
				for i := 0; i < a.n; i++ {
					blk := a.b0 + uint64(i)
					match := oi < len(results[ei].oracle) && results[ei].oracle[oi] == blk
					if match {
						oi++
					}
					c.Count("skip_decisions", 2)
					if got := pre.Skip(blk); got != !match {
						c.Violation("C15a/blockindex/skip-with-index", fmt.Sprintf("expression %q block %d: Skip=%v with a pre-computed index, but the filter match on the block's keys is %v", pe.src, blk, got, match), describe(pe, a))
						return
					}
					if got := pre.SkipFromKeys(payloads[i]); got != !match {
						c.Violation("C15a/blockindex/skip-from-keys", fmt.Sprintf("expression %q block %d: SkipFromKeys=%v, filter match is %v", pe.src, blk, got, match), describe(pe, a))
						return
					}
					// decision without index (index file absent or being built): never from the bitmap
					if abs.Skip(blk) {
						c.Violation("C15a/blockindex/skip-without-index", fmt.Sprintf("expression %q block %d: Skip=true although no bitmap was pre-computed", pe.src, blk), describe(pe, a))
						return
					}
					if decide(pre, blk, payloads[i]) != decide(abs, blk, payloads[i]) {
						c.Violation("C15a/blockindex/decision-depends-on-index-presence", fmt.Sprintf("expression %q block %d: skip decision with index=%v, without=%v", pe.src, blk, decide(pre, blk, payloads[i]), decide(abs, blk, payloads[i])), describe(pe, a))
						return
					}
				}
			}
		}

		// the shared index must not have been modified by any evaluation
		after, err := snapshot(idx)
		if err != nil {
			c.Violation("C15a/shared-index-unserializable-after-evaluation", err.Error(), describe(main, a))
			return
		}
		if len(after) != len(before) {
			c.Violation("C15a/shared-index-mutated", fmt.Sprintf("the index map has %d keys after evaluation, had %d", len(after), len(before)), describe(main, a))
			return
		}
		for k, b := range before {
			c.Count("bitmaps_checked_unchanged", 1)
			if !bytes.Equal(b, after[k]) {
				var ev []string
				for _, pe := range exprs {
					ev = append(ev, pe.src)
				}
				c.Violation("C15a/shared-index-mutated", fmt.Sprintf("bitmap of key %q changed while evaluating %q over the shared index", k, ev), describe(main, a))
				return
			}
		}

		for ei, pe := range exprs {
			nm := len(results[ei].oracle)
			if nm > 0 && nm < a.n && pe.tree.kind != kKey {
				if pe.tree.count(kAnd)+pe.tree.count(kOr) > 0 {
					nontrivial[ei] = true
					c.Count("nontrivial_expr_assignment_pairs", 1)
				}
			}
			switch {
			case nm == 0:
				c.Count("selects_none", 1)
			case nm == a.n:
				c.Count("selects_all", 1)
			default:
				c.Count("selects_proper_subset", 1)
			}
		}
		if ai == 0 && c.WantSample() {
			c.Sample(describe(main, a))
		}
	}
	for ei := range nontrivial {
		c.Nontrivial(exprs[ei].src)
	}
}

// decide re-states pipeline/exec.skipFromIndex with the exported methods.
func decide(bi *index.BlockIndex, blk uint64, keys []byte) bool {
	if bi.Precomputed() {
		return bi.Skip(blk)
	}
	return bi.SkipFromKeys(keys)
}

func describe(pe *parsedExpr, a *assignment) map[string]any {
	out := map[string]any{"segment_start": a.b0, "segment_blocks": a.n}
	if pe != nil {
		out["expression"] = pe.src
	}
	blocks := map[string][]string{}
	for i := 0; i < a.n; i++ {
		if a.hasOut[i] {
			ks := a.blockKey[i]
			if ks == nil {
				ks = []string{}
			}
			blocks[fmt.Sprint(a.b0+uint64(i))] = ks
		}
	}
	out["keys_per_block"] = blocks
	return out
}

// newBlockIndex calls index.NewBlockIndex through reflection, so that the harness still builds when a change to the
// repository adds trailing parameters to that constructor (they are passed their zero value: "module starts at block 0").
func newBlockIndex(expr sqe.Expression, module string, bm *roaring64.Bitmap) *index.BlockIndex {
	f := reflect.ValueOf(index.NewBlockIndex)
	t := f.Type()
	args := []reflect.Value{reflect.ValueOf(expr), reflect.ValueOf(module), reflect.ValueOf(bm)}
	if expr == nil {
		args[0] = reflect.Zero(t.In(0))
	}
	for i := len(args); i < t.NumIn(); i++ {
		args = append(args, reflect.Zero(t.In(i)))
	}
	return f.Call(args)[0].Interface().(*index.BlockIndex)
}
