package c15a

import (
	"math/rand"
	"strings"
)

// The harness' own expression tree. It is produced top-down from the grammar
//
//	or    := and ( '||' and )*
//	and   := unary ( ('&&' | <juxtaposition>) unary )*
//	unary := key | '(' or ')'
//	key   := bare | '…' | "…"
//
// so its shape is known by construction and its meaning is the documented one
// (sqe/parser_test.go "precedence_*": `a b || c` = [<a && b> || c],
// `a || b c` = [a || <b && c>], i.e. and binds tighter than or).
type nodeKind int

const (
	kKey nodeKind = iota
	kAnd
	kOr
	kParen
)

type node struct {
	kind     nodeKind
	children []*node // and / or: >= 2 ; paren: 1
	key      string  // kKey
	quote    byte    // kKey: 0 (bare), '\'' or '"'
	implicit []bool  // kAnd: implicit[i] tells whether the separator before children[i+1] is juxtaposition
}

// eval is the harness' own evaluator (the independent oracle).
func (n *node) eval(keys map[string]bool) bool {
	switch n.kind {
	case kKey:
		return keys[n.key]
	case kParen:
		return n.children[0].eval(keys)
	case kAnd:
		for _, ch := range n.children {
			if !ch.eval(keys) {
				return false
			}
		}
		return true
	case kOr:
		for _, ch := range n.children {
			if ch.eval(keys) {
				return true
			}
		}
		return false
	}
	panic("bad node")
}

func (n *node) collectKeys(into map[string]bool) {
	if n.kind == kKey {
		into[n.key] = true
		return
	}
	for _, ch := range n.children {
		ch.collectKeys(into)
	}
}

func (n *node) count(k nodeKind) int {
	c := 0
	if n.kind == k {
		c = 1
	}
	for _, ch := range n.children {
		c += ch.count(k)
	}
	return c
}

func (n *node) depth() int {
	d := 0
	for _, ch := range n.children {
		if x := ch.depth(); x > d {
			d = x
		}
	}
	return d + 1
}

// shape renders the structure with keys abstracted (for the variety counter).
func (n *node) shape(b *strings.Builder) {
	switch n.kind {
	case kKey:
		switch n.quote {
		case 0:
			b.WriteByte('k')
		case '\'':
			b.WriteByte('s')
		default:
			b.WriteByte('d')
		}
	case kParen:
		b.WriteByte('(')
		n.children[0].shape(b)
		b.WriteByte(')')
	case kAnd:
		b.WriteByte('<')
		for i, ch := range n.children {
			if i > 0 {
				if n.implicit[i-1] {
					b.WriteByte(' ')
				} else {
					b.WriteByte('&')
				}
			}
			ch.shape(b)
		}
		b.WriteByte('>')
	case kOr:
		b.WriteByte('[')
		for i, ch := range n.children {
			if i > 0 {
				b.WriteByte('|')
			}
			ch.shape(b)
		}
		b.WriteByte(']')
	}
}

// ---------------------------------------------------------------- keys

type keyDef struct {
	s      string
	bareOK bool
}

var bareWords = []string{"a", "b", "c", "d", "x", "transfer", "issue", "from", "to", "eos", "matant", "one", "two", "NOT", "AND", "OR", "and", "or", "not"}

// words that other query languages treat as operators: only ever written quoted here, where
// parser_test documents them as literal text, so that the oracle does not depend on an undocumented choice.
var wordOperator = map[string]bool{"and": true, "or": true, "not": true}

// characters the lexer's Name class allows besides letters (anything but whitespace, quotes, parentheses;
// '-' not in first position). '&' and '|' are deliberately left out of bare keys: whether `a||b` is one key
// or an expression is a lexer quirk no documentation settles.
const bareExtra = ":_-.0123456789/=*!@#$%+,<>?[]{}~^;\\"

var unicodeBits = []string{"é", "ß", "日本", "ключ", "🔑", "ñ"}

func bareValid(s string) bool {
	if s == "" {
		return false
	}
	if s[0] == '-' {
		return false
	}
	for _, r := range s {
		switch r {
		case ' ', '\t', '\n', '\r', '\f', '\v', '\'', '"', '(', ')', '&', '|', 0x85, 0xA0:
			return false
		}
	}
	return true
}

func genBareKey(r *rand.Rand) string {
	switch r.Intn(10) {
	case 0, 1, 2:
		return bareWords[r.Intn(len(bareWords))]
	case 3:
		// typed key such as type:transfer, evt_addr:0xdeadbeef
		return bareWords[r.Intn(len(bareWords))] + ":" + genHexish(r)
	case 4:
		return bareWords[r.Intn(len(bareWords))] + string(bareExtra[r.Intn(len(bareExtra))]) + bareWords[r.Intn(len(bareWords))]
	case 5:
		return unicodeBits[r.Intn(len(unicodeBits))] + bareWords[r.Intn(len(bareWords))]
	case 6:
		// digits only / starting with a digit
		n := 1 + r.Intn(6)
		var b strings.Builder
		for i := 0; i < n; i++ {
			b.WriteByte(byte('0' + r.Intn(10)))
		}
		return b.String()
	default:
		// random mix from the allowed class
		n := 1 + r.Intn(12)
		var b strings.Builder
		for i := 0; i < n; i++ {
			if r.Intn(3) == 0 {
				ch := bareExtra[r.Intn(len(bareExtra))]
				if i == 0 && ch == '-' {
					ch = '_'
				}
				b.WriteByte(ch)
			} else {
				b.WriteByte(byte('a' + r.Intn(26)))
			}
		}
		return b.String()
	}
}

func genHexish(r *rand.Rand) string {
	const hx = "0123456789abcdef"
	n := 1 + r.Intn(10)
	var b strings.Builder
	if r.Intn(2) == 0 {
		b.WriteString("0x")
	}
	for i := 0; i < n; i++ {
		b.WriteByte(hx[r.Intn(16)])
	}
	return b.String()
}

// keys that can only be written quoted (see parser_test "double_quoted_string": `"test || value AND other   	( 10 )!"`).
var quotedOnlyBits = []string{" ", "  ", "\t", "||", "&&", "(", ")", "-", " || ", " && ", "( 10 )!", " AND "}

func genQuotedOnlyKey(r *rand.Rand) string {
	for {
		n := 1 + r.Intn(4)
		var b strings.Builder
		for i := 0; i < n; i++ {
			if r.Intn(2) == 0 {
				b.WriteString(quotedOnlyBits[r.Intn(len(quotedOnlyBits))])
			} else {
				b.WriteString(genBareKey(r))
			}
		}
		s := b.String()
		if !bareValid(s) {
			return s
		}
		if r.Intn(2) == 0 {
			return "-" + s // leading minus: only expressible inside quotes
		}
	}
}

// genUniverse returns n distinct keys.
func genUniverse(r *rand.Rand, n int) []keyDef {
	seen := map[string]bool{}
	var out []keyDef
	for len(out) < n {
		var s string
		if r.Intn(5) == 0 {
			s = genQuotedOnlyKey(r)
		} else {
			s = genBareKey(r)
		}
		if seen[s] {
			continue
		}
		seen[s] = true
		out = append(out, keyDef{s: s, bareOK: bareValid(s) && !wordOperator[strings.ToLower(s)]})
	}
	return out
}

// ---------------------------------------------------------------- expressions

type exprGen struct {
	r        *rand.Rand
	universe []keyDef
	budget   int // remaining key terms
	maxFan   int
}

func (g *exprGen) key() *node {
	g.budget--
	k := g.universe[g.r.Intn(len(g.universe))]
	n := &node{kind: kKey, key: k.s}
	if !k.bareOK || g.r.Intn(4) == 0 {
		if g.r.Intn(2) == 0 {
			n.quote = '\''
		} else {
			n.quote = '"'
		}
	}
	return n
}

func (g *exprGen) fan() int {
	switch x := g.r.Intn(10); {
	case x < 4:
		return 1
	case x < 7:
		return 2
	case x < 9:
		return 3
	default:
		return 2 + g.r.Intn(g.maxFan)
	}
}

func (g *exprGen) or(depth int) *node {
	n := g.fan()
	if n == 1 || g.budget <= 1 {
		return g.and(depth)
	}
	out := &node{kind: kOr}
	for i := 0; i < n && (g.budget > 0 || i < 2); i++ {
		out.children = append(out.children, g.and(depth))
	}
	return out
}

func (g *exprGen) and(depth int) *node {
	n := g.fan()
	if n == 1 || g.budget <= 1 {
		return g.unary(depth)
	}
	out := &node{kind: kAnd}
	for i := 0; i < n && (g.budget > 0 || i < 2); i++ {
		out.children = append(out.children, g.unary(depth))
		if i > 0 {
			out.implicit = append(out.implicit, g.r.Intn(2) == 0)
		}
	}
	return out
}

func (g *exprGen) unary(depth int) *node {
	if depth > 0 && g.budget > 0 && g.r.Intn(10) < 3 {
		return &node{kind: kParen, children: []*node{g.or(depth - 1)}}
	}
	return g.key()
}

// genExpr draws one expression tree. flavour selects a few special shapes.
func genExpr(r *rand.Rand, universe []keyDef) *node {
	g := &exprGen{r: r, universe: universe, budget: 2 + r.Intn(8), maxFan: 5}
	if r.Intn(5) < 2 {
		g.budget = 8 + r.Intn(36)
	}
	switch r.Intn(20) {
	case 0: // single term
		return g.key()
	case 1: // deep parenthesis nest around something
		inner := g.or(1)
		d := 1 + r.Intn(30)
		for i := 0; i < d; i++ {
			inner = &node{kind: kParen, children: []*node{inner}}
		}
		return inner
	case 2: // long or chain (the parser recurses once per '||')
		g.budget = 400
		n := 20 + r.Intn(200)
		out := &node{kind: kOr}
		for i := 0; i < n; i++ {
			if r.Intn(6) == 0 {
				out.children = append(out.children, g.and(0))
			} else {
				out.children = append(out.children, g.key())
			}
		}
		return out
	case 3: // long and chain
		g.budget = 400
		n := 10 + r.Intn(100)
		out := &node{kind: kAnd}
		for i := 0; i < n; i++ {
			out.children = append(out.children, g.unary(1))
			if i > 0 {
				out.implicit = append(out.implicit, r.Intn(2) == 0)
			}
		}
		return out
	case 4, 5: // unparenthesized alternation of and/or: a b || c d || e && f
		g.budget = 60
		n := 2 + r.Intn(5)
		out := &node{kind: kOr}
		for i := 0; i < n; i++ {
			m := 1 + r.Intn(4)
			if m == 1 {
				out.children = append(out.children, g.key())
				continue
			}
			a := &node{kind: kAnd}
			for j := 0; j < m; j++ {
				a.children = append(a.children, g.key())
				if j > 0 {
					a.implicit = append(a.implicit, r.Intn(2) == 0)
				}
			}
			out.children = append(out.children, a)
		}
		return out
	}
	return g.or(1 + r.Intn(4))
}

// ---------------------------------------------------------------- rendering

type tokKind int

const (
	tBare tokKind = iota
	tQuoted
	tLParen
	tRParen
	tOp
)

type tok struct {
	kind tokKind
	text string
}

func (n *node) tokens(out *[]tok) {
	switch n.kind {
	case kKey:
		if n.quote == 0 {
			*out = append(*out, tok{tBare, n.key})
		} else {
			q := string(n.quote)
			*out = append(*out, tok{tQuoted, q + n.key + q})
		}
	case kParen:
		*out = append(*out, tok{tLParen, "("})
		n.children[0].tokens(out)
		*out = append(*out, tok{tRParen, ")"})
	case kAnd:
		for i, ch := range n.children {
			if i > 0 && !n.implicit[i-1] {
				*out = append(*out, tok{tOp, "&&"})
			}
			ch.tokens(out)
		}
	case kOr:
		for i, ch := range n.children {
			if i > 0 {
				*out = append(*out, tok{tOp, "||"})
			}
			ch.tokens(out)
		}
	}
}

var spaces = []string{" ", " ", " ", "  ", "\t", "\n", " \t ", "   ", "\n  "}

// render writes the tree as an expression string with PRNG-chosen layout:
// whitespace is only forced where the lexer needs it to separate tokens
// (after a bare key when a bare key or an operator follows).
func (n *node) render(r *rand.Rand) string {
	var toks []tok
	n.tokens(&toks)
	tight := r.Intn(3) == 0 // as few blanks as possible
	var b strings.Builder
	if r.Intn(6) == 0 {
		b.WriteString(spaces[r.Intn(len(spaces))])
	}
	for i, t := range toks {
		if i > 0 {
			p := toks[i-1]
			need := p.kind == tBare && (t.kind == tBare || t.kind == tOp)
			switch {
			case need:
				b.WriteString(spaces[r.Intn(len(spaces))])
			case tight:
			case r.Intn(3) != 0:
				b.WriteString(spaces[r.Intn(len(spaces))])
			}
		}
		b.WriteString(t.text)
	}
	if r.Intn(6) == 0 {
		b.WriteString(spaces[r.Intn(len(spaces))])
	}
	return b.String()
}
