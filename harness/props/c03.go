package props

import (
	"bytes"
	"context"
	"fmt"
	"io"
	"strings"

	"github.com/streamingfast/bstream"
	"github.com/streamingfast/bstream/forkable"
	pbbstream "github.com/streamingfast/bstream/pb/sf/bstream/v1"
	pbsubstreamsrpc "github.com/streamingfast/substreams/pb/sf/substreams/rpc/v2"
	pbsubstreams "github.com/streamingfast/substreams/pb/sf/substreams/v1"
	"github.com/streamingfast/substreams/pipeline"
	"github.com/streamingfast/substreams/service"

	"verif/harness/fw"
	"verif/harness/gen"
	"verif/harness/model"
	"verif/harness/sim"
)

// C03: reorgs — undo restores every store; clients converge on the canonical chain.

func init() {
	fw.Register(&fw.Spec{
		ID:    "C03",
		Level: "exploration",
		Rule: "case = one generated package (stores of every policy incl. delete_prefix, some back-filled by tier2 before the fork zone) x one fork tree of 5..8 heights above a final base block (<=3 siblings per height, 1..4 forks of random length from random fork points, flip-flop prone because branches overtake each other, monotone LIB per branch) x a PRNG arrival order (linear extension of parent-before-child with occasional child-before-parent), " +
			"turned into new/undo/stalled/final steps by the real bstream forkable.Forkable and fed to a development-mode tier1 request. Monitors: after EVERY step the harness holds the stack of applied block ids; typed content of every store must equal a fresh REF-LINEAR run over exactly that chain and SizeBytes() must equal the store's own content size; " +
			"client model over the response stream: keeps data messages, drops blocks above last_valid_block on an undo signal; every undo designates a held block (or the one before the first), its cursor decodes to it, no two blocks at one height without an undo in between, and at the end the client holds exactly the reference outputs of the canonical chain. " +
			"reconnection: for up to two data messages whose block was forked out later, a new request carries that block's cursor (cursor resolver = the tree, hook H9; linear feed = the canonical chain): the first message after the session must be one undo signal designating the junction with the canonical chain (cursor included), the resolved start is junction+1, and the client - holding what it held at that message - must again end with exactly the reference outputs of the canonical chain; each candidate is reconnected twice: \"soon\" (same finality: everything after the junction is linear) and \"late\" (production mode, canonical chain extended by 2..3 segments and final far beyond the junction: the blocks after the junction are back-filled by segment jobs fed with the canonical tree blocks, then the stream goes on linearly). " +
			"non-trivial = history with at least one undo of a block whose deltas contain a delete, a create or a size-changing update; counted separately: same block undone twice",
		Assumptions: []string{
			"the step sequence is whatever the real forkable emits for the generated arrival order (filters = all steps)",
			"REF-LINEAR per chain shares the executors with the system under test; typed values are compared",
		},
		Cases: func(tier, mode string) int {
			if mode == "race" {
				return 200
			}
			if tier == "thorough" {
				return 40000
			}
			return 300
		},
		Modes: func(tier string) []string {
			if tier == "thorough" {
				return []string{"plain", "race"}
			}
			return []string{"plain"}
		},
		CaseTimeout:   180e9,
		MinNontrivial: 30,
		Run:           runC03,
	})
}

type c03Obs struct {
	applied   []string // block ids applied by the linear pipeline, in order
	steps     []string
	anomalies []string
}

func runC03(c *fw.Case) { runForkHistory(c, "C03") }

// runForkHistory drives one fork history through the real forkable and a tier1 request. For prop "C03" every monitor
// decides; for prop "C11" only the size-accounting monitors decide (SizeBytes() vs content after every step, spurious
// "became too big" failures) and anything else is counted as an observation that belongs to C03.
func runForkHistory(c *fw.Case, prop string) {
	viol := func(sig, msg string, w map[string]any) bool {
		if prop == "C03" {
			c.Violation("C03/"+sig, msg, w)
			return true
		}
		if strings.HasPrefix(sig, "store-size/") || (strings.HasPrefix(sig, "request-failed/") && strings.Contains(msg, "too big")) {
			c.Violation(prop+"/pipeline/"+sig, msg, w)
			return true
		}
		c.Count("anomalies_of_other_properties_observed", 1)
		c.Logf("OBSERVED (not decided by %s) %s: %s", prop, sig, msg)
		return false
	}
	s := newScen(c, gen.PkgOpts{MaxMods: 7, NoIndex: c.R.Intn(2) == 0, ForceDelete: c.R.Intn(2) == 0})
	defer s.close()
	outs := s.outputs()
	if c.Violated() || len(outs) == 0 {
		c.Count("packages_without_visible_output", 1)
		return
	}
	out := outs[c.R.Intn(len(outs))]
	init := s.pkg.Init[out]
	// base: a final block at or above the output's initial block, somewhere in the 2nd..3rd segment
	base := s.seg + uint64(c.R.Intn(int(2*s.seg)))
	if base < init+1 {
		base = init + 1
	}
	H := 5 + c.R.Intn(4)
	start := init + uint64(c.R.Intn(int(base-init)+1))
	if prop == "C03" && c.R.Intn(4) == 0 { // the request starts INSIDE the fork zone: reorgs may reach below its start block
		start = base + 1 + uint64(c.R.Intn(H-1))
		c.Count("histories_starting_inside_the_fork_zone", 1)
	}
	stop := base + uint64(H) + 1
	tree := sim.GenForkTree(c.R, base, H)
	s.cl.Head = base
	obs := &c03Obs{}
	refMemo := map[string]*sim.RefChainResult{}
	refFor := func(topNum uint64, topID string) (*sim.RefChainResult, error) {
		key := fmt.Sprintf("%d/%s", topNum, topID)
		if r, ok := refMemo[key]; ok {
			return r, nil
		}
		var r *sim.RefChainResult
		var err error
		if topNum <= base {
			r, err = sim.RunRefChain(s.pkg.Modules, out, s.seg, topNum, nil)
		} else {
			var suffix []sim.ChainBlock
			for _, id := range tree.Path(topID) {
				n := tree.Node(id)
				suffix = append(suffix, sim.ChainBlock{Num: n.Num, ID: n.ID, Parent: n.Parent})
			}
			r, err = sim.RunRefChain(s.pkg.Modules, out, s.seg, base, suffix)
		}
		if err == nil {
			refMemo[key] = r
		}
		return r, err
	}
	wit := func(extra map[string]any) map[string]any {
		w := s.witness(map[string]any{"output": out, "start": start, "stop": stop, "fork_tree": tree, "steps_seen": obs.steps})
		for k, v := range extra {
			w[k] = v
		}
		return w
	}
	pairOf := func(name string) model.Pair {
		pr := s.pkg.Progs[name]
		return model.Pair{Policy: pr.Policy, VT: pr.VT}
	}
	storeViolated := false
	checkStores := func(pipe *pipeline.Pipeline, topNum uint64, topID string, after string) {
		if storeViolated {
			return
		}
		ref, err := refFor(topNum, topID)
		if err != nil {
			viol("ref-failed/"+fw.NormalizeMsg(err.Error()), "reference run failed: "+err.Error(), wit(nil))
			storeViolated = true
			return
		}
		for name, st := range pipe.GetStoreMap() {
			snap := sim.StoreSnap{KV: map[string][]byte{}, Size: st.SizeBytes()}
			var real uint64
			st.Iter(func(k string, v []byte) error {
				snap.KV[k] = v
				real += uint64(len(k) + len(v))
				return nil
			})
			c.Count("store_states_compared", 1)
			pair := pairOf(name)
			got, err := sim.TypedStore(pair, snap)
			if err != nil {
				if viol("store-untyped", fmt.Sprintf("after %s: store %s: %v", after, name, err), wit(nil)) {
					storeViolated = true
					return
				}
				continue
			}
			want, _ := sim.TypedStore(pair, ref.Stores[name])
			if d := sim.DiffTyped(got, want); d != "" {
				kind := "after-new"
				if strings.HasPrefix(after, "undo") {
					kind = "after-undo"
				}
				if viol("store-content/"+kind, fmt.Sprintf("after %s (applied chain ends at %d %s): store %s (%s) differs from a fork-free execution of that chain (got vs reference): %s", after, topNum, topID, name, pair, d), wit(nil)) {
					storeViolated = true
					return
				}
			}
			if real != snap.Size {
				kind := "after-new"
				if strings.HasPrefix(after, "undo") {
					kind = "after-undo"
				}
				viol("store-size/"+kind, fmt.Sprintf("after %s: store %s reports SizeBytes()=%d but its content totals %d", after, name, snap.Size, real), wit(nil))
				storeViolated = true
				return
			}
		}
	}

	feed := func(ctx context.Context, h bstream.Handler, from, stopNum uint64, cursor string) error {
		var pipe *pipeline.Pipeline
		switch hh := h.(type) {
		case *pipeline.Pipeline:
			pipe = hh
		case *service.LiveBackFiller: // production mode: the pipeline sits behind the live back-filler
			pipe, _ = hh.NextHandler.(*pipeline.Pipeline)
		}
		if pipe == nil {
			return fmt.Errorf("harness: unexpected handler %T", h)
		}
		top := func() (uint64, string) {
			if len(obs.applied) == 0 {
				if from == 0 {
					return 0, ""
				}
				return from - 1, sim.BlockID(from - 1)
			}
			id := obs.applied[len(obs.applied)-1]
			if n := tree.Node(id); n != nil {
				return n.Num, id
			}
			var num uint64
			fmt.Sscanf(id, "b%d", &num)
			return num, id
		}
		wrap := bstream.HandlerFunc(func(blk *pbbstream.Block, obj interface{}) error {
			step := obj.(bstream.Stepable).Step()
			err := h.ProcessBlock(blk, obj)
			if err != nil && err != io.EOF {
				return err
			}
			obs.steps = append(obs.steps, fmt.Sprintf("%s %s", step, blk.Id))
			after := ""
			switch {
			case step.Matches(bstream.StepNew):
				if err == io.EOF {
					return err // the stop block is not executed
				}
				obs.applied = append(obs.applied, blk.Id)
				after = "new " + blk.Id
			case step.Matches(bstream.StepUndo):
				if len(obs.applied) == 0 || obs.applied[len(obs.applied)-1] != blk.Id {
					obs.anomalies = append(obs.anomalies, fmt.Sprintf("undo of %s while top of applied stack is %v", blk.Id, obs.applied))
				} else {
					obs.applied = obs.applied[:len(obs.applied)-1]
				}
				after = "undo " + blk.Id
			default:
				after = step.String() + " " + blk.Id
			}
			n, id := top()
			checkStores(pipe, n, id, after)
			return err
		})
		for n := from; n <= base; n++ {
			if err := ctx.Err(); err != nil {
				return err
			}
			parent := ""
			if n > 0 {
				parent = sim.BlockID(n - 1)
			}
			ref := bstream.NewBlockRef(sim.BlockID(n), n)
			obj := &sim.Obj{Cur: &bstream.Cursor{Step: bstream.StepNewIrreversible, Block: ref, LIB: ref, HeadBlock: ref}, StepType: bstream.StepNewIrreversible}
			if err := wrap.ProcessBlock(sim.MakeBlock(n, sim.BlockID(n), parent, n), obj); err != nil {
				return err
			}
		}
		fk := forkable.New(wrap, forkable.WithExclusiveLIB(bstream.NewBlockRef(sim.BlockID(base), base)), forkable.WithFilters(bstream.StepsAll))
		for _, id := range tree.Arrival {
			if err := ctx.Err(); err != nil {
				return err
			}
			n := tree.Node(id)
			if err := fk.ProcessBlock(sim.MakeBlock(n.Num, n.ID, n.Parent, n.Lib), nil); err != nil {
				return err
			}
		}
		// the terminator did not become the head (forked out below LIB, unlinkable...): extend the applied chain
		for i := 0; i < H+4; i++ {
			n, id := top()
			ext := tree.Extend(id, n, base)
			if err := fk.ProcessBlock(sim.MakeBlock(ext.Num, ext.ID, ext.Parent, ext.Lib), nil); err != nil {
				return err
			}
		}
		return fmt.Errorf("harness: fork tree exhausted before the stop block")
	}

	prodMode := c.R.Intn(4) == 0
	if prodMode { // requests of the recorded known-finding shape (C05/stage-index-shift) never end: use development mode for those
		probe := sim.RequestSpec{Modules: s.pkg.Modules, Output: out, Prod: true, Start: int64(start), Stop: stop, Final: base}
		if pl, err := s.cl.PlanFor(probe); err != nil || pl.KnownHangShape() {
			prodMode = false
		}
	}
	spec := sim.RequestSpec{Modules: s.pkg.Modules, Output: out, Prod: prodMode, Start: int64(start), Stop: stop, Final: base, Workers: 1 + c.R.Intn(3), OrderSeed: 1 + c.R.Int63n(1<<40), LinearFeed: feed}
	res := s.cl.Run(spec)
	c.Count("histories", 1)
	if prodMode {
		c.Count("histories_in_production_mode", 1)
	}
	c.Count("steps", int64(len(obs.steps)))
	if res.Stuck {
		viol("liveness/request-stuck", "request made no progress for 45 s with no job in flight", wit(nil))
		return
	}
	if res.Err != nil {
		if strings.Contains(res.Err.Error(), "harness:") {
			c.Inconclusive("harness feed: " + res.Err.Error())
			return
		}
		viol("request-failed/"+fw.NormalizeMsg(res.Err.Error()), "request failed: "+res.Err.Error(), wit(nil))
		return
	}
	if c.Violated() {
		return
	}
	for _, a := range obs.anomalies {
		viol("steps/undo-not-top-of-chain", "the fork resolver emitted "+a, wit(nil))
		return
	}

	// ---- client model over the response stream
	type held struct {
		num     uint64
		id      string
		payload []byte
	}
	var client []held
	var belowStartUndo *pbsubstreams.BlockRef
	deltasOf := map[string][]*pbsubstreamsrpc.StoreDelta{}
	undoCount := map[string]int{}
	undos := 0
	sess := res.Session()
	if c.Replay {
		for _, r := range res.Responses {
			switch m := r.Message.(type) {
			case *pbsubstreamsrpc.Response_BlockScopedData:
				c.Logf("  resp data %d %s", m.BlockScopedData.Clock.Number, m.BlockScopedData.Clock.Id)
			case *pbsubstreamsrpc.Response_BlockUndoSignal:
				c.Logf("  resp UNDO last_valid=%d %s", m.BlockUndoSignal.LastValidBlock.Number, m.BlockUndoSignal.LastValidBlock.Id)
			case *pbsubstreamsrpc.Response_Progress:
			default:
				c.Logf("  resp %T", r.Message)
			}
		}
	}
	for _, r := range res.Responses {
		switch m := r.Message.(type) {
		case *pbsubstreamsrpc.Response_BlockScopedData:
			d := m.BlockScopedData
			var payload []byte
			if d.Output != nil && d.Output.MapOutput != nil {
				payload = d.Output.MapOutput.Value
			}
			if belowStartUndo != nil {
				if d.Clock.Number == belowStartUndo.Number+1 && d.Clock.Number < start {
					// recorded known finding: the junction is neither held by the client nor the block before its first, and
					// the blocks between the junction and the start block are then delivered although they are below the start block
					viol("client/reorg-below-start-block/blocks-below-start-delivered", fmt.Sprintf("request starting at block %d: a reorg reached below it; the undo signal designates block %d %s (not held by the client, nor the block before its first) and block %d %s, below the start block, was then delivered", start, belowStartUndo.Number, belowStartUndo.Id, d.Clock.Number, d.Clock.Id), wit(nil))
					return
				}
				viol("client/undo-designates-unknown-block", fmt.Sprintf("undo signal with last valid block %d %s which the client does not hold, and the stream then goes on with block %d %s: the client cannot link it to anything it holds (client holds %v)", belowStartUndo.Number, belowStartUndo.Id, d.Clock.Number, d.Clock.Id, heldIDs(client, func(h held) string { return h.id })), wit(nil))
				return
			}
			for _, h := range client {
				if h.num >= d.Clock.Number {
					viol("client/two-blocks-at-height-without-undo", fmt.Sprintf("data message for block %d %s while the client still holds block %d %s", d.Clock.Number, d.Clock.Id, h.num, h.id), wit(nil))
					return
				}
			}
			client = append(client, held{d.Clock.Number, d.Clock.Id, payload})
			var all []*pbsubstreamsrpc.StoreDelta
			for _, so := range d.DebugStoreOutputs {
				all = append(all, so.DebugStoreDeltas...)
			}
			deltasOf[d.Clock.Id] = all
			cur, err := bstream.CursorFromOpaque(d.Cursor)
			if err != nil || cur.Block.ID() != d.Clock.Id || cur.Block.Num() != d.Clock.Number {
				viol("client/cursor-wrong-block", fmt.Sprintf("block %d %s carries cursor %v (%v)", d.Clock.Number, d.Clock.Id, cur, err), wit(nil))
				return
			}
		case *pbsubstreamsrpc.Response_BlockUndoSignal:
			u := m.BlockUndoSignal
			undos++
			lv := u.LastValidBlock
			ok := false
			for _, h := range client {
				if h.num == lv.Number && h.id == lv.Id {
					ok = true
				}
			}
			if !ok {
				first := sess.ResolvedStartBlock
				if len(client) > 0 {
					first = client[0].num
				}
				if lv.Number+1 == first {
					ok = true
				}
			}
			if !ok && lv.Number+1 < start {
				// a reorg reaching below the request's start block: decided by what is delivered next (see the data case)
				belowStartUndo = lv
				ok = true
			}
			if !ok {
				viol("client/undo-designates-unknown-block", fmt.Sprintf("undo signal with last valid block %d %s which the client does not hold (client holds %v)", lv.Number, lv.Id, heldIDs(client, func(h held) string { return h.id })), wit(nil))
				return
			}
			cur, err := bstream.CursorFromOpaque(u.LastValidCursor)
			if err != nil || cur.Block.ID() != lv.Id || cur.Block.Num() != lv.Number {
				viol("client/undo-cursor-wrong-block", fmt.Sprintf("undo signal for last valid block %d %s carries cursor %v (%v)", lv.Number, lv.Id, cur, err), wit(nil))
				return
			}
			kept := client[:0:0]
			for _, h := range client {
				if h.num <= lv.Number {
					kept = append(kept, h)
				} else {
					undoCount[h.id]++
				}
			}
			client = kept
		}
	}
	// expected: reference outputs over the final canonical chain
	finalTop := ""
	if len(obs.applied) > 0 {
		finalTop = obs.applied[len(obs.applied)-1]
	}
	var topNum uint64 = base
	if n := tree.Node(finalTop); n != nil {
		topNum = n.Num
	}
	ref, err := refFor(topNum, finalTop)
	if err != nil {
		viol("ref-failed/"+fw.NormalizeMsg(err.Error()), "reference run failed: "+err.Error(), wit(nil))
		return
	}
	var chain []string
	for n := start; n <= base; n++ {
		chain = append(chain, sim.BlockID(n))
	}
	for _, id := range tree.Path(finalTop) {
		if tree.Node(id).Num >= start {
			chain = append(chain, id)
		}
	}
	// in production mode a back-filled block (below the hand-off) whose reference output is empty may be omitted (C01 rule)
	ci := 0
	for _, id := range chain {
		var num uint64
		if n := tree.Node(id); n != nil {
			num = n.Num
		} else {
			fmt.Sscanf(id, "b%d", &num)
		}
		if ci < len(client) && client[ci].id == id {
			if !bytes.Equal(client[ci].payload, ref.Payload[id]) {
				viol("client/final-chain-differs", fmt.Sprintf("client holds %s with payload %q, the canonical chain's reference payload is %q", id, client[ci].payload, ref.Payload[id]), wit(nil))
				return
			}
			ci++
			continue
		}
		if prodMode && sess != nil && num < sess.LinearHandoffBlock && len(ref.Payload[id]) == 0 {
			continue
		}
		viol("client/final-chain-differs", fmt.Sprintf("client ends with blocks %v, canonical chain is %v: block %s is missing or out of place", heldIDs(client, func(h held) string { return h.id }), chain, id), wit(nil))
		return
	}
	if ci != len(client) {
		viol("client/final-chain-differs", fmt.Sprintf("client ends with blocks %v which are not all on the canonical chain %v", heldIDs(client, func(h held) string { return h.id }), chain), wit(nil))
		return
	}
	c.Count("client_blocks_compared", int64(len(chain)))
	c.Count("undo_signals", int64(undos))
	// non-triviality
	nt, twice := false, false
	for id, n := range undoCount {
		if n >= 2 {
			twice = true
		}
		for _, d := range deltasOf[id] {
			if d.Operation == pbsubstreamsrpc.StoreDelta_DELETE || d.Operation == pbsubstreamsrpc.StoreDelta_CREATE || len(d.OldValue) != len(d.NewValue) {
				nt = true
			}
			if d.Operation == pbsubstreamsrpc.StoreDelta_DELETE {
				c.Count("undone_delete_deltas", 1)
			}
		}
	}
	c.Count("blocks_undone", int64(len(undoCount)))
	if twice {
		c.Count("histories_with_same_block_undone_twice", 1)
	}
	if len(res.Jobs) > 0 {
		c.Count("histories_with_backfilled_stores", 1)
	}
	if nt {
		c.Nontrivial(fmt.Sprintf("%v|%v|%d", s.pkg.Describe(), tree.Arrival, start))
	}

	// ---- reconnection: a client that disconnected while holding a block that was forked out afterwards comes back with that
	// block's cursor. The server must answer with ONE undo signal for the junction with the canonical chain, before any data,
	// restart right after it, and the client must again end with exactly the reference outputs of the canonical chain.
	// Variant "soon": same finality as before (the restart point is not final: everything is linear).
	// Variant "late" (production mode): the chain has become final far beyond the junction, so the blocks after the junction
	// are first back-filled from segment jobs / cached outputs and the stream then goes on linearly.
	if prop == "C03" {
		canonical := map[string]bool{}
		for n := uint64(0); n <= base; n++ {
			canonical[sim.BlockID(n)] = true
		}
		canonPath := tree.Path(finalTop)
		for _, id := range canonPath {
			canonical[id] = true
		}
		extendTo := func(num uint64) { // make the canonical chain reach height num
			for base+uint64(len(canonPath)) < num {
				lastID, lastNum := sim.BlockID(base), base
				if len(canonPath) > 0 {
					lastID = canonPath[len(canonPath)-1]
					lastNum = tree.Node(lastID).Num
				}
				nd := tree.Extend(lastID, lastNum, base)
				canonPath = append(canonPath, nd.ID)
				canonical[nd.ID] = true
			}
		}
		canonAt := func(n uint64) (id, parent string) {
			if n <= base {
				if n > 0 {
					parent = sim.BlockID(n - 1)
				}
				return sim.BlockID(n), parent
			}
			extendTo(n)
			nd := tree.Node(canonPath[n-base-1])
			return nd.ID, nd.Parent
		}
		// feedCanon feeds the canonical chain from `from`: blocks up to finalAt as new+irreversible, later ones as new
		feedCanon := func(finalAt uint64, limit uint64) func(ctx context.Context, h bstream.Handler, from, stopNum uint64, cursor string) error {
			return func(ctx context.Context, h bstream.Handler, from, stopNum uint64, cursor string) error {
				for n := from; n <= limit; n++ {
					if err := ctx.Err(); err != nil {
						return err
					}
					id, parent := canonAt(n)
					ref := bstream.NewBlockRef(id, n)
					var obj *sim.Obj
					lib := n
					if n <= finalAt {
						obj = &sim.Obj{Cur: &bstream.Cursor{Step: bstream.StepNewIrreversible, Block: ref, LIB: ref, HeadBlock: ref}, StepType: bstream.StepNewIrreversible}
					} else {
						lib = finalAt
						lid, _ := canonAt(finalAt)
						obj = &sim.Obj{Cur: &bstream.Cursor{Step: bstream.StepNew, Block: ref, LIB: bstream.NewBlockRef(lid, finalAt), HeadBlock: ref}, StepType: bstream.StepNew}
					}
					if err := h.ProcessBlock(sim.MakeBlock(n, id, parent, lib), obj); err != nil {
						return err
					}
				}
				return fmt.Errorf("harness: canonical chain exhausted before the stop block")
			}
		}
		type cand struct {
			cursor string
			id     string
			num    uint64
			held   []held
		}
		var cands []cand
		var cl2 []held
		for _, r := range res.Responses {
			switch m := r.Message.(type) {
			case *pbsubstreamsrpc.Response_BlockScopedData:
				d := m.BlockScopedData
				var payload []byte
				if d.Output != nil && d.Output.MapOutput != nil {
					payload = d.Output.MapOutput.Value
				}
				cl2 = append(cl2, held{d.Clock.Number, d.Clock.Id, payload})
				if !canonical[d.Clock.Id] {
					cands = append(cands, cand{d.Cursor, d.Clock.Id, d.Clock.Number, append([]held(nil), cl2...)})
				}
			case *pbsubstreamsrpc.Response_BlockUndoSignal:
				kept := cl2[:0:0]
				for _, h := range cl2 {
					if h.num <= m.BlockUndoSignal.LastValidBlock.Number {
						kept = append(kept, h)
					}
				}
				cl2 = kept
			}
		}
		c.R.Shuffle(len(cands), func(i, j int) { cands[i], cands[j] = cands[j], cands[i] })
		if len(cands) > 2 {
			cands = cands[:2]
		}
		origHandoff := uint64(0)
		if sess != nil {
			origHandoff = sess.LinearHandoffBlock
		}
		for _, cd := range cands {
			// junction: deepest ancestor of the forked block on the canonical chain
			jid, jnum := cd.id, cd.num
			for !canonical[jid] {
				n := tree.Node(jid)
				if n == nil {
					break
				}
				jid, jnum = n.Parent, n.Num-1
			}
			if !canonical[jid] {
				continue
			}
			resolver := func(ctx context.Context, cur *bstream.Cursor) (bstream.BlockRef, bstream.BlockRef, error) {
				id, num := cur.Block.ID(), cur.Block.Num()
				for !canonical[id] {
					n := tree.Node(id)
					if n == nil {
						return nil, nil, fmt.Errorf("harness: unknown block %s", id)
					}
					id, num = n.Parent, n.Num-1
				}
				hid, _ := canonAt(base + uint64(len(canonPath)))
				return bstream.NewBlockRef(id, num), bstream.NewBlockRef(hid, base+uint64(len(canonPath))), nil
			}
			// one reconnection; refc = reference over the canonical chain up to stopAt-1
			reconnect := func(label string, rq sim.RequestSpec, stopAt uint64, refc *sim.RefChainResult) bool {
				rr := s.cl.Run(rq)
				c.Count("reconnections_with_forked_cursor", 1)
				c.Count("reconnections_"+label, 1)
				var canonIDs []string
				for n := start; n < stopAt; n++ {
					id, _ := canonAt(n)
					canonIDs = append(canonIDs, id)
				}
				ex := map[string]any{"reconnection": label, "reconnect_request": rq, "reconnect_cursor_block": fmt.Sprintf("%d %s", cd.num, cd.id), "junction": fmt.Sprintf("%d %s", jnum, jid), "canonical_chain": canonIDs, "jobs": rr.Jobs}
				if rr.Stuck {
					viol("reconnect/request-stuck", "request resumed from the cursor of a forked block made no progress for 45 s", wit(ex))
					return false
				}
				if rr.Err != nil {
					if strings.Contains(rr.Err.Error(), "harness:") {
						c.Inconclusive("harness feed: " + rr.Err.Error())
						return false
					}
					viol("reconnect/request-failed/"+fw.NormalizeMsg(rr.Err.Error()), "request resumed from the cursor of a forked block failed: "+rr.Err.Error(), wit(ex))
					return false
				}
				sess2 := rr.Session()
				if sess2 == nil || sess2.ResolvedStartBlock != jnum+1 {
					viol("reconnect/wrong-start", fmt.Sprintf("forked cursor: resolved start %v, expected right after the junction (%d)", sess2, jnum+1), wit(ex))
					return false
				}
				client2 := append([]held(nil), cd.held...)
				sawUndo, sawData := false, false
				for _, r := range rr.Responses {
					switch m := r.Message.(type) {
					case *pbsubstreamsrpc.Response_BlockUndoSignal:
						u := m.BlockUndoSignal
						if sawData || sawUndo {
							after := "a second time"
							if sawData {
								after = fmt.Sprintf("after %d data messages (the client drops every block above the junction again)", len(client2))
							}
							viol("reconnect/undo-signal-out-of-place", "the undo signal for a forked cursor must come once, before any data; it came "+after, wit(ex))
							return false
						}
						sawUndo = true
						cur, err := bstream.CursorFromOpaque(u.LastValidCursor)
						if u.LastValidBlock.Id != jid || u.LastValidBlock.Number != jnum || err != nil || cur.Block.ID() != jid {
							viol("reconnect/undo-wrong-junction", fmt.Sprintf("undo signal designates %d %s (cursor %v), the junction of block %s with the canonical chain is %d %s", u.LastValidBlock.Number, u.LastValidBlock.Id, cur, cd.id, jnum, jid), wit(ex))
							return false
						}
						kept := client2[:0:0]
						for _, h := range client2 {
							if h.num <= jnum {
								kept = append(kept, h)
							}
						}
						client2 = kept
					case *pbsubstreamsrpc.Response_BlockScopedData:
						d := m.BlockScopedData
						if !sawUndo {
							viol("reconnect/no-undo-signal", fmt.Sprintf("data for block %d %s arrived without an undo signal although the cursor's block %s is not on the canonical chain", d.Clock.Number, d.Clock.Id, cd.id), wit(ex))
							return false
						}
						sawData = true
						var payload []byte
						if d.Output != nil && d.Output.MapOutput != nil {
							payload = d.Output.MapOutput.Value
						}
						client2 = append(client2, held{d.Clock.Number, d.Clock.Id, payload})
					}
				}
				// the client must now hold the canonical chain with the reference payloads (back-filled blocks with an empty
				// output may have been omitted in production mode, by the first request or by this one)
				ci := 0
				for k, id := range canonIDs {
					num := start + uint64(k)
					if ci < len(client2) && client2[ci].id == id {
						if !bytes.Equal(client2[ci].payload, refc.Payload[id]) {
							viol("reconnect/final-chain-differs", fmt.Sprintf("after reconnecting the client holds %s with payload %q, the canonical chain's reference payload is %q", id, client2[ci].payload, refc.Payload[id]), wit(ex))
							return false
						}
						ci++
						continue
					}
					omittable := len(refc.Payload[id]) == 0 && ((num <= jnum && prodMode && num < origHandoff) || (num > jnum && rq.Prod && num < sess2.LinearHandoffBlock))
					if omittable {
						continue
					}
					viol("reconnect/final-chain-differs", fmt.Sprintf("after reconnecting the client holds %v, canonical chain is %v: block %s is missing or out of place", heldIDs(client2, func(h held) string { return h.id }), canonIDs, id), wit(ex))
					return false
				}
				if ci != len(client2) {
					viol("reconnect/final-chain-differs", fmt.Sprintf("after reconnecting the client holds %v which are not all on the canonical chain %v", heldIDs(client2, func(h held) string { return h.id }), canonIDs), wit(ex))
					return false
				}
				c.Count("reconnections_converged", 1)
				if len(rr.Jobs) > 0 {
					c.Count("reconnections_with_backfilled_part", 1)
				}
				return true
			}

			// variant "soon"
			rq := spec
			rq.Cursor = cd.cursor
			rq.LinearFeed = feedCanon(base, stop+2)
			rq.CursorResolver = resolver
			rq.OrderSeed = 1 + c.R.Int63n(1<<40)
			if pl, err := s.cl.PlanFor(rq); err == nil && !pl.KnownHangShape() {
				if !reconnect("soon", rq, stop, ref) {
					return
				}
			}
			// variant "late": the chain went on and became final; production mode
			stop2 := stop + 2*s.seg + uint64(c.R.Intn(int(s.seg)+1))
			extendTo(stop2 + 2)
			final2 := stop2 - 1 - uint64(c.R.Intn(int(s.seg)))
			var suffix []sim.ChainBlock
			for n := base + 1; n < stop2; n++ {
				id, parent := canonAt(n)
				suffix = append(suffix, sim.ChainBlock{Num: n, ID: id, Parent: parent})
			}
			ref2, err := sim.RunRefChain(s.pkg.Modules, out, s.seg, base, suffix)
			if err != nil {
				continue
			}
			rq2 := spec
			rq2.Prod = true
			rq2.Stop = stop2
			rq2.Final = final2
			rq2.Cursor = cd.cursor
			rq2.CursorResolver = resolver
			rq2.LinearFeed = feedCanon(final2, stop2+2)
			t2 := feedCanon(stop2+2, stop2+2)
			rq2.Tier2Feed = func(ctx context.Context, h bstream.Handler, from, stopNum uint64) error {
				return t2(ctx, h, from, stopNum, "")
			}
			rq2.OrderSeed = 1 + c.R.Int63n(1<<40)
			pl2, err := s.cl.PlanFor(rq2)
			if err != nil || pl2.KnownHangShape() || !(pl2.Details.ResolvedStartBlockNum < pl2.Details.LinearHandoffBlockNum && pl2.Details.LinearHandoffBlockNum < stop2) {
				c.Count("late_reconnections_not_applicable", 1)
				continue
			}
			if !reconnect("late", rq2, stop2, ref2) {
				return
			}
		}
	}
	if c.WantSample() {
		c.Sample(wit(nil))
	}
}

func heldIDs[T any](xs []T, f func(T) string) []string {
	out := make([]string, len(xs))
	for i, x := range xs {
		out[i] = f(x)
	}
	return out
}
