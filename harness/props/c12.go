package props

import (
	"context"
	"fmt"
	"math/rand"
	"os"

	"github.com/streamingfast/bstream"
	"github.com/streamingfast/substreams/block"
	"github.com/streamingfast/substreams/orchestrator/plan"
	pbsubstreamsrpc "github.com/streamingfast/substreams/pb/sf/substreams/rpc/v2"
	pbsubstreams "github.com/streamingfast/substreams/pb/sf/substreams/v1"
	"github.com/streamingfast/substreams/pipeline"
	"github.com/streamingfast/substreams/pipeline/exec"

	"verif/harness/fw"
	"verif/harness/gen"
	"verif/harness/native"
	"verif/harness/sim"
)

// C12: request resolution and planning cover the requested range exactly.

const c12PerCase = 6000

func c12Lattice(s uint64) []uint64 {
	return []uint64{0, 1, s - 1, s, s + 1, 2*s - 1, 2 * s, 2*s + 1, 3 * s, 3*s + 1}
}

func init() {
	fw.Register(&fw.Spec{
		ID:    "C12",
		Level: "exploration",
		Rule: "case = (mode, segment size 2..12, output-module initial block from the boundary lattice {0,1,s-1,s,s+1,2s-1,2s,2s+1,3s,3s+1}) x " + fmt.Sprint(c12PerCase) + " PRNG tuples (0..3 store initial blocks, start, stop in {0, start+1..}, final block in {unknown, 0..60}; quick: all values from the lattice +-1, thorough: additionally free values in 0..50) resolved with the real pipeline.BuildRequestDetails and planned with the real plan.BuildTier1RequestPlan chained exactly as Tier1Service.blocks chains them; " +
			"plus (last cases: quick 40, thorough 2 000) end-to-end resumption from the cursor of a delivered NON-final block of the canonical chain of a generated package (same and empty cache): resolves to block+1 without undo signal, hand-off <= start, and delivers exactly the messages that followed in the original stream with every store read equal to the reference (the harness's linear feed honours cursor-is-target as bstream does: it starts at the hand-off when told so, right after the cursor otherwise); " +
			"plus cursor cases (every step type x block/LIB relation x fork-resolver answer) and, for a sample of accepted plans, an end-to-end execution through the in-process cluster which must complete with the reference outputs. " +
			"Invariants (from the property statement): linear range = [hand-off, stop) or none when hand-off >= stop; gate = max(start, hand-off); production reads cached outputs for exactly [start, min(hand-off, stop)) when start < hand-off, development mode never starts above... the hand-off (hand-off <= start); the two ranges tile [start, stop); stores are built for [lowest store initial block, hand-off) iff some store starts below the hand-off; the hand-off is a multiple of the segment size whenever stores are built or outputs written up to it, and every job range is a whole segment clipped only at an initial block; a forked cursor gives an undo signal for the junction and start = junction+1. " +
			"non-trivial = accepted tuple with a store below the start block and start, hand-off, stop in three different segments or straddling a boundary; distinct by tuple",
		Assumptions: []string{
			"graph shape: an output map reading 0..3 stores (get mode), each store reading the block source; initial blocks are what matters to planning",
			"an error is always an acceptable answer for the planner (the property only forbids unexecutable plans); executability itself is observed on a sample",
		},
		Cases: func(tier, mode string) int { return 2*11*10 + c12CursorResumeCases(tier) },
		CaseTimeout: 300e9,
		MinNontrivial: 200,
		Run:           runC12,
	})
}

func c12Modules(outInit uint64, storeInits []uint64) *pbsubstreams.Modules {
	pkg := &gen.Pkg{Progs: map[string]*native.Program{}, Kind: map[string]string{}, Init: map[string]uint64{}}
	var mods []*pbsubstreams.Module
	src := func() *pbsubstreams.Module_Input {
		return &pbsubstreams.Module_Input{Input: &pbsubstreams.Module_Input_Source_{Source: &pbsubstreams.Module_Input_Source{Type: native.BlockType}}}
	}
	outInputs := []*pbsubstreams.Module_Input{src()}
	outSpecs := []native.InSpec{{Kind: "source"}}
	for i, in := range storeInits {
		name := fmt.Sprintf("s%d", i)
		mods = append(mods, &pbsubstreams.Module{Name: name, BinaryEntrypoint: name, InitialBlock: in, Inputs: []*pbsubstreams.Module_Input{src()},
			Kind: &pbsubstreams.Module_KindStore_{KindStore: &pbsubstreams.Module_KindStore{UpdatePolicy: pbsubstreams.Module_KindStore_UPDATE_POLICY_ADD, ValueType: "int64"}}})
		pkg.Progs[name] = &native.Program{Kind: "store", Seed: 7, Inputs: []native.InSpec{{Kind: "source"}}, TagMask: 0xF, KeyMask: 0x3F, Mul: 1, FailAt: -1, DelTag: -1, SetTag: -1, Policy: "add", VT: "int64"}
		pkg.Kind[name] = "store"
		pkg.Init[name] = in
		outInputs = append(outInputs, &pbsubstreams.Module_Input{Input: &pbsubstreams.Module_Input_Store_{Store: &pbsubstreams.Module_Input_Store{ModuleName: name, Mode: pbsubstreams.Module_Input_Store_GET}}})
		outSpecs = append(outSpecs, native.InSpec{Kind: "store", Name: name, Policy: "add", VT: "int64"})
	}
	mods = append(mods, &pbsubstreams.Module{Name: "out", BinaryEntrypoint: "out", InitialBlock: outInit, Inputs: outInputs,
		Kind:   &pbsubstreams.Module_KindMap_{KindMap: &pbsubstreams.Module_KindMap{OutputType: "proto:verif.Lines"}},
		Output: &pbsubstreams.Module_Output{Type: "proto:verif.Lines"}})
	prog := &native.Program{Kind: "map", Seed: 7, Inputs: outSpecs, TagMask: 0xF, KeyMask: 0x3F, Mul: 1, FailAt: -1, DelTag: -1, SetTag: -1}
	for i := range storeInits {
		prog.Lookups = append(prog.Lookups, native.Lookup{Store: i, Mode: "get_last", Ord: -1, Key: -1})
	}
	pkg.Progs["out"] = prog
	pkg.Kind["out"] = "map"
	pkg.Init["out"] = outInit
	pkg.Maps = []string{"out"}
	pkg.Modules = &pbsubstreams.Modules{Modules: mods}
	pkg.Rebuild()
	lastPkg = pkg
	return pkg.Modules
}

var lastPkg *gen.Pkg

type c12Tuple struct {
	Prod       bool     `json:"prod"`
	Seg        uint64   `json:"segment_size"`
	OutInit    uint64   `json:"output_init"`
	StoreInits []uint64 `json:"store_inits"`
	Start      uint64   `json:"start"`
	Stop       uint64   `json:"stop"`
	Final      int64    `json:"final"` // -1 unknown
	CursorAt   int64    `json:"cursor_at"` // >= 0: the request carries the cursor of this FINAL block (and start_block_num = Start <= it)
}

func c12CursorResumeCases(tier string) int {
	if tier == "thorough" {
		return 2000
	}
	return 40
}

func runC12(c *fw.Case) {
	if c.Index >= 2*11*10 {
		runCursorResume(c, "C12")
		return
	}
	idx := c.Index
	prod := idx%2 == 1
	idx /= 2
	seg := uint64(2 + idx%11)
	idx /= 11
	lat := c12Lattice(seg)
	outInit := lat[idx%10]
	r := c.R
	val := func() uint64 {
		if c.Tier == "thorough" && r.Intn(3) == 0 {
			return uint64(r.Intn(51))
		}
		v := int64(lat[r.Intn(len(lat))]) + int64(r.Intn(3)) - 1
		if v < 0 {
			v = 0
		}
		return uint64(v)
	}
	e2eBudget := 2
	if c.Tier == "thorough" {
		e2eBudget = 6
	}
	perCase := c12PerCase
	if c.Tier == "thorough" {
		perCase *= 10
	}
	for k := 0; k < perCase; k++ {
		t := c12Tuple{Prod: prod, Seg: seg, OutInit: outInit}
		for i := r.Intn(4); i > 0; i-- {
			t.StoreInits = append(t.StoreInits, val())
		}
		t.Start = val()
		switch r.Intn(6) {
		case 0:
			t.Stop = 0
		default:
			t.Stop = t.Start + 1 + uint64(r.Intn(int(3*seg)))
		}
		if r.Intn(5) == 0 {
			t.Final = -1
		} else {
			t.Final = int64(r.Intn(61))
		}
		t.CursorAt = -1
		if r.Intn(6) == 0 { // a reconnecting client: original start block + cursor of the last final block it saw
			t.CursorAt = int64(t.Start + uint64(r.Intn(int(2*seg)+1)))
			if t.Stop != 0 && t.Stop <= uint64(t.CursorAt)+1 {
				t.Stop = uint64(t.CursorAt) + 2 + uint64(r.Intn(int(2*seg)))
			}
		}
		if !c12Check(c, r, t, &e2eBudget) {
			return
		}
	}
	c12Cursors(c, r, prod, seg, outInit)
	if c.WantSample() {
		c.Sample(map[string]any{"mode_prod": prod, "segment_size": seg, "output_init": outInit, "tuples": c12PerCase})
	}
}

func c12Check(c *fw.Case, r *rand.Rand, t c12Tuple, e2eBudget *int) bool {
	c.Count("tuples", 1)
	mods := c12Modules(t.OutInit, t.StoreInits)
	pkg := lastPkg
	req := &pbsubstreamsrpc.Request{StartBlockNum: int64(t.Start), StopBlockNum: t.Stop, Modules: mods, OutputModule: "out", ProductionMode: t.Prod}
	if req.StartBlockNum == 0 {
		req.StartBlockNum = int64(bstream.GetProtocolFirstStreamableBlock)
	}
	wantStart := t.Start
	if t.CursorAt >= 0 {
		ref := bstream.NewBlockRef(fmt.Sprintf("b%d", t.CursorAt), uint64(t.CursorAt))
		req.StartCursor = (&bstream.Cursor{Step: bstream.StepNewIrreversible, Block: ref, LIB: ref, HeadBlock: ref}).ToOpaque()
		wantStart = uint64(t.CursorAt) + 1
		c.Count("tuples_with_final_block_cursor", 1)
	}
	viol := func(sig, what string, extra map[string]any) bool {
		w := map[string]any{"tuple": t}
		for k, v := range extra {
			w[k] = v
		}
		c.Violation("C12/"+sig, what, w)
		return false
	}
	var g *exec.Graph
	var err error
	func() {
		defer func() {
			if p := recover(); p != nil {
				err = fmt.Errorf("PANIC %v", p)
			}
		}()
		g, err = exec.NewOutputModuleGraph("out", t.Prod, mods, bstream.GetProtocolFirstStreamableBlock)
	}()
	if err != nil {
		if len(err.Error()) > 5 && err.Error()[:5] == "PANIC" {
			return viol("panic/graph", "graph construction panicked: "+err.Error(), nil)
		}
		c.Count("rejected_graph", 1)
		return true
	}
	final := func() (uint64, error) {
		if t.Final >= 0 {
			return uint64(t.Final), nil
		}
		return 0, fmt.Errorf("no live feed")
	}
	details, undo, err := pipeline.BuildRequestDetails(context.Background(), req, final, nil, func() (uint64, error) { return 100, nil }, t.Seg)
	if err != nil {
		c.Count("rejected_by_resolution", 1)
		return true
	}
	if undo != nil {
		return viol("undo-without-fork", "an undo signal was produced for a request without cursor or with the cursor of a final block", nil)
	}
	S, H, E := details.ResolvedStartBlockNum, details.LinearHandoffBlockNum, details.StopBlockNum
	if S == E && E != 0 {
		c.Count("rejected_start_equals_stop", 1)
		return true
	}
	if err := g.ValidateRequestStartBlock(S); err != nil {
		c.Count("rejected_start_before_output_init", 1)
		return true
	}
	scheduleStores := g.StagedUsedModules()[0].LastLayer().IsStoreLayer()
	var lowestStores uint64
	if scheduleStores {
		lowestStores = *g.LowestStoresInitBlock()
	}
	var p *plan.RequestPlan
	func() {
		defer func() {
			if pp := recover(); pp != nil {
				err = fmt.Errorf("PANIC %v", pp)
			}
		}()
		p, err = plan.BuildTier1RequestPlan(details.ProductionMode, t.Seg, g.LowestInitBlock(), lowestStores, S, H, E, scheduleStores)
	}()
	if err != nil {
		if len(err.Error()) > 5 && err.Error()[:5] == "PANIC" {
			return viol("panic/plan", "BuildTier1RequestPlan panicked: "+err.Error(), map[string]any{"start": S, "handoff": H, "stop": E})
		}
		c.Count("rejected_by_planner", 1)
		return true
	}
	c.Count("accepted", 1)
	ex := map[string]any{"resolved_start": S, "handoff": H, "stop": E, "gate": details.LinearGateBlockNum, "plan": p.String()}
	if S != wantStart && !(wantStart == 0 && S == bstream.GetProtocolFirstStreamableBlock) {
		return viol("start-not-honoured", fmt.Sprintf("resolved start %d, expected %d (requested start %d, cursor on final block %d)", S, wantStart, t.Start, t.CursorAt), ex)
	}
	// linear range
	wantLinear := E == 0 || H < E
	if wantLinear != (p.LinearPipeline != nil) {
		return viol("linear-range-presence", fmt.Sprintf("hand-off %d, stop %d: linear range present=%v", H, E, p.LinearPipeline != nil), ex)
	}
	if p.LinearPipeline != nil && (p.LinearPipeline.StartBlock != H || p.LinearPipeline.ExclusiveEndBlock != E) {
		return viol("linear-range-bounds", fmt.Sprintf("linear range %s, expected [%d,%d)", p.LinearPipeline, H, E), ex)
	}
	gate := S
	if H > gate {
		gate = H
	}
	if details.LinearGateBlockNum != gate {
		return viol("gate", fmt.Sprintf("outputs gated at %d, expected max(start %d, hand-off %d)", details.LinearGateBlockNum, S, H), ex)
	}
	// cached outputs range
	if t.Prod {
		if S < H {
			end := H
			if E != 0 && E < H {
				end = E
			}
			if p.ReadExecOut == nil || p.ReadExecOut.StartBlock != S || p.ReadExecOut.ExclusiveEndBlock != end {
				return viol("read-range", fmt.Sprintf("cached outputs read for %s, expected [%d,%d)", p.ReadExecOut, S, end), ex)
			}
			if p.WriteExecOut == nil || p.WriteExecOut.StartBlock > S || p.WriteExecOut.ExclusiveEndBlock < end {
				return viol("write-range-does-not-cover-read-range", fmt.Sprintf("outputs written for %s do not cover the read range [%d,%d)", p.WriteExecOut, S, end), ex)
			}
		} else if p.ReadExecOut != nil {
			return viol("read-range", fmt.Sprintf("start %d >= hand-off %d but cached outputs are read for %s", S, H, p.ReadExecOut), ex)
		}
	} else {
		if p.ReadExecOut != nil || p.WriteExecOut != nil {
			return viol("dev-mode-reads-cache", "development mode plans cached outputs", ex)
		}
		if H > S {
			return viol("gap-dev-mode", fmt.Sprintf("development mode: hand-off %d above start %d: blocks [%d,%d) are neither read from cache nor processed linearly with outputs", H, S, S, H), ex)
		}
	}
	// stores built exactly up to the hand-off
	needStores := false
	low := uint64(1 << 62)
	for _, in := range t.StoreInits {
		if in == 0 {
			in = bstream.GetProtocolFirstStreamableBlock
		}
		if in < H {
			needStores = true
		}
		if in < low {
			low = in
		}
	}
	if needStores {
		if p.BuildStores == nil || p.BuildStores.StartBlock != low || p.BuildStores.ExclusiveEndBlock != H {
			return viol("stores-range", fmt.Sprintf("stores built for %s, expected [%d,%d) (a store starts below the hand-off)", p.BuildStores, low, H), ex)
		}
	} else if p.BuildStores != nil && p.BuildStores.StartBlock < p.BuildStores.ExclusiveEndBlock {
		return viol("stores-range", fmt.Sprintf("stores built for %s although no store starts below the hand-off %d", p.BuildStores, H), ex)
	}
	// whole segments
	checkSegs := func(name string, sg *block.Segmenter, init uint64) bool {
		for k := sg.FirstIndex(); k <= sg.LastIndex(); k++ {
			rg := sg.Range(k)
			if rg == nil {
				continue
			}
			c.Count("job_ranges_checked", 1)
			okStart := rg.StartBlock%t.Seg == 0 || rg.StartBlock == init
			okEnd := rg.ExclusiveEndBlock%t.Seg == 0
			if !okStart || !okEnd || rg.ExclusiveEndBlock-rg.StartBlock > t.Seg || rg.StartBlock/t.Seg != (rg.ExclusiveEndBlock-1)/t.Seg {
				viol("job-range-not-a-whole-segment", fmt.Sprintf("%s job range %s is not a whole segment of size %d (clipped only at initial block %d)", name, rg, t.Seg, init), ex)
				return false
			}
		}
		return true
	}
	if p.BuildStores != nil && p.BuildStores.StartBlock < p.BuildStores.ExclusiveEndBlock {
		if !checkSegs("store", p.StoresSegmenter(), p.BuildStores.StartBlock) {
			return false
		}
	}
	if p.WriteExecOut != nil {
		if !checkSegs("output", p.WriteOutSegmenter(), p.WriteExecOut.StartBlock) {
			return false
		}
		if ws := p.WriteExecOut.StartBlock; ws%t.Seg != 0 && ws != g.LowestInitBlock() {
			return viol("write-range-start", fmt.Sprintf("outputs written from %d which is neither a segment boundary nor the lowest initial block %d", ws, g.LowestInitBlock()), ex)
		}
	}
	if needStores && len(t.StoreInits) > 0 && S > H+0 && true {
		// fine: linear from the hand-off, gated at start
	}
	segOf := func(b uint64) uint64 { return b / t.Seg }
	if needStores && (segOf(S) != segOf(H) || (E != 0 && segOf(H) != segOf(E))) {
		c.Nontrivial(fmt.Sprintf("%+v", t))
	}
	c.Distinct("plan_shapes", fmt.Sprintf("%v/%v/%v/%v/%v", t.Prod, p.BuildStores != nil, p.WriteExecOut != nil, p.ReadExecOut != nil, p.LinearPipeline != nil))

	// executability, observed on a sample
	if *e2eBudget > 0 && t.CursorAt < 0 && E != 0 && E <= 40 && r.Intn(300) == 0 {
		*e2eBudget--
		dir, _ := os.MkdirTemp(os.Getenv("VH_SCRATCH"), "c12-")
		defer os.RemoveAll(dir)
		cl := sim.NewCluster(dir, t.Seg, 70)
		spec := sim.RequestSpec{Modules: mods, Output: "out", Prod: t.Prod, Start: int64(t.Start), Stop: E, Workers: 1 + r.Intn(3), OrderSeed: 1 + r.Int63n(1<<30)}
		if t.Final >= 0 {
			spec.Final = uint64(t.Final)
			if spec.Final == 0 {
				spec.Final = 1 // the cluster uses 0 for "unknown"
				return true
			}
		}
		pl, perr := cl.PlanFor(spec)
		if perr != nil || pl.KnownHangShape() {
			return true
		}
		ref, rerr := sim.BuildRef(mods, "out", 71, t.Seg)
		if rerr != nil {
			return viol("e2e/ref-failed", rerr.Error(), ex)
		}
		res := cl.Run(spec)
		c.Count("plans_executed_end_to_end", 1)
		if res.Stuck {
			return viol("e2e/unexecutable-plan-stuck", "an accepted plan never completes (no progress, no job in flight)", ex)
		}
		if res.Err != nil {
			return viol("e2e/unexecutable-plan/"+fw.NormalizeMsg(res.Err.Error()), "an accepted plan failed when executed: "+res.Err.Error(), ex)
		}
		fs, _ := sim.CheckStream(res, ref, false)
		for _, f := range fs {
			viol("e2e/"+f.Sig, f.What, ex)
		}
		hf, _ := sim.CheckHandoffStores(res, ref, pkg)
		for _, f := range hf {
			viol("e2e/"+f.Sig, f.What, ex)
		}
		if c.Violated() {
			return false
		}
	}
	return true
}

// c12Cursors enumerates cursor shapes against resolveStartBlockNum (through BuildRequestDetails).
func c12Cursors(c *fw.Case, r *rand.Rand, prod bool, seg, outInit uint64) {
	mods := c12Modules(outInit, nil)
	steps := []bstream.StepType{bstream.StepNew, bstream.StepUndo, bstream.StepIrreversible, bstream.StepNewIrreversible}
	for _, step := range steps {
		for _, blockNum := range []uint64{outInit + 5, outInit + 2*seg + 1} {
			for _, libDelta := range []int64{0, -1, -3, +2} {
				for _, answer := range []string{"none", "same", "junction", "error"} {
					lib := int64(blockNum) + libDelta
					if lib < 0 {
						continue
					}
					blk := bstream.NewBlockRef(fmt.Sprintf("c%d", blockNum), blockNum)
					libRef := bstream.NewBlockRef(fmt.Sprintf("l%d", lib), uint64(lib))
					if libDelta == 0 {
						libRef = blk
					}
					cur := &bstream.Cursor{Step: step, Block: blk, LIB: libRef, HeadBlock: bstream.NewBlockRef("head", blockNum+3)}
					junction := bstream.NewBlockRef(fmt.Sprintf("j%d", blockNum-2), blockNum-2)
					resolverCalled := false
					resolver := func(ctx context.Context, cc *bstream.Cursor) (bstream.BlockRef, bstream.BlockRef, error) {
						resolverCalled = true
						switch answer {
						case "none":
							return nil, cc.HeadBlock, nil
						case "same":
							return cc.Block, cc.HeadBlock, nil
						case "junction":
							return junction, cc.HeadBlock, nil
						}
						return nil, nil, fmt.Errorf("cannot resolve")
					}
					for _, stop := range []uint64{0, blockNum + 10, blockNum - 1} {
						req := &pbsubstreamsrpc.Request{StartBlockNum: int64(outInit), StopBlockNum: stop, StartCursor: cur.ToOpaque(), Modules: mods, OutputModule: "out", ProductionMode: prod}
						c.Count("cursor_cases", 1)
						w := map[string]any{"cursor": cur.String(), "step": step.String(), "resolver_answer": answer, "stop": stop, "prod": prod, "segment_size": seg}
						var details interface{ GetX() }
						_ = details
						var undo *pbsubstreamsrpc.BlockUndoSignal
						var startNum uint64
						var err error
						func() {
							defer func() {
								if p := recover(); p != nil {
									err = fmt.Errorf("PANIC %v", p)
								}
							}()
							d, u, e := pipeline.BuildRequestDetails(context.Background(), req, func() (uint64, error) { return blockNum + 3, nil }, resolver, func() (uint64, error) { return blockNum + 3, nil }, seg)
							err, undo = e, u
							if d != nil {
								startNum = d.ResolvedStartBlockNum
							}
						}()
						if err != nil {
							if len(err.Error()) > 5 && err.Error()[:5] == "PANIC" {
								c.Violation("C12/panic/cursor", "cursor resolution panicked: "+err.Error(), w)
								return
							}
							c.Count("cursor_rejected", 1)
							continue
						}
						if stop != 0 && stop < blockNum {
							c.Violation("C12/cursor/after-stop-accepted", "a cursor beyond the stop block was accepted", w)
							return
						}
						if uint64(lib) > blockNum {
							c.Violation("C12/cursor/lib-above-block-accepted", "a cursor whose LIB is above its block was accepted", w)
							return
						}
						onFinal := cur.IsOnFinalBlock()
						switch {
						case onFinal:
							if undo != nil || startNum != blockNum+1 {
								c.Violation("C12/cursor/final-block", fmt.Sprintf("cursor on a final block resolved to start %d undo=%v, expected %d without undo", startNum, undo, blockNum+1), w)
								return
							}
						case answer == "junction" && resolverCalled:
							if undo == nil || undo.LastValidBlock.Number != junction.Num() || undo.LastValidBlock.Id != junction.ID() {
								c.Violation("C12/cursor/forked-no-undo-for-junction", fmt.Sprintf("forked cursor: undo signal %v, expected last valid block %s", undo, junction), w)
								return
							}
							lv, cerr := bstream.CursorFromOpaque(undo.LastValidCursor)
							if cerr != nil || lv.Block.ID() != junction.ID() {
								c.Violation("C12/cursor/forked-undo-cursor", fmt.Sprintf("forked cursor: last valid cursor %v (%v) does not designate the junction %s", lv, cerr, junction), w)
								return
							}
							if startNum != junction.Num()+1 {
								c.Violation("C12/cursor/forked-restart", fmt.Sprintf("forked cursor: restart at %d, expected right after the junction (%d)", startNum, junction.Num()+1), w)
								return
							}
							c.Count("forked_cursors_checked", 1)
						default:
							if undo != nil {
								c.Violation("C12/cursor/undo-without-fork", fmt.Sprintf("cursor not on a forked block but undo signal %v was produced", undo), w)
								return
							}
							// the cursor's block is still on the chain: a "new" cursor restarts right after it, an "undo" cursor AT it
							// (the client was told to drop that block, it has to be sent again)
							want := blockNum + 1
							if step == bstream.StepUndo {
								want = blockNum
							}
							if (step == bstream.StepNew || step == bstream.StepUndo) && startNum != want {
								c.Violation("C12/cursor/canonical-restart", fmt.Sprintf("%s cursor on block %d, still on the chain: restart at %d, expected %d", step, blockNum, startNum, want), w)
								return
							}
							c.Count("canonical_cursors_checked", 1)
						}
					}
				}
			}
		}
	}
}
