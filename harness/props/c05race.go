package props

import "verif/harness/fw"

// runC05Race: the same request-sequence scenarios as C01, i.e. the REAL loop.Run with real
// goroutines, timers and asynchronous file writes, executed in the -race binary: it complements
// the controlled mode (which serialises commands) with the timing-dependent interleavings and lets
// the race detector watch the scheduler / squasher state.
func runC05Race(c *fw.Case) { runStrategyScenario(c, "C05") }
