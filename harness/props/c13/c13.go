// Package c13 checks property C13: segments tile every block range exactly,
// index arithmetic designates the containing segment, Range.Split and
// Ranges.Merged preserve the set of covered blocks.
package c13

import (
	"fmt"

	"github.com/streamingfast/substreams/block"

	"verif/harness/fw"
)

type dom struct {
	maxSize    uint64 // segment sizes 1..maxSize
	maxInitial uint64 // initial blocks 0..maxInitial
	maxEnd     uint64 // exclusive ends initial+1..maxEnd

	splitMaxChunk uint64 // chunk sizes 1..splitMaxChunk
	splitMaxBlock uint64 // ranges [s,e) with 0 <= s <= e <= splitMaxBlock

	mergeMaxRanges int    // exhaustive lists of 0..mergeMaxRanges ranges
	mergeMaxBlock  uint64 // over blocks 0..mergeMaxBlock
	prngCases      int    // PRNG list cases
	prngLists      int    // lists per PRNG case
	prngMaxRanges  int
	prngMaxBlock   uint64
}

func domOf(tier string) dom {
	if tier == "thorough" {
		return dom{maxSize: 32, maxInitial: 160, maxEnd: 200,
			splitMaxChunk: 40, splitMaxBlock: 200,
			mergeMaxRanges: 4, mergeMaxBlock: 30,
			prngCases: 400, prngLists: 500, prngMaxRanges: 8, prngMaxBlock: 64}
	}
	return dom{maxSize: 16, maxInitial: 64, maxEnd: 96,
		splitMaxChunk: 20, splitMaxBlock: 64,
		mergeMaxRanges: 4, mergeMaxBlock: 24,
		prngCases: 40, prngLists: 250, prngMaxRanges: 8, prngMaxBlock: 64}
}

func (d dom) segCases() int   { return int(d.maxSize * (d.maxInitial + 1)) }
func (d dom) splitCases() int { return int(d.splitMaxChunk) }

// one exhaustive merge case per first range (s1,e1), 0<=s1<e1<=mergeMaxBlock, plus one for the empty / nil lists
func (d dom) mergeCases() int { n := int(d.mergeMaxBlock); return n*(n+1)/2 + 1 }

func init() {
	fw.Register(&fw.Spec{
		ID:    "C13",
		Level: "exploration",
		Rule: "segment case = one (segment size, initial block) pair: every exclusive end initial+1..maxEnd, every index FirstIndex-2..LastIndex+2 (plus -1 and a far index), every block of [initial,end) as a start block and every exclusive end of (initial,end] as an end block, against a tiling written down by walking the blocks one by one; " +
			"split case = one chunk size x every range [s,e) 0<=s<=e<=maxBlock; merge case = every sorted disjoint list of up to 4 non-empty ranges over 0..N sharing one first range (exhaustive), plus PRNG lists of up to 8 ranges over 0..64 (some empty ranges, Merged and MergedBuckets). " +
			"non-trivial = a (size,initial) pair having at least one end with >=3 segments and both outer ends unaligned; a chunk size with at least one range split in >=3 chunks; a merge case in which at least one list had two adjacent ranges",
		Assumptions: []string{
			"'segment size' bounds the length of a segment (a segment never spans more than size blocks)",
			"an exclusive end block e 'is contained' in the segment that contains block e-1 (block/segmenter_test.go TestSegmenter_IndexForEndBlock)",
			"IndexForStartBlock / IndexForEndBlock are only required to designate a segment for blocks inside [initial,end) / (initial,end]",
			"EndsOnInterval is only called for existing segments (it panics by design above LastIndex)",
			"Merged/MergedBuckets/Split are only required to preserve the covered block set; Split chunks must come out ordered and contiguous; that Merged output is maximally merged and that chunks are no longer than the chunk size is counted (obs_*), not demanded",
		},
		Cases: func(tier, mode string) int {
			d := domOf(tier)
			return d.segCases() + d.splitCases() + d.mergeCases() + d.prngCases
		},
		Exhaustive:    func(tier string) bool { return true },
		MinNontrivial: 500,
		Run:           run,
	})
}

func run(c *fw.Case) {
	d := domOf(c.Tier)
	i := c.Index
	switch {
	case i < d.segCases():
		size := uint64(i)/(d.maxInitial+1) + 1
		initial := uint64(i) % (d.maxInitial + 1)
		runSegments(c, d, size, initial)
	case i < d.segCases()+d.splitCases():
		runSplit(c, d, uint64(i-d.segCases())+1)
	case i < d.segCases()+d.splitCases()+d.mergeCases():
		runMergeExhaustive(c, d, i-d.segCases()-d.splitCases())
	default:
		runMergePRNG(c, d)
	}
}

// ---------------------------------------------------------------- segments

type seg struct{ Start, End uint64 }

// modelTiling writes the tiling down from the statement by walking the blocks:
// a new segment starts at the initial block and at every multiple of size.
func modelTiling(size, initial, end uint64) []seg {
	var out []seg
	for b := initial; b < end; b++ {
		if b == initial || b%size == 0 {
			out = append(out, seg{b, b + 1})
		} else {
			out[len(out)-1].End = b + 1
		}
	}
	return out
}

type segWitness struct {
	Size     uint64 `json:"segment_size"`
	Initial  uint64 `json:"initial_block"`
	End      uint64 `json:"exclusive_end_block"`
	First    int    `json:"first_index"`
	Last     int    `json:"last_index"`
	Count    int    `json:"count"`
	Segments []any  `json:"segments_by_index"`
	Model    []seg  `json:"expected_tiling"`
}

func witnessOf(s *block.Segmenter, size, initial, end uint64, model []seg) (w segWitness) {
	w = segWitness{Size: size, Initial: initial, End: end, Model: model}
	defer func() { recover() }()
	w.First, w.Last, w.Count = s.FirstIndex(), s.LastIndex(), s.Count()
	for idx := w.First - 1; idx <= w.Last+1 && idx < w.First+400; idx++ {
		r := s.Range(idx)
		if r == nil {
			w.Segments = append(w.Segments, map[string]any{"index": idx, "range": nil})
		} else {
			w.Segments = append(w.Segments, map[string]any{"index": idx, "range": []uint64{r.StartBlock, r.ExclusiveEndBlock}})
		}
	}
	return
}

func runSegments(c *fw.Case, d dom, size, initial uint64) {
	c.Distinct("segment_sizes", fmt.Sprint(size))
	c.Distinct("initial_blocks", fmt.Sprint(initial))
	nontrivial := false
	covered := make([]bool, d.maxEnd+size+2)
	for end := initial + 1; end <= d.maxEnd; end++ {
		s := block.NewSegmenter(size, initial, end)
		model := modelTiling(size, initial, end)
		c.Count("triples_size_initial_end", 1)
		fail := func(sig, what string) {
			c.Violation(sig, fmt.Sprintf("size=%d initial=%d end=%d: %s", size, initial, end, what), witnessOf(s, size, initial, end, model))
		}
		first, last, count := s.FirstIndex(), s.LastIndex(), s.Count()
		if count != len(model) {
			fail("C13/count", fmt.Sprintf("Count()=%d but [initial,end) is tiled by %d segments", count, len(model)))
			return
		}
		if last-first+1 != len(model) {
			fail("C13/index-span", fmt.Sprintf("FirstIndex()=%d LastIndex()=%d span %d indexes but the tiling has %d segments", first, last, last-first+1, len(model)))
			return
		}
		for b := range covered {
			covered[b] = false
		}
		var prev *block.Range
		for k := 0; k < len(model); k++ {
			idx := first + k
			r := s.Range(idx)
			c.Count("segments_checked", 1)
			if r == nil {
				fail("C13/segment-missing", fmt.Sprintf("Range(%d) is nil although FirstIndex()=%d <= %d <= LastIndex()=%d", idx, first, idx, last))
				return
			}
			if r.StartBlock >= r.ExclusiveEndBlock {
				fail("C13/empty-segment", fmt.Sprintf("Range(%d)=%s is empty", idx, r))
				return
			}
			if r.ExclusiveEndBlock-r.StartBlock > size {
				fail("C13/segment-longer-than-size", fmt.Sprintf("Range(%d)=%s spans more than the segment size", idx, r))
				return
			}
			if k == 0 {
				if r.StartBlock != initial {
					fail("C13/first-start", fmt.Sprintf("first segment Range(%d)=%s does not start at the initial block", idx, r))
					return
				}
			} else {
				if r.StartBlock != prev.ExclusiveEndBlock {
					fail("C13/not-contiguous", fmt.Sprintf("Range(%d)=%s does not start where Range(%d)=%s ends", idx, r, idx-1, prev))
					return
				}
				if r.StartBlock%size != 0 {
					fail("C13/unaligned-start", fmt.Sprintf("Range(%d)=%s is not the first segment and starts off a multiple of %d", idx, r, size))
					return
				}
			}
			if k == len(model)-1 {
				if r.ExclusiveEndBlock != end {
					fail("C13/last-end", fmt.Sprintf("last segment Range(%d)=%s does not end at the end block", idx, r))
					return
				}
			} else if r.ExclusiveEndBlock%size != 0 {
				fail("C13/unaligned-end", fmt.Sprintf("Range(%d)=%s is not the last segment and ends off a multiple of %d", idx, r, size))
				return
			}
			for b := r.StartBlock; b < r.ExclusiveEndBlock && b < uint64(len(covered)); b++ {
				if covered[b] {
					fail("C13/overlap", fmt.Sprintf("block %d is in two segments (second: Range(%d)=%s)", b, idx, r))
					return
				}
				covered[b] = true
			}
			if r.StartBlock != model[k].Start || r.ExclusiveEndBlock != model[k].End {
				fail("C13/tiling-differs", fmt.Sprintf("Range(%d)=%s, expected [%d, %d)", idx, r, model[k].Start, model[k].End))
				return
			}
			eoi := s.EndsOnInterval(idx)
			c.Count("ends_on_interval_checked", 1)
			if eoi != (model[k].End%size == 0) {
				fail("C13/ends-on-interval", fmt.Sprintf("EndsOnInterval(%d)=%v but that segment is [%d, %d)", idx, eoi, model[k].Start, model[k].End))
				return
			}
			prev = r
		}
		for b := 0; b < len(covered); b++ {
			want := uint64(b) >= initial && uint64(b) < end
			if covered[b] != want {
				fail("C13/union", fmt.Sprintf("block %d: covered by the segments=%v, in [initial,end)=%v", b, covered[b], want))
				return
			}
		}
		c.Count("unions_compared", 1)

		// indexes outside the range yield no segment
		for _, idx := range []int{first - 2, first - 1, -1, last + 1, last + 2, last + 1000} {
			if idx >= first && idx <= last {
				continue
			}
			c.Count("out_of_range_indexes_checked", 1)
			if r := s.Range(idx); r != nil {
				fail("C13/out-of-range-index-yields-segment", fmt.Sprintf("Range(%d)=%s although the valid indexes are %d..%d", idx, r, first, last))
				return
			}
		}

		// index for a start block / an end block
		for b := initial; b < end; b++ {
			idx := s.IndexForStartBlock(b)
			r := s.Range(idx)
			c.Count("index_for_start_block_checked", 1)
			if r == nil || !(r.StartBlock <= b && b < r.ExclusiveEndBlock) {
				fail("C13/index-for-start-block", fmt.Sprintf("IndexForStartBlock(%d)=%d designates %s which does not contain block %d", b, idx, r, b))
				return
			}
			e := b + 1 // exclusive end block in (initial, end]
			idx = s.IndexForEndBlock(e)
			r = s.Range(idx)
			c.Count("index_for_end_block_checked", 1)
			if r == nil || !(r.StartBlock < e && e <= r.ExclusiveEndBlock) {
				fail("C13/index-for-end-block", fmt.Sprintf("IndexForEndBlock(%d)=%d designates %s which does not contain exclusive end block %d (i.e. block %d)", e, idx, r, e, b))
				return
			}
		}

		// derived segmenters
		if end > initial+1 {
			s2 := s.WithExclusiveEndBlock(end - 1)
			if s2.Count() != len(modelTiling(size, initial, end-1)) {
				fail("C13/with-exclusive-end-block", fmt.Sprintf("WithExclusiveEndBlock(%d).Count()=%d", end-1, s2.Count()))
				return
			}
			s3 := s.WithInitialBlock(initial + 1)
			if s3.Count() != len(modelTiling(size, initial+1, end)) {
				fail("C13/with-initial-block", fmt.Sprintf("WithInitialBlock(%d).Count()=%d", initial+1, s3.Count()))
				return
			}
		}
		// a derived segmenter with a LOWER (or higher) initial block tiles [new initial, end): first and last segment and count
		for _, ni := range []uint64{0, initial / 2, initial - min64(initial, 1), initial + 2} {
			if ni >= end {
				continue
			}
			s4 := s.WithInitialBlock(ni)
			m4 := modelTiling(size, ni, end)
			c.Count("derived_initial_block_segmenters", 1)
			f4 := s4.Range(s4.FirstIndex())
			l4 := s4.Range(s4.LastIndex())
			if s4.Count() != len(m4) || f4 == nil || l4 == nil || f4.StartBlock != m4[0].Start || f4.ExclusiveEndBlock != m4[0].End || l4.StartBlock != m4[len(m4)-1].Start || l4.ExclusiveEndBlock != m4[len(m4)-1].End {
				fail("C13/with-initial-block", fmt.Sprintf("WithInitialBlock(%d): Count()=%d first=%v last=%v, but [%d,%d) is tiled by %d segments from [%d,%d) to [%d,%d)", ni, s4.Count(), f4, l4, ni, end, len(m4), m4[0].Start, m4[0].End, m4[len(m4)-1].Start, m4[len(m4)-1].End))
				return
			}
		}

		if len(model) >= 3 && initial%size != 0 && end%size != 0 {
			nontrivial = true
			c.Count("triples_nontrivial", 1)
		}
		if len(model) == 1 {
			c.Count("triples_single_segment", 1)
		}
		if end%size == 0 {
			c.Count("triples_end_on_boundary", 1)
		}
		if c.WantSample() && len(model) >= 3 && initial%size != 0 && end%size != 0 && end == initial+2*size+1 {
			c.Sample(witnessOf(s, size, initial, end, model))
		}
	}
	if nontrivial {
		c.Nontrivial(fmt.Sprintf("seg/%d/%d", size, initial))
	}
}

// ---------------------------------------------------------------- Split

func rangesOf(rs []*block.Range) [][2]uint64 {
	out := make([][2]uint64, 0, len(rs))
	for _, r := range rs {
		if r == nil {
			out = append(out, [2]uint64{^uint64(0), ^uint64(0)})
			continue
		}
		out = append(out, [2]uint64{r.StartBlock, r.ExclusiveEndBlock})
	}
	return out
}

func runSplit(c *fw.Case, d dom, chunk uint64) {
	c.Distinct("split_chunk_sizes", fmt.Sprint(chunk))
	nontrivial := false
	for s := uint64(0); s <= d.splitMaxBlock; s++ {
		for e := s; e <= d.splitMaxBlock; e++ {
			in := block.NewRange(s, e)
			chunks := in.Split(chunk)
			c.Count("splits_checked", 1)
			fail := func(sig, what string) {
				c.Violation(sig, fmt.Sprintf("[%d, %d).Split(%d): %s", s, e, chunk, what),
					map[string]any{"range": [2]uint64{s, e}, "chunk_size": chunk, "chunks": rangesOf(chunks)})
			}
			// covered set, computed independently as a bitset
			cov := make([]int, d.splitMaxBlock+chunk+2)
			bad := false
			for i, ch := range chunks {
				if ch == nil {
					fail("C13/split/nil-chunk", fmt.Sprintf("chunk %d is nil", i))
					return
				}
				if ch.ExclusiveEndBlock < ch.StartBlock {
					fail("C13/split/inverted-chunk", fmt.Sprintf("chunk %d = %s", i, ch))
					return
				}
				if i > 0 && ch.StartBlock != chunks[i-1].ExclusiveEndBlock {
					fail("C13/split/not-contiguous", fmt.Sprintf("chunk %d = %s does not start where chunk %d = %s ends", i, ch, i-1, chunks[i-1]))
					return
				}
				for b := ch.StartBlock; b < ch.ExclusiveEndBlock; b++ {
					if b >= uint64(len(cov)) {
						bad = true
						break
					}
					cov[b]++
				}
				if ch.ExclusiveEndBlock-ch.StartBlock > chunk {
					c.Count("obs_split_chunk_longer_than_chunk_size", 1)
				}
				if ch.ExclusiveEndBlock == ch.StartBlock && e > s {
					c.Count("obs_split_empty_chunk_of_nonempty_range", 1)
				}
			}
			for b := 0; b < len(cov) && !bad; b++ {
				want := 0
				if uint64(b) >= s && uint64(b) < e {
					want = 1
				}
				if cov[b] != want {
					bad = true
				}
			}
			if bad {
				fail("C13/split/covered-set", "the chunks do not cover exactly the blocks of the range, once each")
				return
			}
			if len(chunks) >= 3 {
				nontrivial = true
				c.Count("splits_in_3_or_more_chunks", 1)
			}
			if c.WantSample() && len(chunks) == 4 && s%chunk != 0 && e%chunk != 0 {
				c.Sample(map[string]any{"range": [2]uint64{s, e}, "chunk_size": chunk, "chunks": rangesOf(chunks)})
			}
		}
	}
	if nontrivial {
		c.Nontrivial(fmt.Sprintf("split/%d", chunk))
	}
}

// ---------------------------------------------------------------- Merged

// checkMerge runs Merged (and MergedBuckets for a few bucket sizes) on the
// list and compares covered block sets. Returns false on violation.
func checkMerge(c *fw.Case, list [][2]uint64, maxBlock uint64, buckets []uint64, asNil bool) bool {
	var in block.Ranges
	if !asNil {
		in = make(block.Ranges, 0, len(list))
	}
	for _, r := range list {
		in = append(in, block.NewRange(r[0], r[1]))
	}
	want := make([]bool, maxBlock+2)
	for _, r := range list {
		for b := r[0]; b < r[1]; b++ {
			want[b] = true
		}
	}
	check := func(name string, out block.Ranges, bucket uint64) bool {
		fail := func(sig, what string) bool {
			c.Violation(sig, fmt.Sprintf("%s of %v: %s", name, list, what), map[string]any{"input": list, "output": rangesOf(out), "max_bucket_size": bucket})
			return false
		}
		got := make([]bool, maxBlock+2)
		for i, r := range out {
			if r == nil {
				return fail("C13/"+name+"/nil-range", fmt.Sprintf("output range %d is nil", i))
			}
			if r.ExclusiveEndBlock < r.StartBlock {
				return fail("C13/"+name+"/inverted-range", fmt.Sprintf("output range %d = %s", i, r))
			}
			for b := r.StartBlock; b < r.ExclusiveEndBlock; b++ {
				if b >= uint64(len(got)) {
					return fail("C13/"+name+"/covered-set", fmt.Sprintf("output range %d = %s covers block %d which no input range covers", i, r, b))
				}
				got[b] = true
			}
		}
		for b := range want {
			if want[b] != got[b] {
				return fail("C13/"+name+"/covered-set", fmt.Sprintf("block %d: covered by the input=%v, by the output=%v", b, want[b], got[b]))
			}
		}
		return true
	}
	out := in.Merged()
	c.Count("merged_checked", 1)
	if !check("merged", out, 0) {
		return false
	}
	for i := 1; i < len(out); i++ {
		if out[i-1].ExclusiveEndBlock == out[i].StartBlock {
			c.Count("obs_merged_output_still_has_adjacent_ranges", 1)
			break
		}
	}
	for _, bk := range buckets {
		c.Count("merged_buckets_checked", 1)
		if !check("merged-buckets", in.MergedBuckets(bk), bk) {
			return false
		}
	}
	return true
}

func hasAdjacent(list [][2]uint64) bool {
	for i := 1; i < len(list); i++ {
		if list[i-1][1] == list[i][0] {
			return true
		}
	}
	return false
}

func runMergeExhaustive(c *fw.Case, d dom, k int) {
	n := d.mergeMaxBlock
	buckets := []uint64{1, 2, 3, 5, 8, n}
	if k == 0 {
		// the empty list, as nil and as an empty non-nil slice
		if !checkMerge(c, nil, n, buckets, true) || !checkMerge(c, nil, n, buckets, false) {
			return
		}
		c.Count("merge_lists_enumerated", 2)
		return
	}
	// decode k-1 -> first range (s1,e1), 0<=s1<e1<=n
	k--
	var s1, e1 uint64
	found := false
	for s := uint64(0); s < n && !found; s++ {
		cnt := int(n - s)
		if k < cnt {
			s1, e1, found = s, s+uint64(k)+1, true
		} else {
			k -= cnt
		}
	}
	if !found {
		panic("bad merge case index")
	}
	adjacentSeen := false
	ok := true
	var rec func(list [][2]uint64)
	rec = func(list [][2]uint64) {
		if !ok {
			return
		}
		c.Count("merge_lists_enumerated", 1)
		// bucket sizes: all for short lists, Merged only + 2 buckets for the long ones (cost)
		bk := buckets
		if len(list) == d.mergeMaxRanges {
			bk = buckets[1:3]
		}
		if !checkMerge(c, list, n, bk, false) {
			ok = false
			return
		}
		if hasAdjacent(list) {
			adjacentSeen = true
			c.Count("merge_lists_with_adjacent_ranges", 1)
			if c.WantSample() && len(list) == 4 && c.R.Intn(500) == 0 {
				in := block.Ranges{}
				for _, r := range list {
					in = append(in, block.NewRange(r[0], r[1]))
				}
				c.Sample(map[string]any{"input": append([][2]uint64(nil), list...), "merged": rangesOf(in.Merged())})
			}
		}
		if len(list) == d.mergeMaxRanges {
			return
		}
		lastEnd := list[len(list)-1][1]
		for s := lastEnd; s < n; s++ {
			for e := s + 1; e <= n; e++ {
				rec(append(list, [2]uint64{s, e}))
			}
		}
	}
	rec([][2]uint64{{s1, e1}})
	c.Distinct("merge_first_ranges", fmt.Sprintf("%d-%d", s1, e1))
	if adjacentSeen && ok {
		c.Nontrivial(fmt.Sprintf("merge/%d-%d", s1, e1))
	}
}

func runMergePRNG(c *fw.Case, d dom) {
	n := d.prngMaxBlock
	adjacentSeen := false
	for l := 0; l < d.prngLists; l++ {
		k := c.R.Intn(d.prngMaxRanges + 1)
		var list [][2]uint64
		pos := uint64(c.R.Intn(8))
		for len(list) < k && pos <= n {
			// gap 0 (adjacent) with probability 1/2
			if len(list) > 0 && c.R.Intn(2) == 0 {
				pos += uint64(1 + c.R.Intn(6))
			}
			if pos > n {
				break
			}
			var ln uint64
			switch c.R.Intn(10) {
			case 0:
				ln = 0 // empty range: sorted and disjoint from everything
			case 1, 2, 3:
				ln = 1
			default:
				ln = uint64(1 + c.R.Intn(12))
			}
			if pos+ln > n {
				ln = n - pos
			}
			list = append(list, [2]uint64{pos, pos + ln})
			pos += ln
		}
		buckets := []uint64{uint64(c.R.Intn(20)), uint64(1 + c.R.Intn(64)), 0}
		c.Count("merge_lists_prng", 1)
		c.Max("merge_list_len", int64(len(list)))
		if !checkMerge(c, list, n, buckets, false) {
			return
		}
		if hasAdjacent(list) {
			adjacentSeen = true
			c.Count("merge_lists_with_adjacent_ranges", 1)
		}
		if len(list) >= 5 {
			c.Distinct("merge_prng_long_lists", fmt.Sprint(list))
		}
	}
	if adjacentSeen {
		c.Nontrivial(fmt.Sprintf("merge-prng/%d", c.Index))
	}
}


func min64(a, b uint64) uint64 {
	if a < b {
		return a
	}
	return b
}
