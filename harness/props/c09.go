package props

import (
	"bytes"
	"context"
	"fmt"
	"os"
	"path/filepath"
	"sort"
	"strings"

	pbsubstreams "github.com/streamingfast/substreams/pb/sf/substreams/v1"
	"go.uber.org/zap"
	"google.golang.org/protobuf/proto"

	"verif/harness/fw"
	"verif/harness/gen"
	"verif/harness/model"
	"verif/harness/rs"
	"verif/harness/sim"
)

// C09: replaying a store's cached operation log reproduces deltas and state.

func init() {
	fw.Register(&fw.Spec{
		ID:    "C09",
		Level: "exploration",
		Rule: "case = one (policy,value type) pair x one PRNG pre-state (0..3 blocks) x one chain of 1..5 blocks; store A executes each block through wasm.Call.Do* and its log is read with ReadOps after Flush; " +
			"store B (same pre-state obtained through Save/Load of A's pre-state) receives ApplyOps(log) per block, Reset between blocks as the engine does. Monitors per block: GetDeltas equal field by field, content equal; " +
			"for partial stores additionally the saved-and-reloaded snapshot (keys, values, deleted prefixes) equal, and merging either snapshot into the same full store gives the same typed content. " +
			"end-to-end part (the last cases; quick 60, thorough 6 000): a generated package is run once in production mode, then EVERY cache file except the cached outputs of store modules is deleted and the request is run again, so that tier2 rebuilds each store by replaying its cached operation log through pipeline/exec (applyCachedOutput) while dependent modules execute on the replayed deltas; " +
			"monitors: stream, every store read, hand-off stores and every regenerated file equal REF-LINEAR. " +
			"non-trivial = replayed block with >=2 ops (store part) / re-run with at least one store output file kept and one tier2 job (end-to-end part); distinct by hash of (pair, pre-state, ops)",
		Assumptions: []string{"exact numeric operands (see C02)", "byte-for-byte equality of deltas and raw content is required because replay runs the same code on the same bytes"},
		Cases: func(tier, mode string) int {
			return c09StoreCases(tier) + c09E2ECases(tier)
		},
		CaseTimeout: 300e9,
		MinNontrivial: 100,
		Run:           runC09,
	})
}

func c09StoreCases(tier string) int {
	if tier == "thorough" {
		return len(model.Pairs()) * 30000
	}
	return len(model.Pairs()) * 80
}

func c09E2ECases(tier string) int {
	if tier == "thorough" {
		return 6000
	}
	return 60
}

// runC09E2E: the replay as the engine performs it. Golden production run, keep only the cached outputs of store modules,
// run again: every store is rebuilt by tier2 from its cached operation log.
func runC09E2E(c *fw.Case) {
	s := newScen(c, gen.PkgOpts{MaxMods: 6, NoIndex: c.R.Intn(2) == 0, ForceDelete: c.R.Intn(2) == 0})
	defer s.close()
	outs := s.outputs()
	if c.Violated() || len(outs) == 0 {
		c.Count("packages_without_visible_output", 1)
		return
	}
	out := outs[c.R.Intn(len(outs))]
	ref := s.ref(out)
	req := s.genRequest(out)
	req.Prod = true
	req.Final = s.cl.Head
	req.Workers = 1 + c.R.Intn(3)
	pl, err := s.cl.PlanFor(req)
	if err != nil || pl.KnownHangShape() || pl.Plan.BuildStores == nil {
		c.Count("requests_without_store_backfill", 1)
		return
	}
	res := s.cl.Run(req)
	if res.Err != nil || res.Stuck {
		c.Count("golden_run_failed_not_decided_here", 1)
		return
	}
	hashes := ref.Graph.ModuleHashes()
	byHash := map[string]string{}
	for _, m := range ref.Graph.UsedModules() {
		byHash[hashes.Get(m.Name)] = m.Name
	}
	root := filepath.Join(s.cl.Dir, s.cl.Tag)
	var kept, removed []string
	for _, f := range s.cl.ListCache() {
		if strings.HasSuffix(f.Rel, ".spkg.zst") {
			continue
		}
		if f.Sub == "outputs" && s.pkg.Kind[byHash[f.Hash]] == "store" {
			kept = append(kept, f.Rel)
			continue
		}
		os.Remove(filepath.Join(root, f.Rel))
		removed = append(removed, f.Rel)
	}
	c.Count("e2e_scenarios", 1)
	if len(kept) == 0 {
		c.Count("e2e_scenarios_without_store_output_file", 1)
		return
	}
	c.Count("store_output_files_replayed_from", int64(len(kept)))
	req.OrderSeed = 1 + c.R.Int63n(1<<40)
	res2 := s.cl.Run(req)
	extra := map[string]any{"request": req, "kept_store_output_files": kept, "removed_files": removed, "jobs": res2.Jobs}
	if res2.Stuck {
		c.Count("rerun_stuck_not_decided_here", 1)
		return
	}
	if res2.Err != nil {
		c.Violation("C09/e2e/request-failed/"+fw.NormalizeMsg(res2.Err.Error()), "re-run on the cached store outputs failed: "+res2.Err.Error(), s.witness(extra))
		return
	}
	fs, facts := sim.CheckStream(res2, ref, false)
	s.report("C09/e2e", fs, extra)
	rf, compared, _ := sim.CheckReads(res2.Execs, ref)
	s.report("C09/e2e", rf, extra)
	c.Count("store_reads_compared", int64(compared))
	c.Count("nonempty_payloads_compared", int64(facts.NonEmpty))
	hf, hc := sim.CheckHandoffStores(res2, ref, s.pkg)
	s.report("C09/e2e", hf, extra)
	c.Count("handoff_stores_compared", int64(hc))
	af, afacts := s.cl.AuditCache(ref, s.pkg)
	s.report("C09/e2e", af, extra)
	c.Count("regenerated_kv_files_audited", int64(afacts.KV))
	if c.Violated() {
		return
	}
	if len(res2.Jobs) > 0 {
		c.Nontrivial(fmt.Sprintf("%v|%+v", s.pkg.Describe(), req))
	}
	if c.WantSample() {
		c.Sample(s.witness(extra))
	}
}

func deltasDiff(a, b []*pbsubstreams.StoreDelta) string {
	if len(a) != len(b) {
		return fmt.Sprintf("%d deltas vs %d deltas", len(a), len(b))
	}
	for i := range a {
		x, y := a[i], b[i]
		if x.Operation != y.Operation || x.Ordinal != y.Ordinal || x.Key != y.Key || !bytes.Equal(x.OldValue, y.OldValue) || !bytes.Equal(x.NewValue, y.NewValue) {
			return fmt.Sprintf("delta %d: {%v ord=%d key=%q old=%q new=%q} vs {%v ord=%d key=%q old=%q new=%q}", i,
				x.Operation, x.Ordinal, x.Key, x.OldValue, x.NewValue, y.Operation, y.Ordinal, y.Key, y.OldValue, y.NewValue)
		}
	}
	return ""
}

func runC09(c *fw.Case) {
	if c.Index >= c09StoreCases(c.Tier) {
		runC09E2E(c)
		return
	}
	pairs := model.Pairs()
	p := pairs[c.Index%len(pairs)]
	g := gen.NewStoreOps(c.R, p)
	g.AllowAll = c.R.Intn(5) == 0
	if c.R.Intn(2) == 0 {
		g.DelProb = 0.3
	}
	ctx := context.Background()
	nPre := c.R.Intn(4)
	nChain := 1 + c.R.Intn(5)
	var pre, chain [][]model.Op
	for i := 0; i < nPre; i++ {
		pre = append(pre, g.Block(5))
	}
	for i := 0; i < nChain; i++ {
		chain = append(chain, g.Block(6))
	}
	wit := func(kind string, upto int) map[string]any {
		return map[string]any{"pair": p.String(), "store": kind, "pre_state_blocks": gen.DescribeBlocks(p, pre), "chain": gen.DescribeBlocks(p, chain[:upto+1])}
	}

	// ---------- full stores
	cfg, _ := rs.NewConfig(p, "s", 0)
	A := cfg.NewFullKV(zap.NewNop())
	for i, ops := range pre {
		if err := rs.RunBlock(p, A, uint64(i), ops); err != nil {
			c.Violation("C09/exec-error/"+p.String()+"/"+fw.NormalizeMsg(err.Error()), "execution failed: "+err.Error(), wit("full", 0))
			return
		}
	}
	A.Reset()
	B, err := rs.SaveLoadFull(ctx, cfg, A, uint64(100+nPre))
	if err != nil {
		c.Violation("C09/saveload/"+p.String(), "save/load failed: "+err.Error(), nil)
		return
	}
	// C replays the whole chain from logs that were RETAINED while the chain executed (a cached output file holds the logs of a
	// whole segment): a log must stay what it was when it was read
	C, err := rs.SaveLoadFull(ctx, cfg, A, uint64(200+nPre))
	if err != nil {
		c.Violation("C09/saveload/"+p.String(), "save/load failed: "+err.Error(), nil)
		return
	}
	var keptLogs [][]byte
	var keptDeltas [][]*pbsubstreams.StoreDelta
	var keptContent []map[string][]byte
	for i, ops := range chain {
		if err := rs.RunBlock(p, A, uint64(nPre+i), ops); err != nil {
			c.Violation("C09/exec-error/"+p.String()+"/"+fw.NormalizeMsg(err.Error()), "execution failed: "+err.Error(), wit("full", i))
			return
		}
		log := A.ReadOps()
		keptLogs = append(keptLogs, log) // as returned, not copied
		var ds []*pbsubstreams.StoreDelta
		for _, d := range A.GetDeltas() {
			ds = append(ds, proto.Clone(d).(*pbsubstreams.StoreDelta))
		}
		keptDeltas = append(keptDeltas, ds)
		keptContent = append(keptContent, rawContent(A))
		B.Reset()
		if err := B.ApplyOps(log); err != nil {
			c.Violation("C09/applyops-error/"+p.String()+"/"+fw.NormalizeMsg(err.Error()), "ApplyOps failed: "+err.Error(), wit("full", i))
			return
		}
		c.Count("blocks_replayed", 1)
		if d := deltasDiff(A.GetDeltas(), B.GetDeltas()); d != "" {
			c.Violation("C09/full/deltas-differ/"+p.Policy, "replayed deltas differ from executed deltas (executed vs replayed): "+d, wit("full", i))
			return
		}
		c.Count("deltas_compared", int64(len(A.GetDeltas())))
		if d := diffRaw(rawContent(A), rawContent(B)); d != "" {
			c.Violation("C09/full/content-differs/"+p.Policy, "content after replay differs (executed vs replayed): "+d, wit("full", i))
			return
		}
		if A.SizeBytes() != B.SizeBytes() && rs.RealSize(A) == A.SizeBytes() {
			c.Violation("C09/full/size-differs/"+p.Policy, fmt.Sprintf("reported size after replay differs: executed %d replayed %d", A.SizeBytes(), B.SizeBytes()), wit("full", i))
			return
		}
		if len(ops) >= 2 {
			c.Nontrivial(fmt.Sprintf("full|%s|%v|%v", p, gen.DescribeBlocks(p, pre), gen.DescribeBlocks(p, chain[:i+1])))
		}
	}

	for i := range chain {
		C.Reset()
		if err := C.ApplyOps(keptLogs[i]); err != nil {
			c.Violation("C09/retained-log/applyops-error/"+p.String()+"/"+fw.NormalizeMsg(err.Error()), "ApplyOps of a log retained while later blocks executed failed: "+err.Error(), wit("full", i))
			return
		}
		c.Count("blocks_replayed_from_retained_logs", 1)
		if d := deltasDiff(keptDeltas[i], C.GetDeltas()); d != "" {
			c.Violation("C09/retained-log/deltas-differ/"+p.Policy, fmt.Sprintf("block %d of the chain replayed from its log after the later blocks had executed: deltas differ (executed vs replayed): %s", i, d), wit("full", len(chain)-1))
			return
		}
		if d := diffRaw(keptContent[i], rawContent(C)); d != "" {
			c.Violation("C09/retained-log/content-differs/"+p.Policy, fmt.Sprintf("block %d of the chain replayed from its log after the later blocks had executed: content differs (executed vs replayed): %s", i, d), wit("full", len(chain)-1))
			return
		}
	}

	// ---------- partial stores (a segment starts from an empty partial)
	pcfg, _ := rs.NewConfig(p, "p", 0)
	PA := pcfg.NewPartialKV(10, zap.NewNop())
	PB := pcfg.NewPartialKV(10, zap.NewNop())
	for i, ops := range chain {
		if err := rs.RunBlock(p, PA, uint64(10+i), ops); err != nil {
			c.Violation("C09/exec-error/"+p.String()+"/"+fw.NormalizeMsg(err.Error()), "execution failed: "+err.Error(), wit("partial", i))
			return
		}
		log := PA.ReadOps()
		PB.Reset()
		if err := PB.ApplyOps(log); err != nil {
			c.Violation("C09/applyops-error/"+p.String()+"/"+fw.NormalizeMsg(err.Error()), "ApplyOps failed: "+err.Error(), wit("partial", i))
			return
		}
		c.Count("blocks_replayed", 1)
		if d := diffRaw(rawContent(PA), rawContent(PB)); d != "" {
			c.Violation("C09/partial/content-differs/"+p.Policy, "partial content after replay differs (executed vs replayed): "+d, wit("partial", i))
			return
		}
	}
	PA.Reset()
	PB.Reset()
	la, err := rs.SaveLoadPartial(ctx, pcfg, PA, 20)
	if err != nil {
		c.Violation("C09/saveload/"+p.String(), "partial save/load failed: "+err.Error(), nil)
		return
	}
	lb, err := rs.SaveLoadPartial(ctx, pcfg, PB, 20)
	if err != nil {
		c.Violation("C09/saveload/"+p.String(), "partial save/load failed: "+err.Error(), nil)
		return
	}
	if d := diffRaw(rawContent(la), rawContent(lb)); d != "" {
		c.Violation("C09/partial/snapshot-content-differs/"+p.Policy, "saved partial snapshot differs (executed vs replayed): "+d, wit("partial", len(chain)-1))
		return
	}
	pa := append([]string(nil), la.DeletedPrefixes...)
	pb := append([]string(nil), lb.DeletedPrefixes...)
	sort.Strings(pa)
	sort.Strings(pb)
	c.Count("partial_snapshots_compared", 1)
	if fmt.Sprintf("%q", pa) != fmt.Sprintf("%q", pb) {
		c.Violation("C09/partial/snapshot-deleted-prefixes-differ", fmt.Sprintf("deleted prefixes of the saved partial snapshot differ: executed %q replayed %q", pa, pb), wit("partial", len(chain)-1))
		return
	}
	if len(pa) > 0 {
		c.Count("partial_snapshots_with_deleted_prefixes", 1)
	}
	// merging either snapshot into the same full store must give the same typed content
	fa, _ := rs.SaveLoadFull(ctx, cfg, A, 300)
	fb, _ := rs.SaveLoadFull(ctx, cfg, A, 301)
	if fa != nil && fb != nil {
		ea, eb := fa.Merge(la), fb.Merge(lb)
		if (ea == nil) != (eb == nil) {
			c.Violation("C09/partial/merge-error-differs/"+p.Policy, fmt.Sprintf("merge of executed snapshot: %v; of replayed snapshot: %v", ea, eb), wit("partial", len(chain)-1))
			return
		}
		if ea == nil {
			if d := diffRaw(rawContent(fa), rawContent(fb)); d != "" {
				c.Violation("C09/partial/merged-content-differs/"+p.Policy, "full store after merging the replayed partial differs from merging the executed partial: "+d, wit("partial", len(chain)-1))
				return
			}
		}
	}
	nOps := 0
	for _, ops := range chain {
		nOps += len(ops)
	}
	if nOps >= 2 {
		c.Nontrivial(fmt.Sprintf("partial|%s|%v", p, gen.DescribeBlocks(p, chain)))
	}
	c.Distinct("pairs", p.String())
	if c.WantSample() {
		c.Sample(wit("full+partial", len(chain)-1))
	}
}
