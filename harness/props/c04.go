package props

import (
	"bytes"
	"fmt"
	"os"
	"strings"
	"time"

	"github.com/streamingfast/bstream"

	"verif/harness/fw"
	"verif/harness/gen"
	"verif/harness/sim"
)

// C04: each requested block delivered once, in order; streams resume from cursors.

func init() {
	fw.Register(&fw.Spec{
		ID:    "C04",
		Level: "exploration",
		Rule: "case = one generated package x segment size 2..12 x one base tier1 request (mode, start, stop, finality point drawn with a bias to segment boundaries and module initial blocks, 1..5 workers, PRNG job completion order) checked by the stream monitor " +
			"(SessionInit first; every data block in [start,stop); strictly increasing, no duplicate; no gap from the hand-off on and none at all in development mode; below the hand-off only blocks whose reference output is empty may be missing; cursor designates the message's block; final_block_height <= number; nothing after the call returned), " +
			"then for every k-th delivered final block (k=1 thorough, k=3 quick) a NEW request from that block's cursor with the same stop, once on the same cache and once on an empty cache: it must resolve to block+1 and deliver exactly the non-empty messages that followed in the original stream, under the same stream clauses. " +
			"live tail (the last cases: quick 6, thorough 300): a production-mode request that runs ~130 blocks + 4 segments beyond the finality point known at its start on a live chain (every block arrives as new and becomes final 1..6 blocks later through a plain irreversible signal; real gRPC tier2): the stream never stalls, all clauses above hold, every store read and every file left behind - those of the live back-filler's background segment jobs included - equal the reference. " +
			"non-trivial = resumption whose original suffix contains a non-empty payload and crosses or starts below the hand-off; distinct by hash of (package, request, cursor position, cache kind)",
		Assumptions: []string{"payload expectations come from REF-LINEAR (see C01)", "fork-free chain; only cursors of final blocks are used, as the property states"},
		Cases: func(tier, mode string) int {
			return c04BaseCases(tier) + c04LiveCases(tier)
		},
		CaseTimeout:   240e9,
		MinNontrivial: 20,
		Run:           runC04,
	})
}

func c04BaseCases(tier string) int {
	if tier == "thorough" {
		return 2400
	}
	return 64
}

func c04LiveCases(tier string) int {
	if tier == "thorough" {
		return 300
	}
	return 6
}

func runC04(c *fw.Case) {
	if c.Index >= c04BaseCases(c.Tier) {
		runLiveTail(c, "C04")
		return
	}
	if c.Index%8 == 7 { // compiled packages under wazero: slow jobs, other timing between walker and scheduler
		runCompiledScenario(c, "C04")
		return
	}
	s := newScen(c, gen.PkgOpts{FSBProb: 0.2})
	defer s.close()
	outs := s.outputs()
	if c.Violated() || len(outs) == 0 {
		c.Count("packages_without_visible_output", 1)
		return
	}
	out := outs[c.R.Intn(len(outs))]
	ref := s.ref(out)
	base := s.genRequest(out)
	// make the base request long enough to have positions to resume from
	if base.Stop < uint64(base.Start)+4 && uint64(base.Start)+4 <= s.H {
		base.Stop = uint64(base.Start) + 4 + uint64(c.R.Intn(int(s.H-uint64(base.Start)-3)))
	}
	if c.Index%8 == 3 || c.Index%8 == 5 { // final_blocks_only requests, half of them in development mode (linear from the start block)
		base.FinalBlocksOnly = true
		base.Final = s.cl.Head
		base.Prod = c.Index%8 == 3
	}
	if pl, err := s.cl.PlanFor(base); err == nil && pl.KnownHangShape() {
		c.Count("requests_with_known_hang_shape_skipped", 1)
		return
	}
	res := s.cl.Run(base)
	extra := map[string]any{"base_request": base, "jobs": res.Jobs}
	c.Count("base_requests", 1)
	if base.FinalBlocksOnly {
		c.Count("base_requests_final_blocks_only", 1)
	}
	if base.Preload {
		c.Count("base_requests_with_walker_preload", 1)
	}
	if res.Stuck {
		c.Violation("C04/liveness/request-stuck-no-job-in-flight", "the base request made no progress for 45 s with no tier2 job in flight", s.witness(extra))
		return
	}
	if res.Err != nil {
		c.Violation("C04/request-failed/"+fw.NormalizeMsg(res.Err.Error()), "a valid request failed: "+res.Err.Error(), s.witness(extra))
		return
	}
	fs, facts := sim.CheckStream(res, ref, false)
	s.report("C04", fs, extra)
	c.Count("data_messages_checked", int64(facts.Data))
	c.Count("cursors_decoded", int64(facts.CursorsOK))
	if c.Violated() {
		return
	}
	c.Distinct("handoff_positions", fmt.Sprintf("%d/%d/%d", (facts.Handoff-facts.Start)%s.seg, facts.Handoff%s.seg, s.seg))
	data := res.Data()
	step := 3
	if c.Tier == "thorough" {
		step = 1
	}
	off := c.R.Intn(step)
	for i := off; i < len(data)-1; i += step {
		d := data[i]
		cur, err := bstream.CursorFromOpaque(d.Cursor)
		if err != nil || !cur.IsOnFinalBlock() {
			continue
		}
		for _, cacheKind := range []string{"same-cache", "empty-cache"} {
			cl := s.cl
			if cacheKind == "empty-cache" {
				dir, _ := os.MkdirTemp(os.Getenv("VH_SCRATCH"), "st2-")
				defer os.RemoveAll(dir)
				cl = sim.NewCluster(dir, s.seg, s.cl.Head)
				cl.FirstStreamable = s.fsb
			}
			rq := base
			rq.Cursor = d.Cursor
			rq.OrderSeed = 1 + c.R.Int63n(1<<40)
			rq.Workers = 1 + c.R.Intn(4)
			if pl, err := cl.PlanFor(rq); err == nil && pl.KnownHangShape() {
				rq.StuckAfter = 3 * time.Second
			}
			rr := cl.Run(rq)
			c.Count("resumptions", 1)
			ex := map[string]any{"base_request": base, "resumed_from_block": d.Num, "cache": cacheKind, "resumed_request": rq, "jobs": rr.Jobs}
			if rr.Stuck {
				if rq.StuckAfter != 0 {
					c.Count("known_hang_shape_stuck", 1)
					continue
				}
				c.Violation("C04/liveness/request-stuck-no-job-in-flight", "the resumed request made no progress for 45 s with no tier2 job in flight", s.witness(ex))
				return
			}
			if rr.Err != nil {
				if rq.StuckAfter != 0 && strings.Contains(rr.Err.Error(), "building wasm module tree: store") && strings.Contains(rr.Err.Error(), "not found") {
					// second manifestation of the recorded finding C05/stage-index-shift (see c01.go)
					c.Violation("C04/stage-index-shift/linear-part-store-not-found", "resumed request of the recorded stage-index-shift shape whose outputs were already cached: the linear part fails: "+rr.Err.Error(), s.witness(ex))
					return
				}
				c.Violation("C04/resume/request-failed/"+fw.NormalizeMsg(rr.Err.Error()), fmt.Sprintf("request resumed from the cursor of final block %d failed: %v", d.Num, rr.Err), s.witness(ex))
				return
			}
			sess := rr.Session()
			if sess == nil || sess.ResolvedStartBlock != d.Num+1 {
				c.Violation("C04/resume/wrong-start", fmt.Sprintf("cursor of final block %d resolved to start block %v, expected %d", d.Num, sess, d.Num+1), s.witness(ex))
				return
			}
			fs, rfacts := sim.CheckStream(rr, ref, false)
			s.report("C04/resume", fs, ex)
			if c.Violated() {
				return
			}
			// exactly the (non-empty) messages that followed in the original stream
			var want, got []sim.DataMsg
			for _, o := range data[i+1:] {
				if len(o.Payload) > 0 {
					want = append(want, o)
				}
			}
			for _, g := range rr.Data() {
				if len(g.Payload) > 0 {
					got = append(got, g)
				}
			}
			if len(want) != len(got) {
				c.Violation("C04/resume/suffix-differs", fmt.Sprintf("resumed from block %d (%s): %d non-empty messages, the original stream had %d after that block", d.Num, cacheKind, len(got), len(want)), s.witness(ex))
				return
			}
			for j := range want {
				if want[j].Num != got[j].Num || want[j].ID != got[j].ID || !bytes.Equal(want[j].Payload, got[j].Payload) {
					c.Violation("C04/resume/suffix-differs", fmt.Sprintf("resumed from block %d (%s): message %d is block %d %q, original had block %d %q", d.Num, cacheKind, j, got[j].Num, got[j].Payload, want[j].Num, want[j].Payload), s.witness(ex))
					return
				}
			}
			c.Count("resumed_messages_compared", int64(len(got)))
			if len(want) > 0 && d.Num+1 <= facts.Handoff {
				c.Nontrivial(fmt.Sprintf("%v|%d|%+v|%d|%s", s.pkg.Describe(), s.seg, base, d.Num, cacheKind))
			}
			_ = rfacts
		}
	}
	if c.WantSample() {
		c.Sample(s.witness(map[string]any{"base_request": base, "session": fmt.Sprint(res.Session()), "delivered_blocks": len(data)}))
	}
}

// runCursorResume: resumption from the cursor of a delivered NON-final block of the same (canonical) chain. The request must
// resolve to block+1 without an undo signal and deliver exactly the messages that followed in the original stream: the stores
// the linear part starts from must hold everything up to the cursor's block although nothing between the hand-off and the
// start block is streamed. Reported under prop (C12: resolution and planning for every cursor shape).
func runCursorResume(c *fw.Case, prop string) {
	s := newScen(c, gen.PkgOpts{NoIndex: c.R.Intn(2) == 0})
	defer s.close()
	outs := s.outputs()
	if c.Violated() || len(outs) == 0 {
		c.Count("packages_without_visible_output", 1)
		return
	}
	out := outs[c.R.Intn(len(outs))]
	ref := s.ref(out)
	base := s.genRequest(out)
	base.FinalBlocksOnly = false
	if base.Stop == 0 {
		base.Stop = s.H
	}
	if base.Stop < uint64(base.Start)+5 && uint64(base.Start)+5 <= s.H {
		base.Stop = uint64(base.Start) + 5 + uint64(c.R.Intn(int(s.H-uint64(base.Start)-4)))
	}
	// finality point somewhere inside (or below) the requested range so that part of the stream is not final
	lo := uint64(0)
	if uint64(base.Start) > 3 {
		lo = uint64(base.Start) - 3
	}
	base.Final = lo + uint64(c.R.Intn(int(base.Stop-lo)))
	if c.R.Intn(2) == 0 {
		// finality point in the segment in which the lowest module starts: nothing can be back-processed in whole segments,
		// the linear part must run silently from the hand-off up to the cursor's block
		low := s.pkg.Init[out]
		for _, v := range s.pkg.Init {
			if v < low {
				low = v
			}
		}
		base.Final = low + uint64(c.R.Intn(int(s.seg-low%s.seg)))
		c.Count("base_requests_with_final_block_in_first_segment", 1)
	}
	if base.Final == 0 {
		base.Final = 1
	}
	if pl, err := s.cl.PlanFor(base); err != nil || pl.KnownHangShape() {
		c.Count("requests_with_known_hang_shape_skipped", 1)
		return
	}
	res := s.cl.Run(base)
	c.Count("cursor_resume_base_requests", 1)
	_ = res.Jobs
	if res.Stuck || res.Err != nil {
		c.Count("base_request_failed_not_decided_here", 1)
		c.Logf("base request failed: stuck=%v err=%v", res.Stuck, res.Err)
		return
	}
	if fs, _ := sim.CheckStream(res, ref, false); len(fs) > 0 {
		c.Count("base_request_stream_anomaly_not_decided_here", 1)
		return
	}
	data := res.Data()
	for i := 0; i < len(data)-1; i++ {
		d := data[i]
		cur, err := bstream.CursorFromOpaque(d.Cursor)
		if err != nil || cur.IsOnFinalBlock() || c.R.Intn(2) == 0 {
			continue
		}
		for _, cacheKind := range []string{"same-cache", "empty-cache"} {
			cl := s.cl
			if cacheKind == "empty-cache" {
				dir, _ := os.MkdirTemp(os.Getenv("VH_SCRATCH"), "st3-")
				defer os.RemoveAll(dir)
				cl = sim.NewCluster(dir, s.seg, s.cl.Head)
			}
			rq := base
			rq.Cursor = d.Cursor
			rq.OrderSeed = 1 + c.R.Int63n(1<<40)
			rq.Workers = 1 + c.R.Intn(4)
			if pl, err := cl.PlanFor(rq); err != nil || pl.KnownHangShape() {
				continue
			}
			rr := cl.Run(rq)
			c.Count("resumptions_from_non_final_cursor", 1)
			ex := map[string]any{"base_request": base, "resumed_from_block": d.Num, "cursor": cur.String(), "cache": cacheKind, "resumed_request": rq, "jobs": rr.Jobs}
			if rr.Stuck {
				c.Violation(prop+"/cursor-resume/request-stuck", "the request resumed from a non-final cursor made no progress for 45 s with no tier2 job in flight", s.witness(ex))
				return
			}
			if rr.Err != nil {
				c.Violation(prop+"/cursor-resume/request-failed/"+fw.NormalizeMsg(rr.Err.Error()), fmt.Sprintf("request resumed from the cursor of non-final block %d failed: %v", d.Num, rr.Err), s.witness(ex))
				return
			}
			for _, resp := range rr.Responses {
				if u := resp.GetBlockUndoSignal(); u != nil {
					c.Violation(prop+"/cursor-resume/undo-without-fork", fmt.Sprintf("cursor of canonical block %d produced an undo signal %v", d.Num, u), s.witness(ex))
					return
				}
			}
			sess := rr.Session()
			if sess == nil || sess.ResolvedStartBlock != d.Num+1 {
				c.Violation(prop+"/cursor-resume/wrong-start", fmt.Sprintf("cursor of non-final block %d resolved to start block %v, expected %d", d.Num, sess, d.Num+1), s.witness(ex))
				return
			}
			if sess.LinearHandoffBlock > sess.ResolvedStartBlock {
				c.Violation(prop+"/cursor-resume/handoff-above-start", fmt.Sprintf("cursor of non-final block %d: hand-off %d above the resolved start %d although the start block is not final", d.Num, sess.LinearHandoffBlock, sess.ResolvedStartBlock), s.witness(ex))
				return
			}
			fs, _ := sim.CheckStream(rr, ref, false)
			s.report(prop+"/cursor-resume", fs, ex)
			rf, compared, _ := sim.CheckReads(rr.Execs, ref)
			s.report(prop+"/cursor-resume", rf, ex)
			c.Count("store_reads_compared", int64(compared))
			if c.Violated() {
				return
			}
			want, got := data[i+1:], rr.Data()
			if len(want) != len(got) {
				c.Violation(prop+"/cursor-resume/suffix-differs", fmt.Sprintf("resumed from non-final block %d (%s): %d messages, the original stream had %d after that block", d.Num, cacheKind, len(got), len(want)), s.witness(ex))
				return
			}
			for j := range want {
				if want[j].Num != got[j].Num || want[j].ID != got[j].ID || !bytes.Equal(want[j].Payload, got[j].Payload) {
					c.Violation(prop+"/cursor-resume/suffix-differs", fmt.Sprintf("resumed from non-final block %d (%s): message %d is block %d %q, original had block %d %q", d.Num, cacheKind, j, got[j].Num, got[j].Payload, want[j].Num, want[j].Payload), s.witness(ex))
					return
				}
			}
			c.Count("resumed_messages_compared", int64(len(got)))
			if sess.LinearHandoffBlock < sess.ResolvedStartBlock && len(rr.Execs) > 0 {
				c.Nontrivial(fmt.Sprintf("cursor|%v|%d|%+v|%d|%s", s.pkg.Describe(), s.seg, base, d.Num, cacheKind))
			}
		}
	}
	// the cursor of the LAST block before the stop block leaves an empty range: the server must refuse it (it does so for a
	// plain request whose start equals its stop), not answer with an empty success
	if len(data) > 0 && data[len(data)-1].Num+1 == base.Stop {
		rq := base
		rq.Cursor = data[len(data)-1].Cursor
		rr := s.cl.Run(rq)
		c.Count("resumptions_from_the_last_block_before_stop", 1)
		if rr.Err == nil && !rr.Stuck {
			c.Violation(prop+"/cursor-resume/empty-range-accepted", fmt.Sprintf("request resumed from the cursor of block %d with stop block %d (nothing left to stream) was answered with a success and %d data messages instead of the 'start block and stop block are the same' error", data[len(data)-1].Num, base.Stop, len(rr.Data())), s.witness(map[string]any{"base_request": base}))
			return
		}
	}
	// a resumption is resolved from its cursor: the start_block_num left over in the request (here: equal to the stop block)
	// must not make the server refuse it
	if len(data) > 2 {
		d := data[len(data)/2]
		rq := base
		rq.Cursor = d.Cursor
		rq.Start = int64(base.Stop)
		if pl, err := s.cl.PlanFor(rq); err == nil && !pl.KnownHangShape() {
			rr := s.cl.Run(rq)
			c.Count("resumptions_with_leftover_start_equal_to_stop", 1)
			if rr.Err != nil && !rr.Stuck {
				c.Violation(prop+"/cursor-resume/valid-resumption-refused/"+fw.NormalizeMsg(rr.Err.Error()), fmt.Sprintf("request resumed from the cursor of block %d (stop block %d) was refused because of its left-over start_block_num %d: %v", d.Num, base.Stop, rq.Start, rr.Err), s.witness(map[string]any{"base_request": base}))
				return
			}
			if rr.Err == nil {
				if sess := rr.Session(); sess == nil || sess.ResolvedStartBlock != d.Num+1 {
					c.Violation(prop+"/cursor-resume/wrong-start", fmt.Sprintf("cursor of block %d with a left-over start_block_num resolved to %v, expected %d", d.Num, sess, d.Num+1), s.witness(map[string]any{"base_request": base}))
					return
				}
			}
		}
	}
	if c.WantSample() {
		c.Sample(s.witness(map[string]any{"base_request": base, "kind": "cursor-resume", "delivered_blocks": len(data)}))
	}
}
