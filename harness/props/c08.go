package props

import (
	"bytes"
	"context"
	"fmt"
	"sort"

	pbsubstreams "github.com/streamingfast/substreams/pb/sf/substreams/v1"
	"github.com/streamingfast/substreams/storage/store"
	"go.uber.org/zap"

	"verif/harness/fw"
	"verif/harness/gen"
	"verif/harness/model"
	"verif/harness/rs"
	"verif/harness/sim"
)

// C08: store reads honour ordinals; deltas are consistent.

func init() {
	fw.Register(&fw.Spec{
		ID:    "C08",
		Level: "exploration",
		Rule: "case = one (policy,value type) pair x one PRNG chain of blocks (0..6 host-call ops each, ordinals 0..5 repeated / non-monotonic, delete_prefix mixed in) executed on a real FullKV and on a real PartialKV through wasm.Call.Do*; " +
			"after every Flush every key of the key space (plus an unused key) is read at every ordinal 0..max+1 with get_first/get_last/get_at/has_first/has_last/has_at through wasm.Call.DoGet*/DoHas* and compared with the model; deltas are replayed on the pre-block content. " +
			"end-to-end part (the last cases: quick 160, thorough 12 000): generated packages in which 60 % of the modules (stores included) carry a block filter, so that stores are skipped on many blocks, or have all their inputs skipped, or are replayed from cached outputs; one development-mode and one production-mode request; every get_first / get_last / get_at / has_* a module performs through the host interface (recorded by the native runtime) must return what the same call returns in the sequential reference - in particular a store that did not run on a block shows no writes of an earlier block at any ordinal. " +
			"non-trivial = block with >=2 ops on one key at different ordinals or a delete_prefix hitting a live key; distinct by hash of (pair, pre-state, ops)",
		Assumptions: []string{
			"the store model (harness/model/store.go) is the statement of ordinal semantics: stable sort by ordinal, get_at(ord) = value after all ops with ordinal <= ord",
			"exact numeric operands (see C02)",
		},
		Cases: func(tier, mode string) int {
			return c08StoreCases(tier) + c08E2ECases(tier)
		},
		CaseTimeout:   240e9,
		MinNontrivial: 100,
		Run:           runC08,
	})
}

func rawContent(st store.Store) map[string][]byte {
	out := map[string][]byte{}
	st.Iter(func(k string, v []byte) error { out[k] = append([]byte(nil), v...); return nil })
	return out
}

func c08StoreCases(tier string) int {
	if tier == "thorough" {
		return len(model.Pairs()) * 8000
	}
	return len(model.Pairs()) * 12
}

func c08E2ECases(tier string) int {
	if tier == "thorough" {
		return 12000
	}
	return 160
}

// runC08E2E: ordinal reads as modules perform them inside the real pipeline, with stores that often do NOT run on a block.
func runC08E2E(c *fw.Case) {
	// half of the packages: every store uses delete_prefix on one tag (segments in which a store only deletes do occur)
	s := newScen(c, gen.PkgOpts{MaxMods: 7, FilterProb: 0.6, IndexProb: 0.25, ForceDelete: c.Index%2 == 0, MaxSeg: []int{0, 3, 4}[c.Index%3]})
	defer s.close()
	outs := s.outputs()
	if c.Violated() || len(outs) == 0 {
		c.Count("packages_without_visible_output", 1)
		return
	}
	out := outs[c.R.Intn(len(outs))]
	ref := s.ref(out)
	for _, prod := range []bool{false, true} {
		req := s.genRequest(out)
		req.Prod = prod
		req.FinalBlocksOnly = false
		if pl, err := s.cl.PlanFor(req); err != nil || pl.KnownHangShape() {
			continue
		}
		res := s.cl.Run(req)
		c.Count("e2e_requests", 1)
		if res.Err != nil || res.Stuck {
			c.Count("e2e_requests_failed_not_decided_here", 1)
			c.Logf("request failed (decided by C01): stuck=%v err=%v", res.Stuck, res.Err)
			continue
		}
		rf, compared, execs := sim.CheckReads(res.Execs, ref)
		s.report("C08/e2e", rf, map[string]any{"request": req, "jobs": res.Jobs})
		c.Count("e2e_store_reads_compared", int64(compared))
		c.Count("e2e_module_executions_observed", int64(execs))
		if c.Violated() {
			return
		}
		if compared > 0 {
			c.Nontrivial(fmt.Sprintf("e2e|%v|%+v", s.pkg.Describe(), req))
		}
	}
}

func runC08(c *fw.Case) {
	if c.Index >= c08StoreCases(c.Tier) {
		runC08E2E(c)
		return
	}
	pairs := model.Pairs()
	p := pairs[c.Index%len(pairs)]
	g := gen.NewStoreOps(c.R, p)
	g.AllowAll = c.R.Intn(5) == 0
	nBlocks := 5
	cfg, _ := rs.NewConfig(p, "s", 0)
	full := cfg.NewFullKV(zap.NewNop())
	partial := cfg.NewPartialKV(0, zap.NewNop())
	for _, target := range []struct {
		name string
		st   store.Store
	}{{"full", full}, {"partial", partial}} {
		M := model.NewStore(p)
		var history [][]model.Op
		for b := 0; b < nBlocks; b++ {
			ops := g.Block(6)
			if c.R.Intn(5) == 0 { // a big block with few distinct ordinals: ties among many operations
				save := g.MaxOrd
				g.MaxOrd = 1 + c.R.Intn(2)
				ops = nil
				for len(ops) < 14+c.R.Intn(20) {
					ops = append(ops, g.Op())
				}
				g.MaxOrd = save
				c.Count("big_blocks", 1)
			}
			if b > 0 && c.R.Intn(3) == 0 { // the engine executes blocks on stores just loaded from a snapshot file (tier2 jobs)
				target.st.Reset()
				if fk, ok := target.st.(*store.FullKV); ok {
					if nf, err := rs.SaveLoadFull(context.Background(), cfg, fk, uint64(1000+b)); err == nil {
						target.st = nf
						c.Count("reloads_from_snapshot", 1)
					}
				}
			}
			history = append(history, ops)
			pre := rawContent(target.st)
			if err := rs.RunBlock(p, target.st, uint64(b), ops); err != nil {
				c.Violation("C08/flush-error/"+p.String()+"/"+fw.NormalizeMsg(err.Error()), "Flush failed: "+err.Error(), witness(p, history, nil))
				return
			}
			blk := M.ApplyBlock(ops)
			wit := func() map[string]any {
				return map[string]any{"pair": p.String(), "store": target.name, "blocks_so_far": gen.DescribeBlocks(p, history)}
			}

			// --- reads through the host interface
			rc := rs.NewReaderCall(uint64(b), target.st)
			keys := append(append([]string(nil), gen.Keys...), "unused")
			maxOrd := blk.MaxOrd() + 1
			cmp := func(op string, ord uint64, key string, raw []byte, found bool, mv model.Val, mfound bool) bool {
				c.Count("reads_compared", 1)
				if found != mfound {
					c.Violation(fmt.Sprintf("C08/%s/found-mismatch/%s", op, p.Policy), fmt.Sprintf("%s(ord=%d,key=%q) on %s store: found=%v, model found=%v", op, ord, key, target.name, found, mfound), wit())
					return false
				}
				if !found {
					return true
				}
				tv, err := rs.Typed(p, raw)
				if err != nil {
					c.Violation(fmt.Sprintf("C08/%s/untyped-value/%s", op, p.String()), fmt.Sprintf("%s(ord=%d,key=%q) returned %q which is not a %s: %v", op, ord, key, raw, p.VT, err), wit())
					return false
				}
				if !tv.Equal(mv) {
					c.Violation(fmt.Sprintf("C08/%s/value-mismatch/%s", op, p.Policy), fmt.Sprintf("%s(ord=%d,key=%q) on %s store = %s, model = %s", op, ord, key, target.name, tv, mv), wit())
					return false
				}
				return true
			}
			ok := true
			for _, k := range keys {
				raw, f := rc.DoGetFirst(0, k)
				mv, mf := blk.GetFirst(k)
				ok = cmp("get_first", 0, k, raw, f, mv, mf) && ok
				if hf := rc.DoHasFirst(0, k); hf != f {
					c.Violation("C08/has_first/disagrees-with-get/"+p.Policy, fmt.Sprintf("has_first(%q)=%v but get_first found=%v", k, hf, f), wit())
					ok = false
				}
				raw, f = rc.DoGetLast(0, k)
				mv, mf = blk.GetLast(k)
				ok = cmp("get_last", 0, k, raw, f, mv, mf) && ok
				if hl := rc.DoHasLast(0, k); hl != f {
					c.Violation("C08/has_last/disagrees-with-get/"+p.Policy, fmt.Sprintf("has_last(%q)=%v but get_last found=%v", k, hl, f), wit())
					ok = false
				}
				for ord := uint64(0); ord <= maxOrd; ord++ {
					raw, f = rc.DoGetAt(0, ord, k)
					mv, mf = blk.GetAt(ord, k)
					ok = cmp("get_at", ord, k, raw, f, mv, mf) && ok
					ha := rc.DoHasAt(0, ord, k)
					c.Count("reads_compared", 1)
					if ha != f {
						c.Violation("C08/has_at/disagrees-with-get_at", fmt.Sprintf("has_at(ord=%d,key=%q)=%v but get_at found=%v (model found=%v) on %s store", ord, k, ha, f, mf, target.name), wit())
						ok = false
					}
				}
				if !ok {
					break
				}
			}
			if !ok {
				return
			}

			// --- deltas replayed on the pre-block content
			cur := pre
			for i, d := range target.st.GetDeltas() {
				c.Count("deltas_checked", 1)
				old, had := cur[d.Key]
				switch d.Operation {
				case pbsubstreams.StoreDelta_CREATE:
					if had {
						c.Violation("C08/delta/create-on-existing", fmt.Sprintf("delta %d CREATE of existing key %q", i, d.Key), wit())
						return
					}
					cur[d.Key] = d.NewValue
				case pbsubstreams.StoreDelta_UPDATE:
					if !had || !bytes.Equal(old, d.OldValue) {
						c.Violation("C08/delta/old-value", fmt.Sprintf("delta %d UPDATE key %q old_value=%q but value just before was %q (present=%v)", i, d.Key, d.OldValue, old, had), wit())
						return
					}
					cur[d.Key] = d.NewValue
				case pbsubstreams.StoreDelta_DELETE:
					if !had || !bytes.Equal(old, d.OldValue) {
						c.Violation("C08/delta/old-value", fmt.Sprintf("delta %d DELETE key %q old_value=%q but value just before was %q (present=%v)", i, d.Key, d.OldValue, old, had), wit())
						return
					}
					delete(cur, d.Key)
				default:
					c.Violation("C08/delta/unset-operation", fmt.Sprintf("delta %d has operation %v", i, d.Operation), wit())
					return
				}
				if i > 0 && target.st.GetDeltas()[i-1].Ordinal > d.Ordinal {
					c.Violation("C08/delta/ordinal-order", fmt.Sprintf("delta %d has ordinal %d after ordinal %d", i, d.Ordinal, target.st.GetDeltas()[i-1].Ordinal), wit())
					return
				}
			}
			post := rawContent(target.st)
			if d := diffRaw(cur, post); d != "" {
				c.Violation("C08/delta/replay-differs", "deltas applied to pre-block content differ from post-block content: "+d, wit())
				return
			}

			// non-triviality
			perKeyOrds := map[string]map[uint64]bool{}
			nt := false
			for _, op := range ops {
				if op.Delete {
					for k := range blk.Pre {
						if len(k) >= len(op.Key) && k[:len(op.Key)] == op.Key {
							nt = true
						}
					}
					continue
				}
				if perKeyOrds[op.Key] == nil {
					perKeyOrds[op.Key] = map[uint64]bool{}
				}
				perKeyOrds[op.Key][op.Ord] = true
				if len(perKeyOrds[op.Key]) >= 2 {
					nt = true
				}
			}
			if nt {
				c.Nontrivial(fmt.Sprintf("%s|%s|%v|%v", p, target.name, sortedPre(blk.Pre), gen.DescribeOps(p, ops)))
			}
		}
		if c.WantSample() {
			c.Sample(map[string]any{"pair": p.String(), "store": target.name, "blocks": gen.DescribeBlocks(p, history)})
		}
	}
	// ---- reads right after a merge: the full store stands between two blocks, it has no intra-block history, so every
	// ordinal read of a key must return its current value (a squashed store is handed to the linear pipeline in this state and
	// is read before - or without - being written)
	for round := 0; round < 2; round++ {
		seg := cfg.NewPartialKV(1000+uint64(round)*10, zap.NewNop())
		var ops []model.Op
		if round == 0 || c.R.Intn(2) == 0 { // a segment that only deletes
			ops = []model.Op{{Ord: uint64(c.R.Intn(4)), Delete: true, Key: gen.Prefixes[c.R.Intn(len(gen.Prefixes))]}}
		} else {
			ops = g.Block(6)
		}
		if err := rs.RunBlock(p, seg, 1000+uint64(round)*10, ops); err != nil {
			return
		}
		seg.Reset()
		loaded, err := rs.SaveLoadPartial(context.Background(), cfg, seg, 1010+uint64(round)*10)
		if err != nil {
			return
		}
		before := rawContent(full)
		if err := full.Merge(loaded); err != nil {
			c.Violation("C08/after-merge/merge-error/"+p.String(), "merge failed: "+err.Error(), map[string]any{"segment_ops": gen.DescribeOps(p, ops)})
			return
		}
		c.Count("merges_followed_by_reads", 1)
		for _, k := range gen.Keys {
			last, fl := full.GetLast(k)
			first, ff := full.GetFirst(k)
			at, fa := full.GetAt(uint64(c.R.Intn(6)), k)
			if ff != fl || fa != fl || !bytes.Equal(first, last) || !bytes.Equal(at, last) || full.HasFirst(k) != fl || full.HasLast(k) != fl {
				_, was := before[k]
				c.Violation("C08/after-merge/reads-disagree/"+p.Policy, fmt.Sprintf("right after merging a segment (no operation of the next block yet) key %q reads get_first=%q,%v get_at=%q,%v get_last=%q,%v (key present before the merge: %v)", k, first, ff, at, fa, last, fl, was),
					map[string]any{"pair": p.String(), "segment_ops": gen.DescribeOps(p, ops)})
				return
			}
		}
	}
	c.Distinct("pairs", p.String())
}

func sortedPre(m map[string]model.Val) []string {
	var out []string
	for k, v := range m {
		out = append(out, k+"="+v.String())
	}
	sort.Strings(out)
	return out
}

func diffRaw(a, b map[string][]byte) string {
	for k, va := range a {
		vb, ok := b[k]
		if !ok {
			return fmt.Sprintf("key %q: %q vs absent", k, va)
		}
		if !bytes.Equal(va, vb) {
			return fmt.Sprintf("key %q: %q vs %q", k, va, vb)
		}
	}
	for k, vb := range b {
		if _, ok := a[k]; !ok {
			return fmt.Sprintf("key %q: absent vs %q", k, vb)
		}
	}
	return ""
}
