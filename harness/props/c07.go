package props

import (
	"fmt"
	"math/rand"
	"os"
	"path/filepath"
	"sort"
	"strings"
	"sync"
	"time"

	pbsubstreams "github.com/streamingfast/substreams/pb/sf/substreams/v1"

	"verif/harness/fw"
	"verif/harness/gen"
	"verif/harness/native"
	"verif/harness/sim"
)

// C07: results do not depend on which cache files exist.

const c07Chunk = 64

type c07Dom struct {
	graphs  int // exhaustive graphs
	maxN    int // universe size bound for exhaustive graphs
	sampled int // extra PRNG-sampled cases on bigger universes
}

func c07Domain(tier string) c07Dom {
	if tier == "thorough" {
		return c07Dom{graphs: 4, maxN: 13, sampled: 300} // ~33 000 exhaustive subset runs + ~5 000 sampled: about an hour on 16 cores
	}
	return c07Dom{graphs: 2, maxN: 10, sampled: 24}
}

func init() {
	fw.Register(&fw.Spec{
		ID:    "C07",
		Level: "fault_enumeration",
		Rule: "golden = clean production run of request R on an empty cache; universe U = every durable file it left (full store snapshots, cached outputs, index files) + the partial store file of every (store stage, segment) unit, obtained from stand-alone tier2 jobs. " +
			"exhaustive part: for G generated (package, R) pairs with |U| <= N (quick G=2,N=10; thorough G=4,N=13) EVERY subset S of U is restored into a fresh directory (a quarter of them with truncated '<file>.<8 letters>.tmp' siblings of missing files added) and R is run again (1..4 workers, PRNG completion order); " +
			"sampled part: PRNG subsets of larger universes, a shifted request R', and real interruption states (request cancelled after the k-th data message, then re-run). Monitors per run: request completes; stream == sequential reference (C01/C04 clauses); every file left behind decodes to the reference content (cache auditor); no '.tmp' name is ever listed as a snapshot. " +
			"concurrent part (mode race; quick 10, thorough 40 cases): 2..3 production requests run CONCURRENTLY on one state directory inside the -race binary, twice; completed requests must stream the reference, every file left behind must decode to the reference content, and the race detector watches the squasher's asynchronous snapshot writes against the next merge. " +
			"mapper-stream part (quick 16, thorough 600): an output module that reads only 2..3 sparse maps (each skips its empty outputs, on different blocks); after a clean run every file of the output module is removed and the request runs again: the segment jobs read no block source, they replay the union of the blocks covered by the maps' cached files; stream and rebuilt files equal the reference. " +
			"live part (last plain cases: quick 4, thorough 200): a production request streaming ~130 blocks + 4 segments of a live chain beyond its hand-off while the tier1's live back-filler has tier2 (real gRPC) compute the segments that became final in the background: same stream and audit monitors on the files those jobs leave. " +
			"non-trivial = subset that is neither empty nor full and for which at least one tier2 job ran; distinct by (graph, subset bitmask)",
		Assumptions: []string{
			"each cache file is a pure function of (module hash, block range), checked by the cache auditor against REF-LINEAR",
			"file writes are atomic (dstore local store: temp file + rename); a half-written file is modelled by the temp sibling the store writes first",
			"requests of the known-finding shape C05/stage-index-shift are not generated (they hang by that recorded defect)",
			"live deletion by a concurrent squasher is out of scope of this enumeration (the property quantifies over states left behind)",
		},
		Cases: func(tier, mode string) int {
			d := c07Domain(tier)
			if mode == "race" {
				if tier == "thorough" {
					return 40
				}
				return 10
			}
			return d.graphs*((1<<d.maxN)/c07Chunk) + d.sampled + c07LiveCases(tier) + c07MapperStreamCases(tier)
		},
		Modes: func(tier string) []string {
			return []string{"plain", "race"}
		},
		Exhaustive:    func(tier string) bool { return false },
		CaseTimeout:   300e9,
		MinNontrivial: 50,
		Run:           runC07,
	})
}

type c07Golden struct {
	s     *scen
	out   string
	req   sim.RequestSpec
	files map[string][]byte // universe: rel path -> bytes
	names []string          // sorted universe
}

// buildGolden generates (package, request) for graph index gi and its universe; ok=false if unusable.
func buildGolden(c *fw.Case, r *rand.Rand, minN, maxN int) (*c07Golden, bool) {
	return buildGoldenOpt(c, r, minN, maxN, false)
}

// buildGoldenOpt: with indexOut the request's output module is a block-index module.
func buildGoldenOpt(c *fw.Case, r *rand.Rand, minN, maxN int, indexOut bool) (*c07Golden, bool) {
	for attempt := 0; attempt < 200; attempt++ {
		cc := *c
		cc.R = r
		opts := gen.PkgOpts{MaxMods: 6, FSBProb: 0.15}
		if indexOut {
			opts.IndexProb = 0.5
		}
		s := newScen(&cc, opts)
		g := &c07Golden{s: s, files: map[string][]byte{}}
		outs := s.outputs()
		if indexOut {
			outs = s.indexOutputs()
		}
		if len(outs) == 0 {
			s.close()
			continue
		}
		g.out = outs[r.Intn(len(outs))]
		req := s.genRequest(g.out)
		req.Prod = true
		req.Final = s.cl.Head
		req.Workers = 2
		pl0, err := s.cl.PlanFor(req)
		if err != nil || pl0.KnownHangShape() || pl0.Plan.WriteExecOut == nil {
			s.close()
			continue
		}
		if indexOut && pl0.Plan.BuildStores == nil && attempt < 150 {
			// an index output module is interesting to the scheduler when stores are built below it
			s.close()
			continue
		}
		res := s.cl.Run(req)
		if res.Stuck || res.Err != nil {
			// the clean run on an empty cache is itself a request of the property's domain: its failure is a finding, not a reason to draw again
			extra := map[string]any{"request": req, "jobs": res.Jobs, "kind": "clean run on an empty cache"}
			if res.Stuck {
				c.Violation(c.Spec.ID+"/liveness/request-stuck-no-job-in-flight", "the clean run on an empty cache made no progress for 45 s with no tier2 job in flight (cancelled by the harness)", s.witness(extra))
			} else {
				c.Violation(c.Spec.ID+"/request-failed/"+fw.NormalizeMsg(res.Err.Error()), "the clean run on an empty cache failed: "+res.Err.Error(), s.witness(extra))
			}
			s.close()
			return nil, false
		}
		if len(res.Jobs) == 0 {
			s.close()
			continue
		}
		// a clean run that ended without error must have written the output module's file of every requested segment
		if missing := missingOutputFiles(pl0, s, g.out, s.cl); len(missing) > 0 {
			c.Violation(c.Spec.ID+"/output-file-missing-after-clean-run", fmt.Sprintf("the clean run on an empty cache ended without error but left no file %v for the output module", missing), s.witness(map[string]any{"request": req, "jobs": res.Jobs}))
			s.close()
			return nil, false
		}
		g.req = req
		root := filepath.Join(s.cl.Dir, s.cl.Tag)
		for _, f := range s.cl.ListCache() {
			if strings.HasSuffix(f.Rel, ".spkg.zst") {
				continue
			}
			b, err := os.ReadFile(filepath.Join(root, f.Rel))
			if err == nil {
				g.files[f.Rel] = b
			}
		}
		// partial files: for each store unit, remove that segment's full snapshots in a scratch copy and run the job alone
		pl, _ := s.cl.PlanFor(req)
		if pl.Plan.BuildStores != nil {
			stages := pl.Graph.StagedUsedModules()
			hashes := pl.Graph.ModuleHashes()
			seg := pl.Plan.StoresSegmenter()
			for si, st := range stages {
				if !st.LastLayer().IsStoreLayer() {
					continue
				}
				for k := seg.FirstIndex(); k <= seg.LastIndex(); k++ {
					rng := seg.Range(k)
					if rng == nil {
						continue
					}
					dir, _ := os.MkdirTemp(os.Getenv("VH_SCRATCH"), "pj-")
					restore(dir, s.cl.Tag, g.files, nil)
					for _, m := range st.LastLayer() {
						h := hashes.Get(m.Name)
						matches, _ := filepath.Glob(filepath.Join(dir, s.cl.Tag, h, "states", fmt.Sprintf("%010d-*.kv.zst", rng.ExclusiveEndBlock)))
						for _, p := range matches {
							os.Remove(p)
						}
					}
					cl2 := sim.NewCluster(dir, s.seg, s.cl.Head)
					cl2.FirstStreamable = s.fsb
					if err := cl2.StandaloneJob(s.pkg.Modules, g.out, si, uint64(k)); err == nil {
						for _, f := range cl2.ListCache() {
							if strings.HasSuffix(f.Rel, ".partial.zst") {
								if b, err := os.ReadFile(filepath.Join(dir, s.cl.Tag, f.Rel)); err == nil {
									g.files[f.Rel] = b
								}
							}
						}
					}
					os.RemoveAll(dir)
				}
			}
		}
		for n := range g.files {
			g.names = append(g.names, n)
		}
		sort.Strings(g.names)
		if len(g.names) < minN || (maxN > 0 && len(g.names) > maxN) {
			s.close()
			continue
		}
		if s.fsb != 0 {
			c.Count("universes_on_a_chain_with_nonzero_first_streamable_block", 1)
		}
		return g, true
	}
	return nil, false
}

// restore writes the chosen files (mask over names; nil = all) into dir/tag.
func restore(dir, tag string, files map[string][]byte, chosen map[string]bool) {
	for rel, b := range files {
		if chosen != nil && !chosen[rel] {
			continue
		}
		p := filepath.Join(dir, tag, rel)
		os.MkdirAll(filepath.Dir(p), 0o755)
		os.WriteFile(p, b, 0o644)
	}
}

func c07LiveCases(tier string) int {
	if tier == "thorough" {
		return 200
	}
	return 4
}

func c07MapperStreamCases(tier string) int {
	if tier == "thorough" {
		return 600
	}
	return 16
}

func runC07(c *fw.Case) {
	if c.Mode == "race" {
		runC07Race(c)
		return
	}
	d := c07Domain(c.Tier)
	if c.Index >= d.graphs*((1<<d.maxN)/c07Chunk)+d.sampled+c07LiveCases(c.Tier) {
		runC07MapperStream(c)
		return
	}
	if c.Index >= d.graphs*((1<<d.maxN)/c07Chunk)+d.sampled {
		// files left behind by the live back-filler's background jobs while a request streams the live part of the chain
		runLiveTail(c, "C07")
		return
	}
	chunks := (1 << d.maxN) / c07Chunk
	exhaustive := c.Index < d.graphs*chunks && c.Mode != "race"
	var gi, chunk int
	var gr *rand.Rand
	maxN, minN := d.maxN, d.maxN-2
	if exhaustive {
		gi, chunk = c.Index/chunks, c.Index%chunks
		gr = fw.CaseRand("C07-graph", c.Tier, "", c.Seed, gi)
	} else {
		gr = c.R
		maxN, minN = 24, 6
	}
	g, ok := buildGolden(c, gr, minN, maxN)
	if !ok {
		c.Count("golden_generation_gave_up", 1)
		return
	}
	s := g.s
	defer s.close()
	s.c = c
	s.r = c.R
	ref := s.ref(g.out)
	n := len(g.names)
	c.Max("universe_size", int64(n))
	c.Distinct("universes", fmt.Sprintf("%v|%+v", s.pkg.Describe(), g.req))

	runSubset := func(mask uint64, req sim.RequestSpec, label string) bool {
		chosen := map[string]bool{}
		var chosenNames []string
		for i, name := range g.names {
			if mask&(1<<uint(i)) != 0 {
				chosen[name] = true
				chosenNames = append(chosenNames, name)
			}
		}
		dir, _ := os.MkdirTemp(os.Getenv("VH_SCRATCH"), "sub-")
		defer os.RemoveAll(dir)
		restore(dir, s.cl.Tag, g.files, chosen)
		var tmps []string
		if c.R.Intn(4) == 0 { // half-written siblings of some missing files
			for _, name := range g.names {
				if !chosen[name] && c.R.Intn(3) == 0 {
					b := g.files[name]
					tmp := strings.TrimSuffix(name, ".zst") + "." + randLetters(c.R, 8) + ".tmp"
					p := filepath.Join(dir, s.cl.Tag, tmp)
					os.MkdirAll(filepath.Dir(p), 0o755)
					os.WriteFile(p, b[:len(b)/2], 0o644)
					tmps = append(tmps, tmp)
				}
			}
		}
		cl := sim.NewCluster(dir, s.seg, s.cl.Head)
		cl.FirstStreamable = s.fsb
		req.Workers = 1 + c.R.Intn(4)
		req.OrderSeed = 1 + c.R.Int63n(1<<40)
		res := cl.Run(req)
		c.Count("subset_runs", 1)
		for _, j := range res.Jobs {
			if j.Retries > 0 {
				c.Count("job_attempts_failed_retryably", int64(j.Retries))
				c.Logf("RETRIED job %+v\n  request=%+v\n  present=%v\n  wall=%s", j, req, chosenNames, res.Wall)
			}
		}
		c.Count("tier2_jobs", int64(len(res.Jobs)))
		extra := map[string]any{"request": req, "universe": g.names, "present_files": chosenNames, "tmp_siblings": tmps, "kind": label, "jobs": res.Jobs}
		if res.Stuck {
			c.Violation("C07/liveness/request-stuck-no-job-in-flight", "request on this cache subset made no progress for 45 s with no job in flight", s.witness(extra))
			return false
		}
		if res.Err != nil {
			c.Violation("C07/request-failed/"+fw.NormalizeMsg(res.Err.Error()), "request failed on this cache subset: "+res.Err.Error(), s.witness(extra))
			return false
		}
		fs, facts := sim.CheckStream(res, ref, false)
		s.report("C07", fs, extra)
		rf, compared, _ := sim.CheckReads(res.Execs, ref)
		s.report("C07", rf, extra)
		c.Count("store_reads_compared", int64(compared))
		c.Count("nonempty_payloads_compared", int64(facts.NonEmpty))
		hf, _ := sim.CheckHandoffStores(res, ref, s.pkg)
		s.report("C07", hf, extra)
		cs := *s
		cs.cl = cl
		af, afacts := cl.AuditCache(ref, s.pkg)
		s.report("C07", af, extra)
		c.Count("files_audited", int64(afacts.KV+afacts.Partial+afacts.Output+afacts.StoreOutput+afacts.Index))
		if c.Violated() {
			return false
		}
		if mask != 0 && mask != (uint64(1)<<uint(n))-1 && len(res.Jobs) > 0 {
			c.Nontrivial(fmt.Sprintf("%v|%+v|%x|%s", s.pkg.Describe(), g.req, mask, label))
		}
		if len(tmps) > 0 {
			c.Count("runs_with_tmp_siblings", 1)
		}
		return true
	}

	if exhaustive {
		total := uint64(1) << uint(n)
		for k := 0; k < c07Chunk; k++ {
			mask := uint64(chunk*c07Chunk + k)
			if mask >= total {
				break
			}
			c.Count("exhaustive_subsets", 1)
			if !runSubset(mask, g.req, "subset") {
				return
			}
		}
		if chunk == 0 && c.WantSample() {
			c.Sample(s.witness(map[string]any{"request": g.req, "universe": g.names}))
		}
		return
	}
	// sampled part: random subsets of a bigger universe, shifted request, interruption states
	for k := 0; k < 12; k++ {
		var mask uint64
		p := []float64{0.2, 0.5, 0.8}[c.R.Intn(3)]
		for i := 0; i < n; i++ {
			if c.R.Float64() < p {
				mask |= 1 << uint(i)
			}
		}
		req := g.req
		label := "sampled-subset"
		if k%3 == 2 { // shifted request R'
			req = s.genRequest(g.out)
			if pl, err := s.cl.PlanFor(req); err != nil || pl.KnownHangShape() {
				continue
			}
			label = "sampled-subset-shifted-request"
		}
		c.Count("sampled_subsets", 1)
		if !runSubset(mask, req, label) {
			return
		}
	}
	// interruption: cancel after the k-th data message, then run again on what was left behind
	for _, k := range []int{1, 2 + c.R.Intn(6)} {
		dir, _ := os.MkdirTemp(os.Getenv("VH_SCRATCH"), "int-")
		cl := sim.NewCluster(dir, s.seg, s.cl.Head)
		cl.FirstStreamable = s.fsb
		rq := g.req
		rq.CancelAfter = k
		rq.OrderSeed = 1 + c.R.Int63n(1<<40)
		r1 := cl.Run(rq)
		left := 0
		for range cl.ListCache() {
			left++
		}
		rq.CancelAfter = 0
		r2 := cl.Run(rq)
		c.Count("interrupted_then_rerun", 1)
		extra := map[string]any{"request": rq, "cancelled_after_messages": k, "files_left_by_interrupted_run": left, "first_err": fmt.Sprint(r1.Err), "kind": "interrupted"}
		if r2.Stuck {
			c.Violation("C07/liveness/request-stuck-no-job-in-flight", "re-run after an interrupted request made no progress", s.witness(extra))
		} else if r2.Err != nil {
			c.Violation("C07/request-failed/"+fw.NormalizeMsg(r2.Err.Error()), "re-run after an interrupted request failed: "+r2.Err.Error(), s.witness(extra))
		} else {
			fs, _ := sim.CheckStream(r2, ref, false)
			s.report("C07", fs, extra)
			af, _ := cl.AuditCache(ref, s.pkg)
			s.report("C07", af, extra)
		}
		os.RemoveAll(dir)
		if c.Violated() {
			return
		}
	}
	if c.WantSample() {
		c.Sample(s.witness(map[string]any{"request": g.req, "universe": g.names, "kind": "sampled"}))
	}
}

func randLetters(r *rand.Rand, n int) string {
	b := make([]byte, n)
	for i := range b {
		b[i] = byte('a' + r.Intn(26))
	}
	return string(b)
}

func genOptsSmall() gen.PkgOpts { return gen.PkgOpts{MaxMods: 6} }

// runC07Race: several requests run CONCURRENTLY on one state directory inside the -race binary.
// Only wrong outputs and non-canonical files are violations; a request that fails because a
// concurrent squasher deleted a partial it had just listed is counted as an observation.
func runC07Race(c *fw.Case) {
	s := newScen(c, gen.PkgOpts{MaxMods: 7})
	defer s.close()
	outs := s.outputs()
	if c.Violated() || len(outs) == 0 {
		c.Count("packages_without_visible_output", 1)
		return
	}
	for round := 0; round < 2; round++ {
		n := 2 + c.R.Intn(2)
		specs := make([]sim.RequestSpec, n)
		results := make([]*sim.Result, n)
		for i := range specs {
			out := outs[c.R.Intn(len(outs))]
			sp := s.genRequest(out)
			sp.Prod = true
			sp.NoExecLog = true
			sp.StuckAfter = 40 * time.Second
			if pl, err := s.cl.PlanFor(sp); err != nil || pl.KnownHangShape() {
				sp.Stop = 0 // marks "skip"
			}
			specs[i] = sp
		}
		var wg sync.WaitGroup
		for i := range specs {
			if specs[i].Stop == 0 {
				continue
			}
			wg.Add(1)
			go func(i int) {
				defer wg.Done()
				results[i] = s.cl.Run(specs[i])
			}(i)
		}
		wg.Wait()
		for i, res := range results {
			if res == nil {
				continue
			}
			c.Count("concurrent_requests", 1)
			extra := map[string]any{"concurrent_requests": specs, "this_request": specs[i]}
			if res.Stuck {
				c.Count("concurrent_requests_stuck_observed", 1)
				continue
			}
			if res.Err != nil {
				c.Count("concurrent_requests_failed_observed", 1)
				c.Distinct("concurrent_failure_kinds", fw.NormalizeMsg(res.Err.Error()))
				fs, _ := sim.CheckStream(res, s.ref(specs[i].Output), true)
				s.report("C07/concurrent", fs, extra)
				continue
			}
			fs, facts := sim.CheckStream(res, s.ref(specs[i].Output), false)
			s.report("C07/concurrent", fs, extra)
			if facts.NonEmpty > 0 {
				c.Nontrivial(fmt.Sprintf("%v|%+v|%d", s.pkg.Describe(), specs[i], round))
			}
		}
		if c.Violated() {
			return
		}
	}
	time.Sleep(20 * time.Millisecond)
	for out, ref := range s.refs {
		if ref == nil {
			continue
		}
		af, _ := s.cl.AuditCache(ref, s.pkg)
		s.report("C07/concurrent", af, map[string]any{"audited_against_output": out})
	}
}

// missingOutputFiles lists the output module's cache files (cached outputs, or index files for a block-index output
// module) that a completed production request should have written and that are absent.
func missingOutputFiles(pl *sim.Planned, s *scen, out string, cl *sim.Cluster) (missing []string) {
	if pl.Plan.WriteExecOut == nil {
		return nil
	}
	h := pl.Graph.ModuleHashes().Get(out)
	seg := pl.Plan.WriteOutSegmenter()
	init := pl.Graph.ModulesInitBlocks()[out]
	have := map[string]bool{}
	for _, f := range cl.ListCache() {
		have[f.Rel] = true
	}
	for k := seg.FirstIndex(); k <= seg.LastIndex(); k++ {
		r := seg.Range(k)
		if r == nil || r.ExclusiveEndBlock <= init {
			continue
		}
		start := r.StartBlock
		if start < init {
			start = init
		}
		rel := fmt.Sprintf("%s/outputs/%010d-%010d.output.zst", h, start, r.ExclusiveEndBlock)
		if s.pkg.Kind[out] == "index" {
			rel = fmt.Sprintf("%s/index/%010d-%010d.index.zst", h, start, r.ExclusiveEndBlock)
		}
		if !have[rel] {
			missing = append(missing, rel)
		}
	}
	return missing
}

// runC07MapperStream: the tier2 path that does NOT read the block source. The output module reads only sparse maps (each
// skips its empty outputs, on different blocks); after a clean run every file of the output module is removed, the maps'
// cached outputs stay: the segment jobs must replay the union of the blocks the maps' files cover and rebuild exactly the
// reference files and stream.
func runC07MapperStream(c *fw.Case) {
	s := newScen(c, gen.PkgOpts{MaxMods: 3})
	defer s.close()
	r := c.R
	pkg := &gen.Pkg{Progs: map[string]*native.Program{}, Kind: map[string]string{}, Init: map[string]uint64{}}
	src := func() *pbsubstreams.Module_Input {
		return &pbsubstreams.Module_Input{Input: &pbsubstreams.Module_Input_Source_{Source: &pbsubstreams.Module_Input_Source{Type: native.BlockType}}}
	}
	var mods []*pbsubstreams.Module
	var outInputs []*pbsubstreams.Module_Input
	var outSpecs []native.InSpec
	n := 2 + r.Intn(2)
	for i := 0; i < n; i++ {
		name := fmt.Sprintf("sparse%d", i)
		mods = append(mods, &pbsubstreams.Module{Name: name, BinaryEntrypoint: name, Inputs: []*pbsubstreams.Module_Input{src()},
			Kind:   &pbsubstreams.Module_KindMap_{KindMap: &pbsubstreams.Module_KindMap{OutputType: "proto:verif.Lines"}},
			Output: &pbsubstreams.Module_Output{Type: "proto:verif.Lines"}})
		pkg.Progs[name] = &native.Program{Kind: "map", Seed: uint64(1 + r.Intn(1000)), Inputs: []native.InSpec{{Kind: "source"}}, TagMask: uint8(1 << uint(r.Intn(4))), KeyMask: uint8(1 + r.Intn(63)), Mul: 1, FailAt: -1, DelTag: -1, SetTag: -1, SkipEmpty: true}
		pkg.Kind[name] = "map"
		pkg.Names = append(pkg.Names, name)
		outInputs = append(outInputs, &pbsubstreams.Module_Input{Input: &pbsubstreams.Module_Input_Map_{Map: &pbsubstreams.Module_Input_Map{ModuleName: name}}})
		outSpecs = append(outSpecs, native.InSpec{Kind: "map", Name: name})
	}
	mods = append(mods, &pbsubstreams.Module{Name: "out", BinaryEntrypoint: "out", Inputs: outInputs,
		Kind:   &pbsubstreams.Module_KindMap_{KindMap: &pbsubstreams.Module_KindMap{OutputType: "proto:verif.Lines"}},
		Output: &pbsubstreams.Module_Output{Type: "proto:verif.Lines"}})
	pkg.Progs["out"] = &native.Program{Kind: "map", Seed: 7, Inputs: outSpecs, TagMask: 0xF, KeyMask: 0x3F, Mul: 1, FailAt: -1, DelTag: -1, SetTag: -1, SkipEmpty: r.Intn(2) == 0}
	pkg.Kind["out"] = "map"
	pkg.Names = append(pkg.Names, "out")
	pkg.Maps = []string{"out"}
	pkg.Modules = &pbsubstreams.Modules{Modules: mods}
	pkg.Rebuild()
	s.pkg = pkg
	s.refs = map[string]*sim.Ref{}
	ref := s.ref("out")
	if ref == nil {
		return
	}
	start := uint64(r.Intn(int(s.seg)))
	stop := start + 2*s.seg + uint64(r.Intn(int(2*s.seg)))
	if stop > s.H {
		stop = s.H
	}
	req := sim.RequestSpec{Modules: pkg.Modules, Output: "out", Prod: true, Start: int64(start), Stop: stop, Final: s.cl.Head, Workers: 1 + r.Intn(3), OrderSeed: 1 + r.Int63n(1<<40)}
	if start == 0 {
		req.Start = 1
	}
	res := s.cl.Run(req)
	if res.Err != nil || res.Stuck {
		c.Violation("C07/mapper-stream/clean-run-failed", fmt.Sprintf("clean run failed: stuck=%v err=%v", res.Stuck, res.Err), s.witness(map[string]any{"request": req}))
		return
	}
	pl, err := s.cl.PlanFor(req)
	if err != nil {
		return
	}
	outHash := pl.Graph.ModuleHashes().Get("out")
	root := filepath.Join(s.cl.Dir, s.cl.Tag)
	var removed, kept []string
	sizes := map[string]int{}
	for _, f := range s.cl.ListCache() {
		if f.Hash == outHash {
			os.Remove(filepath.Join(root, f.Rel))
			removed = append(removed, f.Rel)
		} else if f.Sub == "outputs" {
			kept = append(kept, f.Rel)
			if fi, err := os.Stat(filepath.Join(root, f.Rel)); err == nil {
				sizes[f.Rel] = int(fi.Size())
			}
		}
	}
	c.Count("mapper_stream_scenarios", 1)
	if len(removed) == 0 || len(kept) < 2 {
		c.Count("mapper_stream_scenarios_without_enough_files", 1)
		return
	}
	req.OrderSeed = 1 + r.Int63n(1<<40)
	res2 := s.cl.Run(req)
	extra := map[string]any{"request": req, "kept_files_of_the_sparse_maps": kept, "removed_files_of_the_output_module": removed, "jobs": res2.Jobs}
	if res2.Stuck || res2.Err != nil {
		c.Violation("C07/mapper-stream/request-failed", fmt.Sprintf("re-run on the maps' cached outputs failed: stuck=%v err=%v", res2.Stuck, res2.Err), s.witness(extra))
		return
	}
	fs, facts := sim.CheckStream(res2, ref, false)
	s.report("C07/mapper-stream", fs, extra)
	af, afacts := s.cl.AuditCache(ref, s.pkg)
	s.report("C07/mapper-stream", af, extra)
	c.Count("files_audited", int64(afacts.Output))
	if c.Violated() {
		return
	}
	if len(res2.Jobs) > 0 && facts.NonEmpty > 0 {
		c.Nontrivial(fmt.Sprintf("mapper-stream|%v|%+v", pkg.Describe(), req))
	}
}
