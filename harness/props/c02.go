package props

import (
	"context"
	"fmt"
	"strings"

	"go.uber.org/zap"

	"verif/harness/fw"
	"verif/harness/gen"
	"verif/harness/model"
	"verif/harness/rs"
)

// C02: squashing per-segment partial stores == sequential store execution.

func init() {
	pairs := model.Pairs()
	fw.Register(&fw.Spec{
		ID:    "C02",
		Level: "exploration",
		Rule: "case = one (policy,value type) pair x one PRNG block sequence (2..8 blocks of 0..5 host-call ops, ordinals 0..5 repeated and non-monotonic, delete_prefix mixed in) x every cut of the sequence into <=3 (quick) / <=5 (thorough) segments; " +
			"each segment runs on a fresh real PartialKV through wasm.Call.Do*, is saved and reloaded through dstore, and is merged in order into a real FullKV (itself saved/reloaded at PRNG-chosen cuts). " +
			"non-trivial = (sequence,cut) with >=2 segments in which some key is written in >=2 segments; distinct by hash of (pair, ops, cut)",
		Assumptions: []string{
			"numeric operands are restricted to values whose sums are exact (float64 multiples of 1/16, decimals with <=6 fractional digits) so that 'same typed value' is well defined",
			"typed values (parsed numbers / raw bytes as returned by the Reader interface) are compared, not stored byte strings",
			"the store model (harness/model/store.go) is trusted as the statement of sequential semantics",
		},
		Cases: func(tier, mode string) int {
			if tier == "thorough" {
				return len(pairs) * 6000
			}
			return len(pairs) * 40
		},
		MinNontrivial: 100,
		Run:           runC02,
	})
}

// cuts enumerates all ways to cut n blocks into at most maxSeg consecutive non-empty segments.
func cuts(n, maxSeg int) [][]int {
	var out [][]int
	var rec func(start int, cur []int)
	rec = func(start int, cur []int) {
		// cur holds cut positions (exclusive ends of segments), last segment ends at n
		out = append(out, append(append([]int(nil), cur...), n))
		if len(cur)+1 >= maxSeg {
			return
		}
		for c := start + 1; c < n; c++ {
			rec(c, append(cur, c))
		}
	}
	rec(0, nil)
	return out
}

func runC02(c *fw.Case) {
	pairs := model.Pairs()
	p := pairs[c.Index%len(pairs)]
	g := gen.NewStoreOps(c.R, p)
	g.AllowAll = c.R.Intn(4) == 0
	if c.R.Intn(2) == 0 {
		g.DelProb = 0.3
	}
	maxSeg := 3
	if c.Tier == "thorough" {
		maxSeg = 5
	}
	nBlocks := 2 + c.R.Intn(7)
	blocks := make([][]model.Op, nBlocks)
	for i := range blocks {
		blocks[i] = g.Block(5)
	}
	const init = uint64(10) // module initial block; block i of the sequence is chain block init+i
	ctx := context.Background()

	// sequential: real FullKV + model
	cfgA, _ := rs.NewConfig(p, "seq", init)
	A := cfgA.NewFullKV(zap.NewNop())
	M := model.NewStore(p)
	for i, ops := range blocks {
		if err := rs.RunBlock(p, A, init+uint64(i), ops); err != nil {
			c.Violation("C02/seq-error/"+p.String()+"/"+fw.NormalizeMsg(err.Error()), "sequential execution failed: "+err.Error(), witness(p, blocks, nil))
			return
		}
		M.ApplyBlock(ops)
	}
	A.Reset()
	contA, err := rs.Content(p, A)
	if err != nil {
		c.Violation("C02/seq-unreadable/"+p.String(), "sequential store content unreadable: "+err.Error(), witness(p, blocks, nil))
		return
	}
	if d := rs.DiffContent(contA, M.KV); d != "" {
		c.Violation("C02/seq-vs-model/"+p.String()+"/"+diffKind(d), "sequential real store differs from model (real vs model): "+d, witness(p, blocks, nil))
		return
	}

	writtenIn := func(from, to int) map[string]bool {
		m := map[string]bool{}
		for _, ops := range blocks[from:to] {
			for _, op := range ops {
				if !op.Delete {
					m[op.Key] = true
				}
			}
		}
		return m
	}

	for _, cut := range cuts(nBlocks, maxSeg) {
		c.Count("cuts", 1)
		cfgB, _ := rs.NewConfig(p, "par", init)
		B := cfgB.NewFullKV(zap.NewNop())
		start := 0
		multi := false
		seen := map[string]bool{}
		delHitsEarlier := false
		failed := false
		for si, end := range cut {
			part := cfgB.NewPartialKV(init+uint64(start), zap.NewNop())
			for i := start; i < end; i++ {
				if err := rs.RunBlock(p, part, init+uint64(i), blocks[i]); err != nil {
					c.Violation("C02/partial-error/"+p.String()+"/"+fw.NormalizeMsg(err.Error()), "segment execution on partial store failed: "+err.Error(), witness(p, blocks, cut))
					failed = true
					break
				}
			}
			if failed {
				break
			}
			part.Reset()
			loaded, err := rs.SaveLoadPartial(ctx, cfgB, part, init+uint64(end))
			if err != nil {
				c.Violation("C02/partial-saveload/"+p.String(), "partial save/load failed: "+err.Error(), witness(p, blocks, cut))
				failed = true
				break
			}
			if err := B.Merge(loaded); err != nil {
				c.Violation("C02/merge-error/"+p.String()+"/"+fw.NormalizeMsg(err.Error()), "merge failed: "+err.Error(), witness(p, blocks, cut))
				failed = true
				break
			}
			c.Count("merges", 1)
			// bookkeeping for the non-triviality rule
			w := writtenIn(start, end)
			for k := range w {
				if seen[k] {
					multi = true
				}
			}
			for _, ops := range blocks[start:end] {
				for _, op := range ops {
					if op.Delete {
						for k := range seen {
							if strings.HasPrefix(k, op.Key) {
								delHitsEarlier = true
							}
						}
					}
				}
			}
			for k := range w {
				seen[k] = true
			}
			// save / reload the full store at some boundaries, as the squasher does on interval ends
			if si < len(cut)-1 && c.R.Intn(2) == 0 {
				nb, err := rs.SaveLoadFull(ctx, cfgB, B, init+uint64(end))
				if err != nil {
					c.Violation("C02/full-saveload/"+p.String(), "full save/load failed: "+err.Error(), witness(p, blocks, cut))
					failed = true
					break
				}
				B = nb
				c.Count("full_reloads", 1)
			}
			start = end
		}
		if failed {
			continue
		}
		contB, err := rs.Content(p, B)
		if err != nil {
			c.Violation("C02/merged-unreadable/"+p.String(), "merged store content unreadable: "+err.Error(), witness(p, blocks, cut))
			continue
		}
		if d := rs.DiffContent(contB, contA); d != "" {
			c.Violation("C02/merged-vs-seq/"+p.String()+"/"+diffKind(d), fmt.Sprintf("merged store differs from sequential store (merged vs sequential): %s; cut=%v", d, cut), witness(p, blocks, cut))
			continue
		}
		c.Count("keys_compared", int64(len(contA)))
		if len(cut) >= 2 && multi {
			c.Nontrivial(fmt.Sprintf("%s|%v|%v", p, gen.DescribeBlocks(p, blocks), cut))
			if delHitsEarlier {
				c.Count("nontrivial_with_delete_hitting_earlier_segment", 1)
			}
		}
	}
	c.Distinct("pairs", p.String())
	if c.WantSample() {
		c.Sample(witness(p, blocks, []int{nBlocks}))
	}
}

func witness(p model.Pair, blocks [][]model.Op, cut []int) map[string]any {
	return map[string]any{"pair": p.String(), "blocks": gen.DescribeBlocks(p, blocks), "cut_segment_ends": cut}
}

// diffKind classifies a content difference for signatures.
func diffKind(d string) string {
	switch {
	case strings.Contains(d, "vs absent"):
		return "extra-key"
	case strings.Contains(d, "absent vs"):
		return "missing-key"
	}
	return "wrong-value"
}
