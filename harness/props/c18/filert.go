package c18

import (
	"context"
	"fmt"
	"io"
	"os"
	"sync"
	"time"

	"github.com/streamingfast/dstore"
	"github.com/streamingfast/substreams/block"
	"github.com/streamingfast/substreams/manifest"
	pbsubstreams "github.com/streamingfast/substreams/pb/sf/substreams/v1"
	"github.com/streamingfast/substreams/storage/execout"
	"go.uber.org/zap"
	"google.golang.org/protobuf/types/known/timestamppb"

	"verif/harness/fw"
)

// A cached-output FILE (not only the codec) must round-trip through the real execout.File
// Save/Load, including when the first upload attempt fails and is retried.

type retryStore struct {
	dstore.Store
	mu   *sync.Mutex
	seen map[string]int
	fail bool
}

func (f *retryStore) WriteObject(ctx context.Context, base string, r io.Reader) error {
	f.mu.Lock()
	f.seen[base]++
	n := f.seen[base]
	f.mu.Unlock()
	if f.fail && n == 1 {
		io.Copy(io.Discard, r)
		return fmt.Errorf("injected: connection reset at the end of the upload of %s", base)
	}
	return f.Store.WriteObject(ctx, base, r)
}

func (f *retryStore) SubStore(sub string) (dstore.Store, error) {
	s, err := f.Store.SubStore(sub)
	if err != nil {
		return nil, err
	}
	return &retryStore{Store: s, mu: f.mu, seen: f.seen, fail: f.fail}, nil
}

func fileCases(tier, mode string) int {
	if mode != "plain" {
		return 0
	}
	if tier == "thorough" {
		return 64
	}
	return 12
}

func runFile(c *fw.Case) {
	dir, _ := os.MkdirTemp(os.Getenv("VH_SCRATCH"), "eo-")
	defer os.RemoveAll(dir)
	base, err := dstore.NewStore(dir, "zst", "zstd", true)
	if err != nil {
		panic(err)
	}
	fs := &retryStore{Store: base, mu: &sync.Mutex{}, seen: map[string]int{}, fail: c.Index%2 == 0}
	mod := &pbsubstreams.Module{Name: "m", Kind: &pbsubstreams.Module_KindMap_{KindMap: &pbsubstreams.Module_KindMap{OutputType: "proto:x.Y"}}}
	hashes := manifest.NewModuleHashes()
	cfgs, err := execout.NewConfigs(fs, []*pbsubstreams.Module{mod}, hashes, 10, 0, zap.NewNop())
	if err != nil {
		c.Inconclusive("execout.NewConfigs: " + err.Error())
		return
	}
	cfg := cfgs.ConfigMap["m"]
	start := uint64(c.R.Intn(1000)) * 10
	rng := block.NewRange(start, start+10)
	f := cfg.NewFile(rng)
	type item struct {
		id      string
		num     uint64
		payload []byte
		ts      int64
	}
	want := map[string]item{}
	for b := start; b < start+10; b++ {
		if c.R.Intn(4) == 0 {
			continue
		}
		it := item{id: fmt.Sprintf("blk-%d", b), num: b, payload: make([]byte, c.R.Intn(40)), ts: int64(c.R.Intn(3)) * int64(b)}
		c.R.Read(it.payload)
		want[it.id] = it
		f.SetItem(&pbsubstreams.Clock{Id: it.id, Number: it.num, Timestamp: timestamppb.New(timeUnix(it.ts))}, it.payload)
	}
	ctx := context.Background()
	if err := f.Save(ctx); err != nil {
		c.Violation("C18/file/write-retry-failed", "saving a cached-output file through a store whose first write attempt fails returned: "+err.Error(), nil)
		return
	}
	g, err := cfg.ReadFile(ctx, rng)
	if err != nil {
		c.Violation("C18/file/load-failed", "loading the cached-output file back failed: "+err.Error(), nil)
		return
	}
	c.Count("output_files_roundtripped", 1)
	if fs.fail {
		c.Count("output_files_written_with_a_retry", 1)
	}
	if len(g.Kv) != len(want) {
		c.Violation("C18/file/content-lost", fmt.Sprintf("cached-output file (first upload attempt failed=%v) loads back %d items, expected %d", fs.fail, len(g.Kv), len(want)), nil)
		return
	}
	for id, w := range want {
		it := g.Kv[id]
		if it == nil || it.BlockNum != w.num || it.BlockId != w.id || string(it.Payload) != string(w.payload) || it.Timestamp == nil || !it.Timestamp.AsTime().Equal(timeUnix(w.ts)) {
			c.Violation("C18/file/item-mismatch", fmt.Sprintf("item %s of the loaded file is %v, expected block %d payload %x timestamp %d", id, it, w.num, w.payload, w.ts), nil)
			return
		}
	}
	c.Nontrivial(fmt.Sprintf("file|%d|%d", c.Index, len(want)))
}

func timeUnix(s int64) time.Time { return time.Unix(s, 0).UTC() }
