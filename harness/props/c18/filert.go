package c18

import (
	"context"
	"fmt"
	"io"
	"os"
	"sync"
	"time"

	"github.com/streamingfast/dstore"
	"github.com/streamingfast/substreams/block"
	"github.com/streamingfast/substreams/manifest"
	pbsubstreams "github.com/streamingfast/substreams/pb/sf/substreams/v1"
	"github.com/streamingfast/substreams/storage/execout"
	"github.com/streamingfast/substreams/storage/store"
	"go.uber.org/zap"
	"google.golang.org/protobuf/types/known/timestamppb"

	"verif/harness/fw"
)

// A cached-output FILE (not only the codec) must round-trip through the real execout.File
// Save/Load, including when the first upload attempt fails and is retried.

type retryStore struct {
	dstore.Store
	mu   *sync.Mutex
	seen map[string]int
	fail bool
}

func (f *retryStore) WriteObject(ctx context.Context, base string, r io.Reader) error {
	f.mu.Lock()
	f.seen[base]++
	n := f.seen[base]
	f.mu.Unlock()
	if f.fail && n == 1 {
		io.Copy(io.Discard, r)
		return fmt.Errorf("injected: connection reset at the end of the upload of %s", base)
	}
	return f.Store.WriteObject(ctx, base, r)
}

func (f *retryStore) SubStore(sub string) (dstore.Store, error) {
	s, err := f.Store.SubStore(sub)
	if err != nil {
		return nil, err
	}
	return &retryStore{Store: s, mu: f.mu, seen: f.seen, fail: f.fail}, nil
}

func fileCases(tier, mode string) int {
	if mode != "plain" {
		return 0
	}
	if tier == "thorough" {
		return 128
	}
	return 24
}

// cutStore fails the FIRST download of every object after cut[name](content) bytes.
type cutStore struct {
	dstore.Store
	mu    *sync.Mutex
	reads map[string]int
	cut   func(content []byte) int
}

type cutRd struct {
	b    []byte
	left int
}

func (r *cutRd) Read(p []byte) (int, error) {
	if r.left <= 0 {
		return 0, fmt.Errorf("injected: connection reset while downloading")
	}
	if len(p) > r.left {
		p = p[:r.left]
	}
	n := copy(p, r.b)
	r.b = r.b[n:]
	r.left -= n
	return n, nil
}
func (r *cutRd) Close() error { return nil }

func (f *cutStore) OpenObject(ctx context.Context, name string) (io.ReadCloser, error) {
	r, err := f.Store.OpenObject(ctx, name)
	if err != nil {
		return nil, err
	}
	f.mu.Lock()
	f.reads[name]++
	n := f.reads[name]
	f.mu.Unlock()
	if n == 1 {
		b, _ := io.ReadAll(r)
		r.Close()
		return &cutRd{b: b, left: f.cut(b)}, nil
	}
	return r, nil
}

func (f *cutStore) SubStore(sub string) (dstore.Store, error) {
	s, err := f.Store.SubStore(sub)
	if err != nil {
		return nil, err
	}
	return &cutStore{Store: s, mu: f.mu, reads: f.reads, cut: f.cut}, nil
}

// entryBoundaries returns the offsets at which a top-level protobuf field of b ends.
func entryBoundaries(b []byte) []int {
	var out []int
	i := 0
	for i < len(b) {
		// tag
		for i < len(b) && b[i]&0x80 != 0 {
			i++
		}
		i++
		// length (all top-level fields of StoreData are length-delimited)
		l, sh := 0, uint(0)
		for i < len(b) {
			c := b[i]
			i++
			l |= int(c&0x7f) << sh
			sh += 7
			if c&0x80 == 0 {
				break
			}
		}
		i += l
		if i <= len(b) {
			out = append(out, i)
		}
	}
	return out
}

// runSnapFile: a store SNAPSHOT file read back through the real Load when the first download dies (on an entry boundary or
// anywhere) and the retry succeeds: content as written, and the size reported at load == total length of keys and values.
func runSnapFile(c *fw.Case) {
	dir, _ := os.MkdirTemp(os.Getenv("VH_SCRATCH"), "sn-")
	defer os.RemoveAll(dir)
	base, err := dstore.NewStore(dir, "zst", "zstd", true)
	if err != nil {
		panic(err)
	}
	onBoundary := (c.Index/2)%2 == 0
	cutPos := -1
	cs := &cutStore{Store: base, mu: &sync.Mutex{}, reads: map[string]int{}, cut: func(b []byte) int {
		if onBoundary {
			if bs := entryBoundaries(b); len(bs) > 1 {
				cutPos = bs[c.R.Intn(len(bs)-1)]
				return cutPos
			}
		}
		cutPos = c.R.Intn(len(b) + 1)
		return cutPos
	}}
	cfg, err := store.NewConfig("s", 5, "h", pbsubstreams.Module_KindStore_UPDATE_POLICY_SET, "string", cs)
	if err != nil {
		panic(err)
	}
	ctx := context.Background()
	n := 2 + c.R.Intn(30)
	want := map[string][]byte{}
	full := cfg.NewFullKV(zap.NewNop())
	for i := 0; i < n; i++ {
		k := fmt.Sprintf("key-%03d", i)
		v := make([]byte, c.R.Intn(24))
		c.R.Read(v)
		want[k] = v
		full.ApplyDelta(&pbsubstreams.StoreDelta{Operation: pbsubstreams.StoreDelta_CREATE, Key: k, NewValue: v})
	}
	file, w, err := full.Save(30)
	if err == nil {
		err = w.Write(ctx)
	}
	if err != nil {
		c.Inconclusive("saving the snapshot failed: " + err.Error())
		return
	}
	lf := cfg.NewFullKV(zap.NewNop())
	wit := map[string]any{"entries": n, "first_download_cut_on_entry_boundary": onBoundary}
	if err := lf.Load(ctx, file); err != nil {
		wit["first_download_cut_after_bytes"] = cutPos
		c.Violation("C18/snapshot-file/load-after-read-retry-failed", "loading a snapshot whose first download attempt was cut (second attempt intact) failed: "+err.Error(), wit)
		return
	}
	wit["first_download_cut_after_bytes"] = cutPos
	c.Count("snapshot_files_loaded_after_a_cut_download", 1)
	got := map[string][]byte{}
	var real uint64
	lf.Iter(func(k string, v []byte) error { got[k] = v; real += uint64(len(k) + len(v)); return nil })
	if len(got) != len(want) {
		c.Violation("C18/snapshot-file/content-differs", fmt.Sprintf("snapshot loaded after a cut first download holds %d keys, %d were written", len(got), len(want)), wit)
		return
	}
	for k, v := range want {
		if string(got[k]) != string(v) {
			c.Violation("C18/snapshot-file/content-differs", fmt.Sprintf("snapshot loaded after a cut first download: key %q = %x, written %x", k, got[k], v), wit)
			return
		}
	}
	if lf.SizeBytes() != real {
		c.Violation("C18/snapshot-file/size-reported-at-load", fmt.Sprintf("snapshot loaded after a cut first download reports size %d but its keys and values total %d", lf.SizeBytes(), real), wit)
		return
	}
	c.Nontrivial(fmt.Sprintf("snapfile|%d|%d", c.Index, n))
}

func runFile(c *fw.Case) {
	if c.Index%2 == 1 {
		runSnapFile(c)
		return
	}
	dir, _ := os.MkdirTemp(os.Getenv("VH_SCRATCH"), "eo-")
	defer os.RemoveAll(dir)
	base, err := dstore.NewStore(dir, "zst", "zstd", true)
	if err != nil {
		panic(err)
	}
	fs := &retryStore{Store: base, mu: &sync.Mutex{}, seen: map[string]int{}, fail: c.Index%4 == 0}
	mod := &pbsubstreams.Module{Name: "m", Kind: &pbsubstreams.Module_KindMap_{KindMap: &pbsubstreams.Module_KindMap{OutputType: "proto:x.Y"}}}
	hashes := manifest.NewModuleHashes()
	cfgs, err := execout.NewConfigs(fs, []*pbsubstreams.Module{mod}, hashes, 10, 0, zap.NewNop())
	if err != nil {
		c.Inconclusive("execout.NewConfigs: " + err.Error())
		return
	}
	cfg := cfgs.ConfigMap["m"]
	start := uint64(c.R.Intn(1000)) * 10
	rng := block.NewRange(start, start+10)
	f := cfg.NewFile(rng)
	type item struct {
		id      string
		num     uint64
		payload []byte
		ts      int64
	}
	want := map[string]item{}
	for b := start; b < start+10; b++ {
		if c.R.Intn(4) == 0 {
			continue
		}
		it := item{id: fmt.Sprintf("blk-%d", b), num: b, payload: make([]byte, c.R.Intn(40)), ts: int64(c.R.Intn(3)) * int64(b)}
		c.R.Read(it.payload)
		want[it.id] = it
		f.SetItem(&pbsubstreams.Clock{Id: it.id, Number: it.num, Timestamp: timestamppb.New(timeUnix(it.ts))}, it.payload)
	}
	ctx := context.Background()
	if err := f.Save(ctx); err != nil {
		c.Violation("C18/file/write-retry-failed", "saving a cached-output file through a store whose first write attempt fails returned: "+err.Error(), nil)
		return
	}
	g, err := cfg.ReadFile(ctx, rng)
	if err != nil {
		c.Violation("C18/file/load-failed", "loading the cached-output file back failed: "+err.Error(), nil)
		return
	}
	c.Count("output_files_roundtripped", 1)
	if fs.fail {
		c.Count("output_files_written_with_a_retry", 1)
	}
	if len(g.Kv) != len(want) {
		c.Violation("C18/file/content-lost", fmt.Sprintf("cached-output file (first upload attempt failed=%v) loads back %d items, expected %d", fs.fail, len(g.Kv), len(want)), nil)
		return
	}
	for id, w := range want {
		it := g.Kv[id]
		if it == nil || it.BlockNum != w.num || it.BlockId != w.id || string(it.Payload) != string(w.payload) || it.Timestamp == nil || !it.Timestamp.AsTime().Equal(timeUnix(w.ts)) {
			c.Violation("C18/file/item-mismatch", fmt.Sprintf("item %s of the loaded file is %v, expected block %d payload %x timestamp %d", id, it, w.num, w.payload, w.ts), nil)
			return
		}
	}
	c.Nontrivial(fmt.Sprintf("file|%d|%d", c.Index, len(want)))
}

func timeUnix(s int64) time.Time { return time.Unix(s, 0).UTC() }
