// Package c18 checks property C18: the hand-written cache file codecs are
// wire-compatible with their protobuf schemas.
package c18

import (
	"bytes"
	"fmt"
	"reflect"
	"sort"
	"unicode/utf8"

	pboutput "github.com/streamingfast/substreams/storage/execout/pb"
	"github.com/streamingfast/substreams/storage/store/marshaller"
	pbstore "github.com/streamingfast/substreams/storage/store/marshaller/pb"
	"google.golang.org/protobuf/proto"
	"google.golang.org/protobuf/types/known/timestamppb"

	"verif/harness/fw"
	"verif/harness/props/c10/bytesgen"
)

func counts(tier, mode string) (outCases, storeCases, perCase int) {
	if tier == "thorough" {
		if mode == "plain" {
			return 1200, 800, 100
		}
		return 300, 200, 100
	}
	return 60, 40, 20
}

func init() {
	fw.Register(&fw.Spec{
		ID:    "C18",
		Level: "exploration",
		Rule: "case = a batch of messages. Cached-output message = a PRNG map block id -> Item(block number at varint boundaries 2^(7k)-1, 2^(7k), 2^64-1; id; nil/zero/negative/boundary timestamp; cursor; nil/empty/varint-boundary-length payload), 0..5000 items, keyed by Item.BlockId as storage/execout/file.go does: " +
			"Map.MarshalFast -> proto.Unmarshal(Array) == items; proto.Marshal(Array) and Array.MarshalVT -> Map.UnmarshalFast == map; MarshalFast -> UnmarshalFast == map. " +
			"Store content = PRNG kv (0..5000 entries, nil/empty/large values) + deleted prefixes: every marshaller (Default, VTproto, Proto, ProtoingFast, Binary without prefixes) reads back what it wrote; ProtoingFast/VTproto bytes decode with proto.Unmarshal(StoreData) and Proto bytes with VTproto; the size reported by the default marshaller (and VTproto) == sum(len k+len v). " +
			"The bytes a marshaller returned must not change when the same marshaller object encodes a second, smaller content (the next boundary's snapshot is saved while the previous write may still be pending). " +
			"File part (plain mode): a cached-output file through the real execout.File Save/ReadFile with a first upload attempt that fails, and a store snapshot through the real Save/Load whose FIRST download is cut (on an entry boundary or anywhere) and whose retry succeeds: content as written and SizeBytes() at load == sum(len k+len v). " +
			"Families alternate: valid UTF-8 strings (all directions demanded) and arbitrary bytes (only what the schema-free codecs VTproto/Binary/default promise is demanded; everything else is counted as obs_*). A few free-form maps (key != BlockId) are run and only counted. " +
			"non-trivial = message with >=2 items of which one has a timestamp and one a multi-byte varint, or store content with >=2 entries and >=1 prefix; distinct by content hash",
		Assumptions: []string{
			"the schema the fast cached-output encoder writes is message Array{repeated Item items=1} (storage/execout/pb/output.proto), not message Map",
			"the map of a cached-output file is keyed by Item.BlockId (execout.File.SetItem); UnmarshalFast re-keys by BlockId, so free-form keys cannot round-trip and are only counted",
			"protobuf `string` fields must hold valid UTF-8: that the standard codec refuses other bytes is a schema restriction, not a codec disagreement (counted, not a violation)",
			"nil and empty bytes are the same value; an unset timestamp and a zero timestamp are different contents",
			"the size is demanded of marshaller.Default() (what Load uses) and of VTproto; Proto, ProtoingFast and Binary report 0 by construction (counted as obs_size_zero_*)",
		},
		Modes: func(tier string) []string { return []string{"plain", "checkptr", "asan"} },
		Cases: func(tier, mode string) int {
			a, b, _ := counts(tier, mode)
			return a + b + fileCases(tier, mode)
		},
		MinNontrivial: 200,
		CaseTimeout:   180e9,
		Run:           run,
	})
}

func run(c *fw.Case) {
	nOut, nStore, per := counts(c.Tier, c.Mode)
	if c.Index >= nOut+nStore {
		runFile(c)
		return
	}
	if c.Index < nOut {
		for i := 0; i < per && !c.Violated(); i++ {
			runOutputMessage(c, c.Index*per+i)
		}
	} else {
		for i := 0; i < per && !c.Violated(); i++ {
			runStoreContent(c, (c.Index-nOut)*per+i)
		}
	}
}

func sizeClass(c *fw.Case) int {
	switch x := c.R.Intn(100); {
	case x < 8:
		return 0
	case x < 30:
		return 1 + c.R.Intn(3)
	case x < 85:
		return 4 + c.R.Intn(40)
	case x < 97:
		return 50 + c.R.Intn(600)
	default:
		return 700 + c.R.Intn(4301)
	}
}

// ---------------------------------------------------------------- cached outputs

type itemSpec struct {
	Key     string `json:"map_key"`
	Num     uint64 `json:"block_num"`
	ID      string `json:"block_id"`
	Payload []byte `json:"payload"`
	HasTS   bool   `json:"has_timestamp"`
	Sec     int64  `json:"seconds"`
	Nanos   int32  `json:"nanos"`
	Cursor  string `json:"cursor"`
}

func (s *itemSpec) item() *pboutput.Item {
	it := &pboutput.Item{BlockNum: s.Num, BlockId: s.ID, Cursor: s.Cursor}
	if s.Payload != nil {
		it.Payload = append([]byte{}, s.Payload...)
	}
	if s.HasTS {
		it.Timestamp = &timestamppb.Timestamp{Seconds: s.Sec, Nanos: s.Nanos}
	}
	return it
}

func diffItem(s *itemSpec, it *pboutput.Item) string {
	if it == nil {
		return "decoded item is nil"
	}
	if it.BlockNum != s.Num {
		return fmt.Sprintf("block_num %d, expected %d", it.BlockNum, s.Num)
	}
	if it.BlockId != s.ID {
		return fmt.Sprintf("block_id %q, expected %q", it.BlockId, s.ID)
	}
	if !bytes.Equal(it.Payload, s.Payload) {
		return fmt.Sprintf("payload of %d bytes, expected %d bytes (first difference within %q vs %q)", len(it.Payload), len(s.Payload), clipB(it.Payload), clipB(s.Payload))
	}
	if it.Cursor != s.Cursor {
		return fmt.Sprintf("cursor %q, expected %q", it.Cursor, s.Cursor)
	}
	if (it.Timestamp != nil) != s.HasTS {
		return fmt.Sprintf("timestamp present=%v, expected present=%v", it.Timestamp != nil, s.HasTS)
	}
	if s.HasTS && (it.Timestamp.Seconds != s.Sec || it.Timestamp.Nanos != s.Nanos) {
		return fmt.Sprintf("timestamp (%d s, %d ns), expected (%d s, %d ns)", it.Timestamp.Seconds, it.Timestamp.Nanos, s.Sec, s.Nanos)
	}
	return ""
}

func clipB(b []byte) []byte {
	if len(b) > 48 {
		return b[:48]
	}
	return b
}

func clipSpecs(specs []*itemSpec) []itemSpec {
	n := len(specs)
	if n > 40 {
		n = 40
	}
	out := make([]itemSpec, n)
	for i := 0; i < n; i++ {
		out[i] = *specs[i]
		if len(out[i].Payload) > 64 {
			out[i].Payload = out[i].Payload[:64]
		}
	}
	return out
}

func genID(c *fw.Case, binary bool) string {
	switch c.R.Intn(8) {
	case 0:
		return bytesgen.Str(c.R, binary, 0, 3)
	case 1:
		return bytesgen.Str(c.R, binary, 1, 80)
	case 2:
		if binary {
			return bytesgen.Binary(c.R, 32, 32)
		}
		fallthrough
	default:
		// what block ids usually look like
		return fmt.Sprintf("%x", bytesgen.Bytes(c.R, 4+c.R.Intn(29)))
	}
}

func genItem(c *fw.Case, binary bool, bigLeft *int) *itemSpec {
	s := &itemSpec{Num: bytesgen.U64(c.R)}
	s.ID = genID(c, binary)
	switch c.R.Intn(5) {
	case 0:
		s.Cursor = ""
	case 1:
		s.Cursor = bytesgen.Str(c.R, binary, 1, 120)
	default:
		if c.R.Intn(2) == 0 {
			s.Cursor = fmt.Sprintf("c%x", bytesgen.Bytes(c.R, 1+c.R.Intn(60)))
		}
	}
	s.Payload = bytesgen.Value(c.R, *bigLeft > 0)
	if len(s.Payload) > 2000 {
		*bigLeft--
	}
	switch c.R.Intn(6) {
	case 0: // nil
	case 1:
		s.HasTS = true // zero
	case 2:
		s.HasTS, s.Sec = true, 1600000000+int64(c.R.Intn(200000000))
	case 3:
		s.HasTS, s.Sec, s.Nanos = true, 1600000000+int64(c.R.Intn(200000000)), int32(c.R.Intn(1000000000))
	default:
		s.HasTS, s.Sec, s.Nanos = true, bytesgen.I64(c.R), bytesgen.I32(c.R)
	}
	return s
}

type outWitness struct {
	Family string     `json:"string_family"`
	Items  int        `json:"items"`
	First  []itemSpec `json:"items_first_40"`
	Bad    *itemSpec  `json:"differing_item,omitempty"`
	Bytes  []byte     `json:"encoded_first_200_bytes,omitempty"`
}

// compareMap compares a decoded Map with the expected items keyed by their map key.
func compareMap(want []*itemSpec, got map[string]*pboutput.Item) (string, *itemSpec) {
	if len(got) != len(want) {
		return fmt.Sprintf("%d entries decoded, %d expected", len(got), len(want)), nil
	}
	for _, s := range want {
		it, ok := got[s.Key]
		if !ok {
			return fmt.Sprintf("no entry under key %q", s.Key), s
		}
		if d := diffItem(s, it); d != "" {
			return fmt.Sprintf("entry %q: %s", s.Key, d), s
		}
	}
	return "", nil
}

// compareItems compares a decoded item list with the expected items as multisets
// (the encoder walks a Go map: the order is not part of the content).
func compareItems(want []*itemSpec, got []*pboutput.Item, uniqueIDs bool) (string, *itemSpec) {
	if len(got) != len(want) {
		return fmt.Sprintf("%d items decoded, %d expected", len(got), len(want)), nil
	}
	if uniqueIDs {
		byID := map[string]*pboutput.Item{}
		for _, it := range got {
			if it == nil {
				return "a decoded item is nil", nil
			}
			byID[it.BlockId] = it
		}
		for _, s := range want {
			it, ok := byID[s.ID]
			if !ok {
				return fmt.Sprintf("no decoded item with block id %q", s.ID), s
			}
			if d := diffItem(s, it); d != "" {
				return fmt.Sprintf("item %q: %s", s.ID, d), s
			}
		}
		return "", nil
	}
	used := make([]bool, len(got))
outer:
	for _, s := range want {
		for i, it := range got {
			if !used[i] && diffItem(s, it) == "" {
				used[i] = true
				continue outer
			}
		}
		return fmt.Sprintf("no decoded item equals the item with block id %q", s.ID), s
	}
	return "", nil
}

func runOutputMessage(c *fw.Case, msgIdx int) {
	binary := msgIdx%4 == 3    // 1 in 4: arbitrary bytes in the string fields
	freeForm := msgIdx%16 == 6 // 1 in 16: map keys unrelated to the block ids
	family := "utf8"
	if binary {
		family = "binary"
	}
	n := sizeClass(c)
	if freeForm && n > 60 {
		n = 60
	}
	bigLeft := 2
	var specs []*itemSpec
	seenID := map[string]bool{}
	seenKey := map[string]bool{}
	for len(specs) < n {
		s := genItem(c, binary, &bigLeft)
		if freeForm {
			switch c.R.Intn(3) {
			case 0:
				s.Key = s.ID
			case 1:
				s.Key = bytesgen.Str(c.R, binary, 0, 10)
			default:
				s.Key = fmt.Sprint(s.Num)
			}
			if len(specs) > 0 && c.R.Intn(4) == 0 {
				s.ID = specs[c.R.Intn(len(specs))].ID // two map entries with the same block id
			}
			if seenKey[s.Key] {
				continue
			}
			seenKey[s.Key] = true
		} else {
			if seenID[s.ID] {
				s.ID += fmt.Sprintf("-%d", len(specs))
				if seenID[s.ID] {
					continue
				}
			}
			seenID[s.ID] = true
			s.Key = s.ID
		}
		specs = append(specs, s)
	}
	m := &pboutput.Map{Kv: map[string]*pboutput.Item{}}
	for _, s := range specs {
		m.Kv[s.Key] = s.item()
	}
	c.Count("output_messages", 1)
	c.Count("output_messages_"+family, 1)
	c.Count("output_items", int64(len(specs)))
	c.Max("output_items_in_one_message", int64(len(specs)))
	wit := func(bad *itemSpec, enc []byte) *outWitness {
		w := &outWitness{Family: family, Items: len(specs), First: clipSpecs(specs), Bad: bad}
		if len(enc) > 200 {
			enc = enc[:200]
		}
		w.Bytes = enc
		return w
	}

	fast, err := m.MarshalFast()
	if err != nil {
		c.Violation("C18/fast-encode/error", "Map.MarshalFast failed: "+err.Error(), wit(nil, nil))
		return
	}

	if freeForm {
		c.Count("obs_freeform_messages", 1)
		arr := &pboutput.Array{}
		if err := proto.Unmarshal(fast, arr); err != nil {
			if binary {
				c.Count("obs_binary/std-decoder-rejects-fast-bytes", 1)
			} else {
				c.Count("obs_freeform/fast-to-std-decode-error", 1)
			}
		} else if d, _ := compareItems(specs, arr.Items, false); d != "" {
			c.Count("obs_freeform/fast-to-std-items-differ", 1)
		} else {
			c.Count("obs_freeform/fast-to-std-items-equal", 1)
		}
		m2 := &pboutput.Map{}
		if err := m2.UnmarshalFast(fast); err != nil {
			c.Count("obs_freeform/fast-roundtrip-decode-error", 1)
		} else if d, _ := compareMap(specs, m2.Kv); d != "" {
			c.Count("obs_freeform/fast-roundtrip-map-differs(rekeyed-by-block-id)", 1)
		} else {
			c.Count("obs_freeform/fast-roundtrip-map-equal", 1)
		}
		return
	}

	// fast encoder -> standard decoder
	{
		arr := &pboutput.Array{}
		c.Count("compared_fast_to_std", 1)
		if err := proto.Unmarshal(fast, arr); err != nil {
			if binary {
				c.Count("obs_binary/std-decoder-rejects-fast-bytes", 1)
			} else {
				c.Violation("C18/fast-to-std/decode-error", "proto.Unmarshal(Array) rejects what Map.MarshalFast wrote: "+err.Error(), wit(nil, fast))
				return
			}
		} else if d, bad := compareItems(specs, arr.Items, true); d != "" {
			if binary {
				c.Count("obs_binary/fast-to-std-mismatch", 1)
			} else {
				sig := "C18/fast-to-std/item-mismatch"
				if bad == nil {
					sig = "C18/fast-to-std/item-count"
				}
				c.Violation(sig, "MarshalFast -> proto.Unmarshal(Array): "+d, wit(bad, fast))
				return
			}
		} else if binary {
			c.Count("obs_binary/fast-to-std-equal", 1)
		}
	}

	// standard encoder / generated VT encoder -> fast decoder
	arr := &pboutput.Array{}
	order := c.R.Perm(len(specs))
	for _, i := range order {
		arr.Items = append(arr.Items, specs[i].item())
	}
	std, err := proto.Marshal(arr)
	if err != nil {
		if binary || !allValid(specs) {
			c.Count("obs_binary/std-encoder-refuses", 1)
		} else {
			c.Violation("C18/std-encode/error", "proto.Marshal(Array) failed on valid UTF-8 content: "+err.Error(), wit(nil, nil))
			return
		}
	} else {
		m2 := &pboutput.Map{}
		c.Count("compared_std_to_fast", 1)
		if err := m2.UnmarshalFast(std); err != nil {
			c.Violation("C18/std-to-fast/decode-error", "Map.UnmarshalFast rejects what proto.Marshal(Array) wrote: "+err.Error(), wit(nil, std))
			return
		}
		if d, bad := compareMap(specs, m2.Kv); d != "" {
			sig := "C18/std-to-fast/item-mismatch"
			if bad == nil {
				sig = "C18/std-to-fast/item-count"
			}
			c.Violation(sig, "proto.Marshal(Array) -> UnmarshalFast: "+d, wit(bad, std))
			return
		}
	}
	vt, err := arr.MarshalVT()
	if err != nil {
		c.Violation("C18/vt-encode/error", "Array.MarshalVT failed: "+err.Error(), wit(nil, nil))
		return
	}
	{
		m2 := &pboutput.Map{}
		c.Count("compared_vt_to_fast", 1)
		if err := m2.UnmarshalFast(vt); err != nil {
			if binary {
				c.Count("obs_binary/vt-to-fast-decode-error", 1)
			} else {
				c.Violation("C18/vt-to-fast/decode-error", "Map.UnmarshalFast rejects what Array.MarshalVT wrote: "+err.Error(), wit(nil, vt))
				return
			}
		} else if d, bad := compareMap(specs, m2.Kv); d != "" {
			if binary {
				c.Count("obs_binary/vt-to-fast-mismatch", 1)
			} else {
				c.Violation("C18/vt-to-fast/item-mismatch", "Array.MarshalVT -> UnmarshalFast: "+d, wit(bad, vt))
				return
			}
		}
	}

	// fast encoder -> fast decoder (same codec)
	{
		m2 := &pboutput.Map{}
		c.Count("compared_fast_to_fast", 1)
		if err := m2.UnmarshalFast(fast); err != nil {
			if binary {
				c.Count("obs_binary/fast-roundtrip-decode-error", 1)
			} else {
				c.Violation("C18/fast-roundtrip/decode-error", "Map.UnmarshalFast cannot read what Map.MarshalFast wrote: "+err.Error(), wit(nil, fast))
				return
			}
		} else if d, bad := compareMap(specs, m2.Kv); d != "" {
			if binary {
				c.Count("obs_binary/fast-roundtrip-mismatch", 1)
			} else {
				c.Violation("C18/fast-roundtrip/item-mismatch", "MarshalFast -> UnmarshalFast: "+d, wit(bad, fast))
				return
			}
		} else if binary {
			c.Count("obs_binary/fast-roundtrip-equal", 1)
		}
	}

	multi, ts := false, false
	for _, s := range specs {
		if s.Num >= 128 || len(s.Payload) >= 128 {
			multi = true
		}
		if s.HasTS {
			ts = true
		}
		if s.HasTS && (s.Sec < 0 || s.Nanos < 0) {
			c.Count("items_with_negative_timestamp", 1)
		}
		if s.Num == ^uint64(0) {
			c.Count("items_with_block_num_max_uint64", 1)
		}
		if len(s.Payload) == 0 {
			c.Count("items_with_empty_payload", 1)
		}
	}
	if !binary && len(specs) >= 2 && multi && ts {
		c.Nontrivial(fmt.Sprintf("out/%d/%x", len(specs), fw.Hash(string(fast))))
	}
	if c.WantSample() && len(specs) >= 2 && len(specs) <= 3 && !binary {
		c.Sample(map[string]any{"family": "cached-output", "items": clipSpecs(specs), "fast_bytes": len(fast), "std_bytes": len(std)})
	}
}

func allValid(specs []*itemSpec) bool {
	for _, s := range specs {
		if !utf8.ValidString(s.ID) || !utf8.ValidString(s.Cursor) {
			return false
		}
	}
	return true
}

// ---------------------------------------------------------------- store marshallers

type kvEntry struct {
	Key   string `json:"key"`
	Value []byte `json:"value"`
}

type storeWitness struct {
	Family     string    `json:"string_family"`
	Marshaller string    `json:"marshaller,omitempty"`
	Entries    int       `json:"entries"`
	First      []kvEntry `json:"entries_first_60"`
	Prefixes   []string  `json:"delete_prefixes"`
	Bytes      []byte    `json:"encoded_first_200_bytes,omitempty"`
}

func diffKV(want, got map[string][]byte) string {
	if len(want) != len(got) {
		return fmt.Sprintf("%d entries read back, %d written", len(got), len(want))
	}
	for k, wv := range want {
		gv, ok := got[k]
		if !ok {
			return fmt.Sprintf("key %q was written and is not read back", k)
		}
		if !bytes.Equal(wv, gv) {
			return fmt.Sprintf("key %q: wrote %d bytes %q, read back %d bytes %q", k, len(wv), clipB(wv), len(gv), clipB(gv))
		}
	}
	return ""
}

func diffList(want, got []string) string {
	if len(want) != len(got) {
		return fmt.Sprintf("%d delete prefixes read back %q, %d written %q", len(got), got, len(want), want)
	}
	for i := range want {
		if want[i] != got[i] {
			return fmt.Sprintf("delete prefix %d: wrote %q, read back %q", i, want[i], got[i])
		}
	}
	return ""
}

func runStoreContent(c *fw.Case, idx int) {
	binary := idx%3 == 2
	family := "utf8"
	if binary {
		family = "binary"
	}
	n := sizeClass(c)
	kv := map[string][]byte{}
	var pool []string
	for i := 1 + c.R.Intn(3); i > 0; i-- {
		pool = append(pool, bytesgen.Str(c.R, binary, 1, 6))
	}
	bigLeft := 2
	for tries := 0; len(kv) < n && tries < 4*n+10; tries++ {
		var k string
		switch c.R.Intn(5) {
		case 0:
			k = bytesgen.Str(c.R, binary, 1, 60)
		case 1:
			k = bytesgen.Str(c.R, binary, 1, 2)
		default:
			k = pool[c.R.Intn(len(pool))] + bytesgen.Str(c.R, binary, 0, 30)
		}
		if len(k) == 0 || k[0] == 0xFF { // what a store accepts
			continue
		}
		if c.R.Intn(300) == 0 { // key length over one varint byte
			k += bytesgen.Str(c.R, binary, 130, 500)
		}
		if _, dup := kv[k]; dup {
			continue
		}
		v := bytesgen.Value(c.R, bigLeft > 0)
		if len(v) > 2000 {
			bigLeft--
		}
		kv[k] = v
	}
	var prefixes []string
	for i := []int{0, 0, 1, 3, 12}[c.R.Intn(5)]; i > 0; i-- {
		switch c.R.Intn(4) {
		case 0:
			prefixes = append(prefixes, "")
		case 1:
			prefixes = append(prefixes, bytesgen.Str(c.R, binary, 1, 200))
		default:
			prefixes = append(prefixes, pool[c.R.Intn(len(pool))])
		}
	}
	validUTF8 := true
	for k := range kv {
		if !utf8.ValidString(k) {
			validUTF8 = false
		}
	}
	for _, p := range prefixes {
		if !utf8.ValidString(p) {
			validUTF8 = false
		}
	}
	var sum uint64
	for k, v := range kv {
		sum += uint64(len(k) + len(v))
	}
	c.Count("store_contents", 1)
	c.Count("store_contents_"+family, 1)
	c.Count("store_entries", int64(len(kv)))
	c.Max("store_entries_in_one_content", int64(len(kv)))

	// a private copy per use, so that no codec can disturb the expectation
	fresh := func() *marshaller.StoreData {
		d := &marshaller.StoreData{}
		if len(kv) > 0 || c.R.Intn(2) == 0 {
			d.Kv = make(map[string][]byte, len(kv))
		}
		for k, v := range kv {
			if v == nil {
				d.Kv[k] = nil
			} else {
				d.Kv[k] = append([]byte{}, v...)
			}
		}
		d.DeletePrefixes = append([]string(nil), prefixes...)
		return d
	}
	wit := func(name string, enc []byte) *storeWitness {
		w := &storeWitness{Family: family, Marshaller: name, Entries: len(kv), Prefixes: prefixes}
		ks := make([]string, 0, len(kv))
		for k := range kv {
			ks = append(ks, k)
		}
		sort.Strings(ks)
		for i, k := range ks {
			if i >= 60 {
				break
			}
			w.First = append(w.First, kvEntry{k, clipB(kv[k])})
		}
		if len(enc) > 200 {
			enc = enc[:200]
		}
		w.Bytes = enc
		return w
	}

	def := marshaller.Default()
	type mk struct {
		name         string
		m            marshaller.Marshaller
		prefixes     bool // carries deleted prefixes
		schemaFree   bool // promises arbitrary bytes in keys (no protobuf string validation inside)
		sizeDemanded bool
	}
	ms := []mk{
		{"default(" + typeName(def) + ")", def, true, true, true},
		{"vtproto", &marshaller.VTproto{}, true, true, true},
		{"proto", &marshaller.Proto{}, true, false, false},
		{"protoing-fast", &marshaller.ProtoingFast{}, true, false, false},
		{"binary", &marshaller.Binary{}, false, true, false},
	}
	encoded := map[string][]byte{}
	for _, x := range ms {
		demanded := validUTF8 || x.schemaFree
		c.Count("marshaller_roundtrips/"+x.name, 1)
		enc, err := x.m.Marshal(fresh())
		if err != nil {
			if demanded {
				c.Violation("C18/marshaller/"+x.name+"/marshal-error", x.name+".Marshal failed: "+err.Error(), wit(x.name, nil))
				return
			}
			c.Count("obs_binary/"+x.name+"/marshal-refuses-invalid-utf8", 1)
			continue
		}
		encoded[x.name] = enc
		if demanded {
			// the bytes of a snapshot must stay what they are when the SAME marshaller encodes the store's next (not larger)
			// snapshot: the squasher saves the next boundary while the previous write may still be pending
			keep := append([]byte(nil), enc...)
			d2 := fresh()
			drop := 0
			for k := range d2.Kv {
				if drop%2 == 0 {
					delete(d2.Kv, k)
				}
				drop++
			}
			if _, err := x.m.Marshal(d2); err == nil && !bytes.Equal(enc, keep) {
				c.Violation("C18/marshaller/"+x.name+"/encoding-overwritten-by-next-marshal", x.name+": the bytes returned by Marshal changed when the same marshaller encoded a second, smaller content", wit(x.name, keep))
				return
			}
			c.Count("second_marshal_on_same_marshaller", 1)
		}
		out, size, err := x.m.Unmarshal(enc)
		if err != nil {
			if demanded {
				c.Violation("C18/marshaller/"+x.name+"/unmarshal-error", x.name+".Unmarshal cannot read what "+x.name+".Marshal wrote: "+err.Error(), wit(x.name, enc))
				return
			}
			c.Count("obs_binary/"+x.name+"/unmarshal-rejects-its-own-output-with-invalid-utf8", 1)
			continue
		}
		if out == nil {
			c.Violation("C18/marshaller/"+x.name+"/nil-result", x.name+".Unmarshal returned nil data and no error", wit(x.name, enc))
			return
		}
		if d := diffKV(kv, out.Kv); d != "" {
			if demanded {
				c.Violation("C18/marshaller/"+x.name+"/roundtrip-kv", x.name+" Marshal -> Unmarshal: "+d, wit(x.name, enc))
				return
			}
			c.Count("obs_binary/"+x.name+"/roundtrip-mismatch", 1)
			continue
		}
		if x.prefixes {
			if d := diffList(prefixes, out.DeletePrefixes); d != "" {
				if demanded {
					c.Violation("C18/marshaller/"+x.name+"/roundtrip-prefixes", x.name+" Marshal -> Unmarshal: "+d, wit(x.name, enc))
					return
				}
				c.Count("obs_binary/"+x.name+"/roundtrip-mismatch", 1)
				continue
			}
		}
		if !demanded {
			c.Count("obs_binary/"+x.name+"/roundtrip-equal", 1)
		}
		if x.sizeDemanded {
			c.Count("sizes_compared", 1)
			if size != sum {
				c.Violation("C18/size", fmt.Sprintf("%s.Unmarshal reports a content size of %d; sum(len key + len value) = %d over %d entries", x.name, size, sum, len(kv)), wit(x.name, enc))
				return
			}
		} else if size == sum {
			c.Count("obs_size_correct/"+x.name, 1)
		} else if size == 0 {
			c.Count("obs_size_zero_reported/"+x.name, 1)
		} else {
			c.Count("obs_size_wrong_nonzero/"+x.name, 1)
		}
	}

	// cross-codec directions: valid UTF-8 only
	if validUTF8 {
		type cross struct {
			sig    string
			enc    []byte
			decode func([]byte) (map[string][]byte, []string, uint64, bool, error) // kv, prefixes, size, sizeDemanded
		}
		stdDecode := func(b []byte) (map[string][]byte, []string, uint64, bool, error) {
			sd := &pbstore.StoreData{}
			if err := proto.Unmarshal(b, sd); err != nil {
				return nil, nil, 0, false, err
			}
			return sd.Kv, sd.DeletePrefixes, 0, false, nil
		}
		via := func(m marshaller.Marshaller, sizeDemanded bool) func([]byte) (map[string][]byte, []string, uint64, bool, error) {
			return func(b []byte) (map[string][]byte, []string, uint64, bool, error) {
				out, size, err := m.Unmarshal(b)
				if err != nil {
					return nil, nil, 0, false, err
				}
				return out.Kv, out.DeletePrefixes, size, sizeDemanded, nil
			}
		}
		sd := fresh()
		stdEnc, err := proto.Marshal(&pbstore.StoreData{Kv: sd.Kv, DeletePrefixes: sd.DeletePrefixes})
		if err != nil {
			c.Violation("C18/std-encode/error", "proto.Marshal(StoreData) failed on valid UTF-8 content: "+err.Error(), wit("std", nil))
			return
		}
		vtEnc, err := (&pbstore.StoreData{Kv: sd.Kv, DeletePrefixes: sd.DeletePrefixes}).MarshalVT()
		if err != nil {
			c.Violation("C18/vt-encode/error", "StoreData.MarshalVT failed: "+err.Error(), wit("vt", nil))
			return
		}
		for _, x := range []cross{
			{"C18/cross/protoing-fast-to-std", encoded["protoing-fast"], stdDecode},
			{"C18/cross/vtproto-to-std", encoded["vtproto"], stdDecode},
			{"C18/cross/default-to-std", encoded[ms[0].name], stdDecode},
			{"C18/cross/std-to-vtproto", stdEnc, via(&marshaller.VTproto{}, true)},
			{"C18/cross/std-to-default", stdEnc, via(marshaller.Default(), true)},
			{"C18/cross/std-to-protoing-fast", stdEnc, via(&marshaller.ProtoingFast{}, false)},
			{"C18/cross/proto-to-vtproto", encoded["proto"], via(&marshaller.VTproto{}, true)},
			{"C18/cross/vtproto-to-proto", encoded["vtproto"], via(&marshaller.Proto{}, false)},
			{"C18/cross/protoing-fast-to-vtproto", encoded["protoing-fast"], via(&marshaller.VTproto{}, true)},
			{"C18/cross/vtproto-to-protoing-fast", encoded["vtproto"], via(&marshaller.ProtoingFast{}, false)},
			{"C18/cross/generated-vt-to-vtproto", vtEnc, via(&marshaller.VTproto{}, true)},
		} {
			if x.enc == nil && len(kv)+len(prefixes) > 0 {
				continue // encoder output missing (already reported above)
			}
			c.Count("cross_decodes_compared", 1)
			gkv, gp, size, sizeDemanded, err := x.decode(x.enc)
			if err != nil {
				c.Violation(x.sig+"/decode-error", x.sig+": "+err.Error(), wit(x.sig, x.enc))
				return
			}
			if d := diffKV(kv, gkv); d != "" {
				c.Violation(x.sig+"/kv-mismatch", x.sig+": "+d, wit(x.sig, x.enc))
				return
			}
			if d := diffList(prefixes, gp); d != "" {
				c.Violation(x.sig+"/prefixes-mismatch", x.sig+": "+d, wit(x.sig, x.enc))
				return
			}
			if sizeDemanded {
				c.Count("sizes_compared", 1)
				if size != sum {
					c.Violation("C18/size", fmt.Sprintf("%s: the decoder reports a content size of %d; sum(len key + len value) = %d over %d entries", x.sig, size, sum, len(kv)), wit(x.sig, x.enc))
					return
				}
			}
		}
	}

	if len(kv) >= 2 && len(prefixes) >= 1 {
		c.Nontrivial(fmt.Sprintf("store/%s/%d/%d/%x", family, len(kv), sum, fw.Hash(fmt.Sprint(prefixes))))
	}
	if c.WantSample() && len(kv) >= 2 && len(kv) <= 4 && len(prefixes) >= 1 && validUTF8 {
		c.Sample(map[string]any{"family": "store-content", "content": wit("", encoded["vtproto"]), "size": sum})
	}
}

func typeName(v any) string {
	t := reflect.TypeOf(v)
	for t.Kind() == reflect.Ptr {
		t = t.Elem()
	}
	return t.Name()
}
