package c10

import (
	"bytes"
	"context"
	"fmt"
	"io"
	"sync"

	"github.com/streamingfast/dstore"
	pbsubstreams "github.com/streamingfast/substreams/pb/sf/substreams/v1"
	"github.com/streamingfast/substreams/storage/store"
	"go.uber.org/zap"

	"verif/harness/fw"
)

// flakyStore fails the first WriteObject of every object AFTER having consumed the content
// (a dropped connection at the end of an upload), then behaves normally: saveStore retries.
type flakyStore struct {
	dstore.Store
	mu    *sync.Mutex
	seen  map[string]int
	reads map[string]int
	// cutAt: position (fraction in 1/8) at which the first read of each object fails
	cutAt int
}

type cutReader struct {
	r    io.ReadCloser
	left int
}

func (c *cutReader) Read(p []byte) (int, error) {
	if c.left <= 0 {
		return 0, fmt.Errorf("injected: connection reset while downloading")
	}
	if len(p) > c.left {
		p = p[:c.left]
	}
	n, err := c.r.Read(p)
	c.left -= n
	return n, err
}
func (c *cutReader) Close() error { return c.r.Close() }

func (f *flakyStore) OpenObject(ctx context.Context, name string) (io.ReadCloser, error) {
	r, err := f.Store.OpenObject(ctx, name)
	if err != nil {
		return nil, err
	}
	f.mu.Lock()
	f.reads[name]++
	n := f.reads[name]
	f.mu.Unlock()
	if n == 1 && f.cutAt > 0 {
		b, _ := io.ReadAll(r)
		r.Close()
		r2, _ := f.Store.OpenObject(ctx, name)
		return &cutReader{r: r2, left: len(b) * f.cutAt / 8}, nil
	}
	return r, nil
}

func (f *flakyStore) WriteObject(ctx context.Context, base string, r io.Reader) error {
	f.mu.Lock()
	f.seen[base]++
	n := f.seen[base]
	f.mu.Unlock()
	if n == 1 {
		io.Copy(io.Discard, r)
		return fmt.Errorf("injected: connection reset at the end of the upload of %s", base)
	}
	return f.Store.WriteObject(ctx, base, r)
}

func (f *flakyStore) SubStore(sub string) (dstore.Store, error) {
	s, err := f.Store.SubStore(sub)
	if err != nil {
		return nil, err
	}
	return &flakyStore{Store: s, mu: f.mu, seen: f.seen, reads: f.reads, cutAt: f.cutAt}, nil
}

func flakyCases(tier, mode string) int {
	if mode != "plain" {
		return 0
	}
	if tier == "thorough" {
		return 64
	}
	return 16
}

// runFlaky: a snapshot whose first upload attempt fails (and whose first download is cut) must, after the retry the code performs,
// load back with the full content (the retry must upload the content again, not an empty body).
func runFlaky(c *fw.Case) {
	base, err := dstore.NewStore("memory://flaky", "", "", true)
	if err != nil {
		panic(err)
	}
	fs := &flakyStore{Store: base, mu: &sync.Mutex{}, seen: map[string]int{}, reads: map[string]int{}, cutAt: c.R.Intn(8)}
	cfg, err := store.NewConfig("s", 5, "h", pbsubstreams.Module_KindStore_UPDATE_POLICY_SET, "string", fs)
	if err != nil {
		panic(err)
	}
	n := 1 + c.R.Intn(40)
	want := map[string][]byte{}
	ctx := context.Background()
	check := func(kind string, loaded store.Store) {
		got := map[string][]byte{}
		loaded.Iter(func(k string, v []byte) error { got[k] = v; return nil })
		c.Count("flaky_write_roundtrips", 1)
		var real uint64
		for k, v := range got {
			real += uint64(len(k) + len(v))
		}
		if loaded.SizeBytes() != real {
			c.Violation("C10/roundtrip/size-after-read-retry", fmt.Sprintf("%s snapshot loaded after a failed first download reports SizeBytes()=%d but holds %d bytes", kind, loaded.SizeBytes(), real), map[string]any{"keys": n})
			return
		}
		if len(got) != len(want) {
			c.Violation("C10/roundtrip/content-lost-after-write-retry", fmt.Sprintf("%s snapshot: first upload attempt failed, the retry succeeded, but the file loads back %d keys instead of %d", kind, len(got), len(want)), map[string]any{"keys": n})
			return
		}
		for k, v := range want {
			if !bytes.Equal(got[k], v) {
				c.Violation("C10/roundtrip/content-lost-after-write-retry", fmt.Sprintf("%s snapshot: key %q differs after a retried write", kind, k), nil)
				return
			}
		}
	}
	full := cfg.NewFullKV(zap.NewNop())
	part := cfg.NewPartialKV(20, zap.NewNop())
	for i := 0; i < n; i++ {
		k, v := fmt.Sprintf("k%03d", i), []byte(fmt.Sprintf("value-%d-%d", i, c.R.Intn(1000)))
		want[k] = v
		full.ApplyDelta(&pbsubstreams.StoreDelta{Operation: pbsubstreams.StoreDelta_CREATE, Key: k, NewValue: v})
		part.SetBytes(uint64(i), k, v)
	}
	part.DeletePrefix(0, "zz")
	if err := part.Flush(); err != nil {
		panic(err)
	}
	file, w, err := full.Save(30)
	var file2 *store.FileInfo
	want2 := map[string][]byte{}
	if err == nil {
		// the squasher queues the write and goes on merging into the same store: what is written must be the store AT Save time,
		// also when the NEXT boundary's snapshot is saved (same or smaller size) before the first write has happened
		full.ApplyDelta(&pbsubstreams.StoreDelta{Operation: pbsubstreams.StoreDelta_CREATE, Key: "zzz-added-after-save", NewValue: []byte("later")})
		full.ApplyDelta(&pbsubstreams.StoreDelta{Operation: pbsubstreams.StoreDelta_DELETE, Key: "k000", OldValue: want["k000"]})
		if c.R.Intn(2) == 0 {
			for k, v := range want { // shrink: the second snapshot is not larger than the first
				if k != "k000" && len(v) > 0 && c.R.Intn(3) == 0 {
					full.ApplyDelta(&pbsubstreams.StoreDelta{Operation: pbsubstreams.StoreDelta_UPDATE, Key: k, OldValue: v, NewValue: v[:len(v)/2]})
				}
			}
		}
		full.Iter(func(k string, v []byte) error { want2[k] = append([]byte(nil), v...); return nil })
		var w2 interface{ Write(context.Context) error }
		var err2 error
		file2, w2, err2 = full.Save(40)
		err = w.Write(ctx)
		if err == nil && err2 == nil {
			err = w2.Write(ctx)
		} else if err == nil {
			err = err2
		}
	}
	if err != nil {
		c.Violation("C10/roundtrip/write-retry-failed", "saving a full snapshot through a store whose first write attempt fails returned: "+err.Error(), nil)
		return
	}
	lf := cfg.NewFullKV(zap.NewNop())
	if err := lf.Load(ctx, file); err != nil {
		c.Violation("C10/roundtrip/load-after-write-retry", "load failed: "+err.Error(), nil)
		return
	}
	check("full", lf)
	if file2 != nil {
		lf2 := cfg.NewFullKV(zap.NewNop())
		if err := lf2.Load(ctx, file2); err != nil {
			c.Violation("C10/roundtrip/load-after-write-retry", "load of the second snapshot failed: "+err.Error(), nil)
			return
		}
		save := want
		want = want2
		check("full (second snapshot, saved before the first was written)", lf2)
		want = save
	}
	pfile, pw, err := part.Save(30)
	if err == nil {
		err = pw.Write(ctx)
	}
	if err != nil {
		c.Violation("C10/roundtrip/write-retry-failed", "saving a partial snapshot through a store whose first write attempt fails returned: "+err.Error(), nil)
		return
	}
	lp := cfg.NewPartialKV(20, zap.NewNop())
	if err := lp.Load(ctx, pfile); err != nil {
		c.Violation("C10/roundtrip/load-after-write-retry", "load failed: "+err.Error(), nil)
		return
	}
	check("partial", lp)
	if len(lp.DeletedPrefixes) != 1 {
		c.Violation("C10/roundtrip/content-lost-after-write-retry", fmt.Sprintf("partial snapshot: deleted prefixes %q after a retried write, expected [\"zz\"]", lp.DeletedPrefixes), nil)
	}
	c.Nontrivial(fmt.Sprintf("flaky|%d|%d", n, c.Index))
}
