// Package bytesgen generates strings, byte values and integers for the C10 and
// C18 drivers from a case PRNG: valid UTF-8 (with NUL and multi-byte runes) or
// arbitrary bytes, values with lengths at varint boundaries, integers at
// varint boundaries.
package bytesgen

import (
	"math/rand"
	"unicode/utf8"
)

var runePool = []rune{0, 1, '\n', ' ', '"', '\\', '.', '-', ':', '/', '0', '9', 'a', 'f', 'z', 'A', 'Z', 0x7f,
	0x80, 0xe9, 0x7ff, 0x800, 0x20ac, 0xfffd, 0xffff, 0x10000, 0x1f600, 0x10ffff}

// UTF8 returns a valid UTF-8 string of minRunes..maxRunes runes.
func UTF8(r *rand.Rand, minRunes, maxRunes int) string {
	n := minRunes
	if maxRunes > minRunes {
		n += r.Intn(maxRunes - minRunes + 1)
	}
	buf := make([]byte, 0, n*2)
	for i := 0; i < n; i++ {
		var ru rune
		switch r.Intn(4) {
		case 0:
			ru = runePool[r.Intn(len(runePool))]
		case 1:
			ru = rune('a' + r.Intn(26))
		case 2:
			ru = rune("0123456789abcdef"[r.Intn(16)])
		default:
			ru = rune(r.Intn(0x110000))
			if ru >= 0xd800 && ru <= 0xdfff {
				ru = 0xe000
			}
		}
		buf = utf8.AppendRune(buf, ru)
	}
	return string(buf)
}

// Binary returns a string of minLen..maxLen arbitrary bytes (usually invalid UTF-8).
func Binary(r *rand.Rand, minLen, maxLen int) string {
	n := minLen
	if maxLen > minLen {
		n += r.Intn(maxLen - minLen + 1)
	}
	b := make([]byte, n)
	for i := range b {
		switch r.Intn(6) {
		case 0:
			b[i] = []byte{0x00, 0x7f, 0x80, 0xbf, 0xc0, 0xc1, 0xf5, 0xfe, 0xff}[r.Intn(9)]
		default:
			b[i] = byte(r.Intn(256))
		}
	}
	return string(b)
}

// Str returns UTF8 or Binary.
func Str(r *rand.Rand, binary bool, minLen, maxLen int) string {
	if binary {
		return Binary(r, minLen, maxLen)
	}
	return UTF8(r, minLen, maxLen)
}

// Bytes returns n pseudo-random bytes.
func Bytes(r *rand.Rand, n int) []byte {
	b := make([]byte, n)
	r.Read(b)
	return b
}

// Value returns a byte value: nil, empty, short, medium, or (when big is
// allowed) of a length at a varint boundary.
func Value(r *rand.Rand, big bool) []byte {
	switch x := r.Intn(100); {
	case x < 6:
		return nil
	case x < 14:
		return []byte{}
	case x < 80:
		return Bytes(r, 1+r.Intn(40))
	case x < 93:
		return Bytes(r, 41+r.Intn(260))
	case x < 97 || !big:
		return Bytes(r, []int{126, 127, 128, 129, 255, 256}[r.Intn(6)])
	default:
		return Bytes(r, []int{16382, 16383, 16384, 16385, 3000, 70000}[r.Intn(6)])
	}
}

// U64 returns an unsigned integer, often at a varint boundary 2^(7k)-1, 2^(7k), or 2^64-1.
func U64(r *rand.Rand) uint64 {
	switch r.Intn(5) {
	case 0:
		k := uint(1 + r.Intn(9))
		if r.Intn(2) == 0 {
			return uint64(1)<<(7*k) - 1
		}
		return uint64(1) << (7 * k)
	case 1:
		return []uint64{0, 1, ^uint64(0), ^uint64(0) - 1, 1 << 63, 1<<63 - 1, 1<<32 - 1, 1 << 32}[r.Intn(8)]
	case 2:
		return uint64(r.Intn(1000))
	default:
		return r.Uint64() >> uint(r.Intn(64))
	}
}

// I64 returns a signed integer, often with a magnitude at a varint boundary, negative or positive.
func I64(r *rand.Rand) int64 {
	switch r.Intn(6) {
	case 0:
		return []int64{0, 1, -1, 1<<63 - 1, -1 << 63, 1<<31 - 1, -1 << 31, 1 << 31, 253402300799, -62135596800, 253402300800, -62135596801}[r.Intn(12)]
	default:
		v := int64(U64(r) >> 1)
		if r.Intn(2) == 0 {
			v = -v
		}
		return v
	}
}

// I32 returns a signed 32-bit integer (nanos), often at boundaries.
func I32(r *rand.Rand) int32 {
	switch r.Intn(4) {
	case 0:
		return []int32{0, 1, -1, 127, 128, 16383, 16384, 999999999, 1000000000, -999999999, 1<<31 - 1, -1 << 31}[r.Intn(12)]
	case 1:
		return int32(r.Intn(1000000000))
	default:
		return int32(r.Uint32())
	}
}

// Block returns a block number of at most 10 decimal digits, often at a
// boundary of the digit count or of a varint.
func Block(r *rand.Rand) uint64 {
	const max10 = 9999999999
	switch r.Intn(6) {
	case 0:
		p := uint64(1)
		for i := r.Intn(11); i > 0; i-- {
			p *= 10
		}
		switch r.Intn(3) {
		case 0:
			if p > 1 {
				return p - 1
			}
			return 0
		case 1:
			if p > max10 {
				return max10
			}
			return p
		default:
			if p+1 > max10 {
				return max10
			}
			return p + 1
		}
	case 1:
		return []uint64{0, 1, 2, max10, max10 - 1, 1<<31 - 1, 1 << 31, 1<<32 - 1, 1 << 32, 1<<33 - 1, 4294967295 + 10}[r.Intn(11)]
	case 2:
		return uint64(r.Intn(2000))
	case 3:
		return uint64(r.Int63n(max10 + 1))
	default:
		// random number of digits
		d := 1 + r.Intn(10)
		p := int64(1)
		for i := 0; i < d; i++ {
			p *= 10
		}
		return uint64(r.Int63n(p))
	}
}
