// Package c10 checks property C10: store snapshots round-trip through
// save/load and are found by block range.
package c10

import (
	"bytes"
	"context"
	"errors"
	"fmt"
	"os"
	"path/filepath"
	"sort"
	"strings"
	"unicode/utf8"

	"github.com/streamingfast/dstore"
	pbsubstreams "github.com/streamingfast/substreams/pb/sf/substreams/v1"
	"github.com/streamingfast/substreams/storage/store"
	"go.uber.org/zap"

	"verif/harness/fw"
	"verif/harness/props/c10/bytesgen"
)

const max10 = 9999999999

type backend struct {
	Name    string
	Ext     string
	Comp    string
	Local   bool
	Ordered bool // wrap in orderedStore
}

// orderedStore is a local dstore whose Walk behaves as dstore.Store.Walk is
// documented and as the object stores (GCS, S3) behave: names come in
// lexicographic order and the iteration stops right away when the callback
// returns dstore.StopIteration (dstore's LocalStore.Walk merely skips that
// file and carries on, which hides the early stop of ListSnapshotFiles).
type orderedStore struct {
	dstore.Store
}

func (o *orderedStore) Walk(ctx context.Context, prefix string, f func(filename string) error) error {
	var names []string
	if err := o.Store.Walk(ctx, prefix, func(name string) error { names = append(names, name); return nil }); err != nil {
		return err
	}
	sort.Strings(names)
	for _, n := range names {
		if err := f(n); err != nil {
			if errors.Is(err, dstore.StopIteration) {
				return nil
			}
			return err
		}
	}
	return nil
}

func (o *orderedStore) SubStore(sub string) (dstore.Store, error) {
	s, err := o.Store.SubStore(sub)
	if err != nil {
		return nil, err
	}
	return &orderedStore{s}, nil
}

var backends = []backend{
	{"local", "", "", true, false},
	{"local-zst", "zst", "zstd", true, false}, // what app/tier1.go and service/tier2.go configure
	{"memory", "", "", false, false},
}

var listingBackends = []backend{
	backends[0],
	backends[1],
	{"object-store-walk-zst", "zst", "zstd", true, true},
	{"object-store-walk", "", "", true, true},
}

func counts(tier, mode string) (roundTrips, listings int) {
	if tier == "thorough" {
		if mode == "plain" {
			return 10000, 2500
		}
		return 2000, 300
	}
	if mode == "plain" {
		return 300, 120
	}
	return 120, 24
}

func init() {
	fw.Register(&fw.Spec{
		ID:    "C10",
		Level: "exploration",
		Rule: "round-trip case = one PRNG store content (key family valid-UTF-8 or arbitrary-bytes alternating, 0..5000 entries, nil/empty/varint-boundary-length values, shared key prefixes) written into a real FullKV (ApplyDelta CREATE/UPDATE/DELETE, or SetBytes/DeletePrefix+Flush) and into a real PartialKV (SetBytes/DeletePrefix+Flush over several blocks, duplicate/empty/binary deleted prefixes), " +
			"Save(end)+Write then Load into a fresh store of the same Config, on a local directory dstore (plain, and zst/zstd like production) or the in-memory dstore, block ranges up to 10 digits; compared: key set, values (by bytes), deleted-prefix list, SizeBytes against sum(len k+len v) and against the saved store, FileInfo range/kind. " +
			"write-retry family: the snapshot written must be the store as it was at Save time, also when the store is modified and the NEXT boundary's snapshot (sometimes smaller) is saved before the first write happens; both files load back their own content. " +
			"multi-store listing (plain mode: quick 24, thorough 400): 2..7 store configs with DIFFERENT sets of saved snapshots on one object store, state.FetchState (which lists them concurrently) must file under each store's name exactly what that store's own ListSnapshotFiles returns. " +
			"listing case = one Config on a local directory dstore (plain / zst, each also behind a Walk that lists lexicographically and honours StopIteration as the object stores do) with 1..12 really saved full and partial snapshots over PRNG block numbers of 1..10 digits, planted writer temp files (dstore '<name>.<8 letters>.tmp'), foreign files, and every interesting 'below' (0, each start/end -1/+0/+1, 10-digit max, 2^64-1): ListSnapshotFiles must contain every saved snapshot ending at or below it with its range and kind, must not list a temp/foreign file, and the listed FileInfo must load the saved content. " +
			"write/read-retry case = a full and a partial snapshot saved through a store whose FIRST WriteObject of each object fails after consuming the body and whose FIRST download is cut at k/8 of the object (the code retries both); the full store is modified between Save() and the queued Write(): the file must load back complete, with the content at Save time and an exact size. " +
			"non-trivial = round trip with >=1 entry and (for the partial) >=1 deleted prefix; listing case with >=2 snapshots and a 'below' that separates them; distinct by case content hash",
		Assumptions: []string{
			"store keys are what the store accepts: non-empty, first byte != 0xFF, not starting with the reserved \"__!__\"; otherwise arbitrary bytes",
			"nil and empty values are the same value (compared by bytes)",
			"the deleted-prefix list is compared as a list (order and multiplicity as the saved store holds it)",
			"listing: a superset is accepted (the code also returns snapshots that merely START below); only temp files of a half-finished write and files whose name has no 'end-start.kind' shape must be absent; near-miss names (e.g. '<snapshot>.bak') are only counted (obs_nearmiss_*)",
			"save and load go through the same store.Config (the in-memory dstore copies on SubStore)",
			"an object store lists names in lexicographic order and stops at dstore.StopIteration (documented contract of dstore.Store.Walk; dstore's LocalStore.Walk does not stop): modelled by a harness wrapper around the local dstore for half of the listing cases",
			"snapshot ranges are non-empty (start < end) and at most 10 decimal digits",
		},
		Modes: func(tier string) []string { return []string{"plain", "checkptr", "asan"} },
		Cases: func(tier, mode string) int {
			a, b := counts(tier, mode)
			return a + b + flakyCases(tier, mode) + multiCases(tier, mode)
		},
		MinNontrivial: 100,
		CaseTimeout:   180e9,
		Run:           run,
	})
}

func run(c *fw.Case) {
	nRT, nL := counts(c.Tier, c.Mode)
	if c.Index >= nRT+nL+flakyCases(c.Tier, c.Mode) {
		runMulti(c)
		return
	}
	if c.Index >= nRT+nL {
		runFlaky(c)
		return
	}
	if c.Index < nRT {
		runRoundTrip(c, c.Index)
	} else {
		runListing(c, c.Index-nRT)
	}
}

// ---------------------------------------------------------------- config on a backend

type env struct {
	be        backend
	cfg       *store.Config
	dir       string // root directory (local backends)
	statesDir string
	cleanup   func()
}

func newEnv(be backend, name string, initialBlock uint64) (*env, error) {
	e := &env{be: be, cleanup: func() {}}
	hash := "c10hash" + name
	var ds dstore.Store
	var err error
	if be.Local {
		scratch := os.Getenv("VH_SCRATCH")
		if scratch == "" {
			scratch = os.TempDir()
		}
		e.dir, err = os.MkdirTemp(scratch, "c10-")
		if err != nil {
			return nil, err
		}
		e.cleanup = func() { os.RemoveAll(e.dir) }
		e.statesDir = filepath.Join(e.dir, hash, "states")
		ds, err = dstore.NewStore("file://"+e.dir, be.Ext, be.Comp, true)
		if err == nil && be.Ordered {
			ds = &orderedStore{ds}
		}
	} else {
		ds, err = dstore.NewStore("memory://c10"+name, be.Ext, be.Comp, true)
	}
	if err != nil {
		e.cleanup()
		return nil, err
	}
	e.cfg, err = store.NewConfig(name, initialBlock, hash, pbsubstreams.Module_KindStore_UPDATE_POLICY_SET, "bytes", ds)
	if err != nil {
		e.cleanup()
		return nil, err
	}
	return e, nil
}

// ---------------------------------------------------------------- content generation

func validKey(k string) bool {
	return len(k) > 0 && k[0] != 0xFF && !strings.HasPrefix(k, "__!__")
}

type keyGen struct {
	binary bool
	pool   []string
	seen   map[string]bool
}

func newKeyGen(c *fw.Case, binary bool) *keyGen {
	g := &keyGen{binary: binary, seen: map[string]bool{}}
	for i := 1 + c.R.Intn(4); i > 0; i-- {
		p := bytesgen.Str(c.R, binary, 1, 5)
		if validKey(p) {
			g.pool = append(g.pool, p)
		}
	}
	if len(g.pool) == 0 {
		g.pool = []string{"p"}
	}
	return g
}

// fresh returns a key not returned before (ok=false if it gave up).
func (g *keyGen) fresh(c *fw.Case) (string, bool) {
	for try := 0; try < 50; try++ {
		var k string
		switch c.R.Intn(10) {
		case 0, 1:
			k = bytesgen.Str(c.R, g.binary, 1, 40)
		case 2:
			k = bytesgen.Str(c.R, g.binary, 1, 2)
		case 3:
			k = g.pool[c.R.Intn(len(g.pool))] // the bare prefix itself
		default:
			k = g.pool[c.R.Intn(len(g.pool))] + bytesgen.Str(c.R, g.binary, 0, 24)
		}
		if validKey(k) && !g.seen[k] {
			g.seen[k] = true
			return k, true
		}
	}
	return "", false
}

func (g *keyGen) prefix(c *fw.Case) string {
	switch c.R.Intn(12) {
	case 0:
		return "" // deletes everything
	case 1, 2:
		return bytesgen.Str(c.R, g.binary, 1, 4) // may start with 0xFF, usually hits nothing
	case 3:
		p := g.pool[c.R.Intn(len(g.pool))]
		return p + bytesgen.Str(c.R, g.binary, 1, 1)
	default:
		return g.pool[c.R.Intn(len(g.pool))]
	}
}

func entryCount(c *fw.Case) int {
	switch x := c.R.Intn(100); {
	case x < 8:
		return 0
	case x < 25:
		return 1 + c.R.Intn(3)
	case x < 65:
		return 4 + c.R.Intn(60)
	case x < 90:
		return 64 + c.R.Intn(600)
	default:
		return 700 + c.R.Intn(4301)
	}
}

func blockPair(c *fw.Case) (uint64, uint64) {
	for {
		a, b := bytesgen.Block(c.R), bytesgen.Block(c.R)
		if c.R.Intn(3) == 0 { // short range
			b = a + uint64(1+c.R.Intn(1000))
			if b > max10 {
				b = max10
			}
		}
		if a > b {
			a, b = b, a
		}
		if a < b {
			return a, b
		}
	}
}

// op is one recorded input operation (for witnesses and the model).
type op struct {
	Kind  string `json:"op"` // create update delete set delete_prefix flush
	Key   string `json:"key,omitempty"`
	Value []byte `json:"value,omitempty"`
	Ord   uint64 `json:"ord,omitempty"`
}

type model struct {
	kv       map[string][]byte
	prefixes []string
	seenPfx  map[string]bool
}

func newModel() *model { return &model{kv: map[string][]byte{}, seenPfx: map[string]bool{}} }

func (m *model) set(k string, v []byte) { m.kv[k] = append([]byte{}, v...) }
func (m *model) deletePrefix(p string, record bool) (hit int) {
	for k := range m.kv {
		if strings.HasPrefix(k, p) {
			delete(m.kv, k)
			hit++
		}
	}
	if record && !m.seenPfx[p] {
		m.seenPfx[p] = true
		m.prefixes = append(m.prefixes, p)
	}
	return
}
func (m *model) size() (n uint64) {
	for k, v := range m.kv {
		n += uint64(len(k) + len(v))
	}
	return
}
func (m *model) sortedKeys() []string {
	ks := make([]string, 0, len(m.kv))
	for k := range m.kv {
		ks = append(ks, k)
	}
	sort.Strings(ks)
	return ks
}

func content(st store.Store) map[string][]byte {
	out := map[string][]byte{}
	st.Iter(func(k string, v []byte) error {
		out[strings.Clone(k)] = append([]byte{}, v...)
		return nil
	})
	return out
}

// fillBySets writes n entries through SetBytes/DeletePrefix + Flush over
// several blocks into st (a FullKV or a PartialKV) and mirrors them in m.
func fillBySets(c *fw.Case, st store.Store, m *model, g *keyGen, n int, recordPrefixes bool, maxPrefixes int) (ops []op, err error) {
	blocks := 1 + c.R.Intn(3)
	perBlock := n/blocks + 1
	written := 0
	bigLeft := 2
	for b := 0; b < blocks; b++ {
		st.Reset()
		ord := uint64(0)
		for i := 0; i < perBlock && written < n; i++ {
			k, ok := g.fresh(c)
			if !ok {
				break
			}
			v := bytesgen.Value(c.R, bigLeft > 0)
			if len(v) > 2000 {
				bigLeft--
			}
			ord += uint64(1 + c.R.Intn(3))
			st.SetBytes(ord, k, v)
			m.set(k, v)
			ops = append(ops, op{"set", k, v, ord})
			written++
			// overwrite an earlier key now and then
			if c.R.Intn(12) == 0 && len(m.kv) > 0 {
				ks := m.sortedKeys()
				k2 := ks[c.R.Intn(len(ks))]
				v2 := bytesgen.Value(c.R, false)
				ord++
				st.SetBytes(ord, k2, v2)
				m.set(k2, v2)
				ops = append(ops, op{"set", k2, v2, ord})
			}
			if maxPrefixes > 0 && c.R.Intn(perBlock/2+4) == 0 {
				p := g.prefix(c)
				if p == "" && c.R.Intn(3) != 0 {
					p = g.pool[0]
				}
				ord++
				st.DeletePrefix(ord, p)
				m.deletePrefix(p, recordPrefixes)
				ops = append(ops, op{"delete_prefix", p, nil, ord})
				maxPrefixes--
				if c.R.Intn(3) == 0 { // duplicate
					ord++
					st.DeletePrefix(ord, p)
					m.deletePrefix(p, recordPrefixes)
					ops = append(ops, op{"delete_prefix", p, nil, ord})
				}
			}
		}
		if err := st.Flush(); err != nil {
			return ops, err
		}
		ops = append(ops, op{Kind: "flush"})
	}
	st.Reset()
	return ops, nil
}

// fillByDeltas writes n entries through FullKV.ApplyDelta.
func fillByDeltas(c *fw.Case, st *store.FullKV, m *model, g *keyGen, n int) (ops []op) {
	bigLeft := 2
	for i := 0; i < n; i++ {
		k, ok := g.fresh(c)
		if !ok {
			break
		}
		v := bytesgen.Value(c.R, bigLeft > 0)
		if len(v) > 2000 {
			bigLeft--
		}
		st.ApplyDelta(&pbsubstreams.StoreDelta{Operation: pbsubstreams.StoreDelta_CREATE, Key: k, NewValue: v})
		m.set(k, v)
		ops = append(ops, op{"create", k, v, 0})
		if c.R.Intn(10) == 0 {
			ks := m.sortedKeys()
			k2 := ks[c.R.Intn(len(ks))]
			old := m.kv[k2]
			if c.R.Intn(3) == 0 {
				st.ApplyDelta(&pbsubstreams.StoreDelta{Operation: pbsubstreams.StoreDelta_DELETE, Key: k2, OldValue: old})
				delete(m.kv, k2)
				ops = append(ops, op{"delete", k2, nil, 0})
			} else {
				v2 := bytesgen.Value(c.R, false)
				st.ApplyDelta(&pbsubstreams.StoreDelta{Operation: pbsubstreams.StoreDelta_UPDATE, Key: k2, OldValue: old, NewValue: v2})
				m.set(k2, v2)
				ops = append(ops, op{"update", k2, v2, 0})
			}
		}
	}
	return ops
}

// ---------------------------------------------------------------- comparison

type rtWitness struct {
	Kind        string   `json:"store_kind"`
	Backend     string   `json:"backend"`
	KeyFamily   string   `json:"key_family"`
	Fill        string   `json:"fill"`
	Range       []uint64 `json:"range"`
	File        string   `json:"file,omitempty"`
	Entries     int      `json:"entries_expected"`
	Ops         []op     `json:"ops_first_300"`
	OpsTotal    int      `json:"ops_total"`
	ExpectedPfx []string `json:"expected_deleted_prefixes,omitempty"`
	Note        string   `json:"note,omitempty"`
}

func clip(ops []op) []op {
	if len(ops) > 300 {
		ops = ops[:300]
	}
	out := make([]op, len(ops))
	for i, o := range ops {
		out[i] = o
		if len(o.Value) > 64 {
			out[i].Value = o.Value[:64]
		}
	}
	return out
}

// compare checks a loaded store against the expected content. Returns false after a violation.
func compare(c *fw.Case, what string, srcSize uint64, loaded store.Store, want map[string][]byte, w *rtWitness) bool {
	got := content(loaded)
	c.Count("stores_compared", 1)
	c.Count("entries_compared", int64(len(want)))
	for k, wv := range want {
		gv, ok := got[k]
		if !ok {
			c.Violation("C10/roundtrip/key-lost", fmt.Sprintf("%s: key %q (value %d bytes) of the saved store is absent after load (%d keys expected, %d loaded)", what, k, len(wv), len(want), len(got)), w)
			return false
		}
		if !bytes.Equal(gv, wv) {
			c.Violation("C10/roundtrip/value", fmt.Sprintf("%s: key %q: saved value %q, loaded value %q", what, k, clipB(wv), clipB(gv)), w)
			return false
		}
	}
	for k := range got {
		if _, ok := want[k]; !ok {
			c.Violation("C10/roundtrip/key-added", fmt.Sprintf("%s: key %q is present after load but was not in the saved store", what, k), w)
			return false
		}
	}
	if loaded.Length() != uint64(len(want)) {
		c.Violation("C10/roundtrip/length", fmt.Sprintf("%s: Length()=%d after load, %d keys expected", what, loaded.Length(), len(want)), w)
		return false
	}
	var sum uint64
	for k, v := range want {
		sum += uint64(len(k) + len(v))
	}
	c.Count("sizes_compared", 1)
	if loaded.SizeBytes() != sum {
		c.Violation("C10/roundtrip/size", fmt.Sprintf("%s: SizeBytes()=%d after load but sum(len key + len value)=%d (saved store reported %d)", what, loaded.SizeBytes(), sum, srcSize), w)
		return false
	}
	if loaded.SizeBytes() != srcSize {
		c.Violation("C10/roundtrip/size-differs-from-saved-store", fmt.Sprintf("%s: SizeBytes()=%d after load but the saved store reported %d (sum(len key + len value)=%d)", what, loaded.SizeBytes(), srcSize, sum), w)
		return false
	}
	return true
}

func clipB(b []byte) []byte {
	if len(b) > 80 {
		return b[:80]
	}
	return b
}

func sameList(a, b []string) bool {
	if len(a) != len(b) {
		return false
	}
	for i := range a {
		if a[i] != b[i] {
			return false
		}
	}
	return true
}

// ---------------------------------------------------------------- round trip

func runRoundTrip(c *fw.Case, idx int) {
	ctx := context.Background()
	binary := idx%2 == 1
	be := backends[(idx/2)%len(backends)]
	byDeltas := (idx/6)%2 == 0
	family := "utf8"
	if binary {
		family = "binary"
	}
	fill := "set+flush"
	if byDeltas {
		fill = "apply-delta"
	}
	initial, end := blockPair(c)
	pStart := initial
	if c.R.Intn(3) != 0 && end-initial > 1 {
		pStart = initial + uint64(c.R.Int63n(int64(end-initial)))
	}
	e, err := newEnv(be, fmt.Sprintf("m%d", idx), initial)
	if err != nil {
		c.Inconclusive("cannot build the store config: " + err.Error())
		return
	}
	defer e.cleanup()
	c.Distinct("backends", be.Name)
	c.Distinct("key_families", family)
	n := entryCount(c)
	c.Max("entries", int64(n))

	// ---- full store
	{
		g := newKeyGen(c, binary)
		m := newModel()
		full := e.cfg.NewFullKV(zap.NewNop())
		var ops []op
		if byDeltas {
			ops = fillByDeltas(c, full, m, g, n)
		} else {
			ops, err = fillBySets(c, full, m, g, n, false, 2)
			if err != nil {
				c.Violation("C10/fill/flush-error", "Flush of a full store failed on accepted input: "+err.Error(), map[string]any{"ops": clip(ops), "key_family": family})
				return
			}
		}
		w := &rtWitness{Kind: "full", Backend: be.Name, KeyFamily: family, Fill: fill, Range: []uint64{initial, end}, Entries: len(m.kv), Ops: clip(ops), OpsTotal: len(ops)}
		if !sameContent(content(full), m.kv) {
			c.Violation("C10/fill/model-mismatch", "the full store does not hold what was written into it (before any save)", w)
			return
		}
		fi, wr, err := full.Save(end)
		if err != nil {
			c.Violation("C10/save/error", "FullKV.Save failed: "+err.Error(), w)
			return
		}
		w.File = fi.Filename
		if fi.Partial || fi.Range == nil || fi.Range.StartBlock != initial || fi.Range.ExclusiveEndBlock != end {
			c.Violation("C10/save/fileinfo", fmt.Sprintf("FullKV.Save(%d) of a store with initial block %d returned FileInfo range=%s partial=%v", end, initial, fi.Range, fi.Partial), w)
			return
		}
		if err := wr.Write(ctx); err != nil {
			c.Violation("C10/save/write-error", "writing the full snapshot failed: "+err.Error(), w)
			return
		}
		if ok, err := e.cfg.ExistsFullKV(ctx, end); err != nil || !ok {
			c.Violation("C10/exists/full", fmt.Sprintf("ExistsFullKV(%d)=%v,%v right after the snapshot was written", end, ok, err), w)
			return
		}
		fresh := e.cfg.NewFullKV(zap.NewNop())
		if err := fresh.Load(ctx, fi); err != nil {
			c.Violation("C10/load/error/"+family, "FullKV.Load of the snapshot just saved failed: "+err.Error(), w)
			return
		}
		if !compare(c, "full store "+fi.Filename, full.SizeBytes(), fresh, m.kv, w) {
			return
		}
		c.Count("full_roundtrips", 1)
		c.Count("full_roundtrips_"+family, 1)
		if !utf8AllKeys(m.kv) {
			c.Count("full_roundtrips_with_invalid_utf8_keys", 1)
		}
	}

	// ---- partial store
	{
		g := newKeyGen(c, binary)
		m := newModel()
		part := e.cfg.NewPartialKV(pStart, zap.NewNop())
		maxPfx := []int{0, 1, 3, 10}[c.R.Intn(4)]
		ops, err := fillBySets(c, part, m, g, n, true, maxPfx)
		if err != nil {
			c.Violation("C10/fill/flush-error", "Flush of a partial store failed on accepted input: "+err.Error(), map[string]any{"ops": clip(ops), "key_family": family})
			return
		}
		if c.R.Intn(6) == 0 {
			// a segment that ends by wiping what it wrote (or only deleted): no key left, the deleted prefixes are all it carries
			p := ""
			if c.R.Intn(2) == 0 && len(g.pool) > 0 && len(m.kv) == 0 {
				p = g.pool[0]
			}
			part.DeletePrefix(1<<40, p)
			m.deletePrefix(p, true)
			ops = append(ops, op{"delete_prefix", p, nil, 1 << 40})
			if err := part.Flush(); err != nil {
				c.Violation("C10/fill/flush-error", "Flush of a partial store failed on accepted input: "+err.Error(), map[string]any{"ops": clip(ops), "key_family": family})
				return
			}
			if len(m.kv) == 0 {
				c.Count("partial_stores_with_deleted_prefixes_and_no_key", 1)
			}
		}
		w := &rtWitness{Kind: "partial", Backend: be.Name, KeyFamily: family, Fill: "set+flush", Range: []uint64{pStart, end}, Entries: len(m.kv), Ops: clip(ops), OpsTotal: len(ops), ExpectedPfx: m.prefixes}
		if !sameContent(content(part), m.kv) || !sameList(part.DeletedPrefixes, m.prefixes) {
			c.Violation("C10/fill/model-mismatch", fmt.Sprintf("the partial store does not hold what was written into it (before any save); deleted prefixes %q", part.DeletedPrefixes), w)
			return
		}
		fi, wr, err := part.Save(end)
		if err != nil {
			c.Violation("C10/save/error", "PartialKV.Save failed: "+err.Error(), w)
			return
		}
		w.File = fi.Filename
		if !fi.Partial || fi.Range == nil || fi.Range.StartBlock != pStart || fi.Range.ExclusiveEndBlock != end {
			c.Violation("C10/save/fileinfo", fmt.Sprintf("PartialKV.Save(%d) of a partial store starting at %d returned FileInfo range=%s partial=%v", end, pStart, fi.Range, fi.Partial), w)
			return
		}
		if err := wr.Write(ctx); err != nil {
			c.Violation("C10/save/write-error", "writing the partial snapshot failed: "+err.Error(), w)
			return
		}
		if ok, err := e.cfg.ExistsPartialKV(ctx, pStart, end); err != nil || !ok {
			c.Violation("C10/exists/partial", fmt.Sprintf("ExistsPartialKV(%d,%d)=%v,%v right after the snapshot was written", pStart, end, ok, err), w)
			return
		}
		fresh := e.cfg.NewPartialKV(pStart, zap.NewNop())
		if err := fresh.Load(ctx, fi); err != nil {
			c.Violation("C10/load/error/"+family, "PartialKV.Load of the snapshot just saved failed: "+err.Error(), w)
			return
		}
		if !compare(c, "partial store "+fi.Filename, part.SizeBytes(), fresh, m.kv, w) {
			return
		}
		c.Count("deleted_prefix_lists_compared", 1)
		if !sameList(fresh.DeletedPrefixes, m.prefixes) {
			c.Violation("C10/roundtrip/deleted-prefixes", fmt.Sprintf("partial store %s: saved deleted prefixes %q, loaded %q", fi.Filename, m.prefixes, fresh.DeletedPrefixes), w)
			return
		}
		c.Count("partial_roundtrips", 1)
		c.Count("partial_roundtrips_"+family, 1)
		c.Max("deleted_prefixes", int64(len(m.prefixes)))
		if len(m.kv) >= 1 && len(m.prefixes) >= 1 {
			c.Nontrivial(fmt.Sprintf("rt/%s/%s/%d/%d/%v", family, be.Name, len(m.kv), m.size(), m.prefixes))
		}
		if c.WantSample() && len(m.kv) >= 2 && len(m.kv) <= 6 && len(m.prefixes) >= 1 {
			c.Sample(map[string]any{"family": "roundtrip", "backend": be.Name, "key_family": family, "partial_file": fi.Filename, "ops": clip(ops), "deleted_prefixes": m.prefixes, "size_bytes": fresh.SizeBytes()})
		}
	}
}

func utf8AllKeys(m map[string][]byte) bool {
	for k := range m {
		if !utf8.ValidString(k) {
			return false
		}
	}
	return true
}

func sameContent(a, b map[string][]byte) bool {
	if len(a) != len(b) {
		return false
	}
	for k, va := range a {
		vb, ok := b[k]
		if !ok || !bytes.Equal(va, vb) {
			return false
		}
	}
	return true
}

// ---------------------------------------------------------------- listing

type snap struct {
	Partial bool   `json:"partial"`
	Start   uint64 `json:"start"`
	End     uint64 `json:"end"`
	File    string `json:"file"`
	marker  string
	fi      *store.FileInfo
}

func runListing(c *fw.Case, idx int) {
	ctx := context.Background()
	be := listingBackends[idx%len(listingBackends)] // (the in-memory dstore cannot be walked)
	c.Distinct("backends", be.Name)

	// pool of block numbers: 3..10 distinct values of 1..10 digits
	poolSet := map[uint64]bool{}
	for want := 3 + c.R.Intn(8); len(poolSet) < want; {
		v := bytesgen.Block(c.R)
		if c.R.Intn(3) == 0 && len(poolSet) > 0 { // a close neighbour of a value already there
			for o := range poolSet {
				v = o + uint64(c.R.Intn(3))
				break
			}
			if v > max10 {
				v = max10
			}
		}
		poolSet[v] = true
	}
	var pool []uint64
	for v := range poolSet {
		pool = append(pool, v)
	}
	sort.Slice(pool, func(i, j int) bool { return pool[i] < pool[j] })
	initial := pool[0]
	if c.R.Intn(4) == 0 {
		initial = pool[c.R.Intn(len(pool)-1)]
	}
	e, err := newEnv(be, fmt.Sprintf("l%d", idx), initial)
	if err != nil {
		c.Inconclusive("cannot build the store config: " + err.Error())
		return
	}
	defer e.cleanup()

	// choose the snapshots
	var snaps []*snap
	taken := map[string]bool{}
	add := func(partial bool, s, en uint64) {
		key := fmt.Sprintf("%v/%d/%d", partial, s, en)
		if s >= en || taken[key] {
			return
		}
		taken[key] = true
		snaps = append(snaps, &snap{Partial: partial, Start: s, End: en})
	}
	var above []uint64
	for _, v := range pool {
		if v > initial {
			above = append(above, v)
		}
	}
	for i := c.R.Intn(5); i > 0 && len(above) > 0; i-- {
		add(false, initial, above[c.R.Intn(len(above))])
	}
	for i := c.R.Intn(9); i > 0; i-- {
		a, b := pool[c.R.Intn(len(pool))], pool[c.R.Intn(len(pool))]
		if a > b {
			a, b = b, a
		}
		if c.R.Intn(3) == 0 { // consecutive pool values: chained partials
			j := c.R.Intn(len(pool) - 1)
			a, b = pool[j], pool[j+1]
		}
		add(true, a, b)
	}
	if len(snaps) == 0 {
		add(true, pool[0], pool[1])
	}

	wit := func(below uint64, listed []*store.FileInfo) map[string]any {
		var l []map[string]any
		for _, f := range listed {
			if f == nil {
				l = append(l, nil)
				continue
			}
			l = append(l, map[string]any{"file": f.Filename, "range": f.Range.String(), "partial": f.Partial})
		}
		files, _ := os.ReadDir(e.statesDir)
		var names []string
		for _, f := range files {
			names = append(names, f.Name())
		}
		return map[string]any{"backend": be.Name, "module_initial_block": initial, "saved_snapshots": snaps, "below": below, "listed": l, "directory": names}
	}

	// save them for real
	for i, s := range snaps {
		s.marker = fmt.Sprintf("snapshot-%d-%v-%d-%d", i, s.Partial, s.Start, s.End)
		var fi *store.FileInfo
		var wr interface{ Write(context.Context) error }
		var err error
		if s.Partial {
			p := e.cfg.NewPartialKV(s.Start, zap.NewNop())
			p.SetBytes(1, "marker", []byte(s.marker))
			p.SetBytes(2, s.marker, bytesgen.Value(c.R, false))
			if i%2 == 0 {
				p.DeletePrefix(3, s.marker[:10])
			}
			if err := p.Flush(); err != nil {
				c.Violation("C10/fill/flush-error", "Flush failed: "+err.Error(), nil)
				return
			}
			fi, wr, err = p.Save(s.End)
		} else {
			f := e.cfg.NewFullKV(zap.NewNop())
			f.SetBytes(1, "marker", []byte(s.marker))
			f.SetBytes(2, s.marker, bytesgen.Value(c.R, false))
			if err := f.Flush(); err != nil {
				c.Violation("C10/fill/flush-error", "Flush failed: "+err.Error(), nil)
				return
			}
			fi, wr, err = f.Save(s.End)
		}
		if err != nil {
			c.Violation("C10/save/error", "Save failed: "+err.Error(), wit(0, nil))
			return
		}
		if fi.Partial != s.Partial || fi.Range == nil || fi.Range.StartBlock != s.Start || fi.Range.ExclusiveEndBlock != s.End {
			c.Violation("C10/save/fileinfo", fmt.Sprintf("Save of snapshot %+v returned FileInfo range=%s partial=%v", *s, fi.Range, fi.Partial), wit(0, nil))
			return
		}
		if err := wr.Write(ctx); err != nil {
			c.Violation("C10/save/write-error", "writing a snapshot failed: "+err.Error(), wit(0, nil))
			return
		}
		s.File, s.fi = fi.Filename, fi
	}
	c.Logf("backend %s, module initial block %d, saved snapshots (partial:start-end): %s", be.Name, initial, snapsKey(snaps))
	byFile := map[string]*snap{}
	for _, s := range snaps {
		if o, dup := byFile[s.File]; dup {
			c.Violation("C10/filename/collision", fmt.Sprintf("snapshots %+v and %+v got the same file name %q", *o, *s, s.File), wit(0, nil))
			return
		}
		byFile[s.File] = s
	}

	// plant temp files of half-finished writes, foreign files and (1 case in 4) near-miss names
	temp := map[string]bool{}
	foreign := map[string]bool{}
	nearMiss := map[string]string{}
	plant := func(name string, data []byte) bool {
		if err := os.WriteFile(filepath.Join(e.statesDir, name), data, 0o644); err != nil {
			c.Inconclusive("cannot plant a file: " + err.Error())
			return false
		}
		return true
	}
	diskExt := ""
	if be.Ext != "" {
		diskExt = "." + be.Ext
	}
	letters := "abcdefghijklmnopqrstuvwxyzABCDEFGHIJKLMNOPQRSTUVWXYZ"
	randLetters := func() string {
		b := make([]byte, 8)
		for i := range b {
			b[i] = letters[c.R.Intn(len(letters))]
		}
		return string(b)
	}
	// (a) the temp name dstore's local WriteObject uses: <object path>.<8 letters>.tmp, for saved and for never-saved ranges
	for i := 1 + c.R.Intn(3); i > 0; i-- {
		var base string
		if c.R.Intn(2) == 0 {
			base = snaps[c.R.Intn(len(snaps))].File
		} else {
			a, b := blockPair(c)
			base = fmt.Sprintf("%010d-%010d.%s", b, a, []string{"kv", "partial"}[c.R.Intn(2)])
		}
		name := base + diskExt + "." + randLetters() + ".tmp"
		if !plant(name, bytesgen.Bytes(c.R, c.R.Intn(40))) {
			return
		}
		temp[name] = true
	}
	// (b) foreign files
	for _, name := range []string{"README.md", "index.json", "lost+found.txt", "kv", "partial.partial-not", "0000000010.kv", "abc-def.kv"} {
		if c.R.Intn(2) == 0 {
			if !plant(name+diskExt, bytesgen.Bytes(c.R, c.R.Intn(20))) {
				return
			}
			foreign[name] = true
		}
	}
	// (c) near-miss names: only counted
	if (idx/len(listingBackends))%4 == 3 {
		s := snaps[c.R.Intn(len(snaps))]
		for kind, name := range map[string]string{"snapshot.bak": s.File + ".bak", "snapshot+x": s.File + "x", "x+snapshot": "x" + s.File, "copy of snapshot": "copy of " + s.File, "snapshot.tmp123": s.File + ".tmp123"} {
			if !plant(name+diskExt, []byte("junk")) {
				return
			}
			nearMiss[name] = kind
			c.Count("obs_nearmiss_planted/"+kind, 1)
		}
	}

	// the 'below' values
	belowSet := map[uint64]bool{0: true, 1: true, max10: true, max10 + 1: true, ^uint64(0): true}
	for _, v := range pool {
		belowSet[v] = true
		belowSet[v+1] = true
		if v > 0 {
			belowSet[v-1] = true
		}
	}
	for i := 0; i < 4; i++ {
		belowSet[bytesgen.Block(c.R)] = true
	}
	var belows []uint64
	for v := range belowSet {
		belows = append(belows, v)
	}
	sort.Slice(belows, func(i, j int) bool { return belows[i] < belows[j] })

	separating := false
	loadsLeft := 6
	for _, below := range belows {
		listed, err := e.cfg.ListSnapshotFiles(ctx, below)
		c.Count("listings_checked", 1)
		if err != nil {
			c.Violation("C10/listing/error", fmt.Sprintf("ListSnapshotFiles(%d) failed: %v", below, err), wit(below, nil))
			return
		}
		listedByFile := map[string]*store.FileInfo{}
		for _, f := range listed {
			if f == nil {
				c.Violation("C10/listing/nil-entry", fmt.Sprintf("ListSnapshotFiles(%d) returned a nil entry", below), wit(below, listed))
				return
			}
			listedByFile[f.Filename] = f
			s, saved := byFile[f.Filename]
			switch {
			case saved:
				c.Count("listed_entries_checked", 1)
				if f.Range == nil || f.Range.StartBlock != s.Start || f.Range.ExclusiveEndBlock != s.End {
					c.Violation("C10/listing/range", fmt.Sprintf("ListSnapshotFiles(%d) lists %q with range %s; it was saved as [%d, %d)", below, f.Filename, f.Range, s.Start, s.End), wit(below, listed))
					return
				}
				if f.Partial != s.Partial {
					c.Violation("C10/listing/kind", fmt.Sprintf("ListSnapshotFiles(%d) lists %q with partial=%v; it was saved with partial=%v", below, f.Filename, f.Partial, s.Partial), wit(below, listed))
					return
				}
			case nearMiss[f.Filename] != "":
				c.Count("obs_nearmiss_listed_as_snapshot/"+nearMiss[f.Filename], 1)
			case temp[f.Filename] || strings.HasSuffix(f.Filename, ".tmp"):
				c.Violation("C10/listing/temp-file-listed", fmt.Sprintf("ListSnapshotFiles(%d) lists the temp file of a half-finished write %q as a snapshot (range %s partial=%v)", below, f.Filename, f.Range, f.Partial), wit(below, listed))
				return
			case foreign[f.Filename]:
				c.Violation("C10/listing/foreign-file-listed", fmt.Sprintf("ListSnapshotFiles(%d) lists the foreign file %q as a snapshot (range %s partial=%v)", below, f.Filename, f.Range, f.Partial), wit(below, listed))
				return
			default:
				c.Violation("C10/listing/unknown-file-listed", fmt.Sprintf("ListSnapshotFiles(%d) lists %q which is not a saved snapshot", below, f.Filename), wit(below, listed))
				return
			}
		}
		nReq := 0
		for _, s := range snaps {
			if s.End > below {
				continue
			}
			nReq++
			c.Count("required_snapshots_checked", 1)
			f, ok := listedByFile[s.File]
			if !ok {
				c.Violation("C10/listing/missing-snapshot", fmt.Sprintf("ListSnapshotFiles(%d) does not list the saved snapshot %q [%d, %d) partial=%v which ends at or below %d", below, s.File, s.Start, s.End, s.Partial, below), wit(below, listed))
				return
			}
			// found by block range: the listed FileInfo must load the saved content
			if loadsLeft > 0 && c.R.Intn(3) == 0 {
				loadsLeft--
				var ld store.Store
				var lerr error
				if s.Partial {
					p := e.cfg.NewPartialKV(f.Range.StartBlock, zap.NewNop())
					lerr, ld = p.Load(ctx, f), p
				} else {
					fk := e.cfg.NewFullKV(zap.NewNop())
					lerr, ld = fk.Load(ctx, f), fk
				}
				c.Count("listed_snapshots_loaded", 1)
				if lerr != nil {
					c.Violation("C10/listing/load-listed-snapshot", fmt.Sprintf("loading the listed snapshot %q failed: %v", f.Filename, lerr), wit(below, listed))
					return
				}
				if v, ok := ld.GetLast("marker"); !ok || string(v) != s.marker {
					c.Violation("C10/listing/load-listed-snapshot", fmt.Sprintf("the listed snapshot %q loads content marked %q, expected %q", f.Filename, v, s.marker), wit(below, listed))
					return
				}
			}
		}
		if nReq > 0 && nReq < len(snaps) {
			separating = true
		}
		c.Max("snapshots_required_by_one_listing", int64(nReq))
	}
	c.Count("listing_cases", 1)
	c.Max("snapshots_saved", int64(len(snaps)))
	for _, s := range snaps {
		c.Distinct("snapshot_digit_shapes", fmt.Sprintf("%d/%d/%v", len(fmt.Sprint(s.Start)), len(fmt.Sprint(s.End)), s.Partial))
	}
	if len(snaps) >= 2 && separating {
		c.Nontrivial(fmt.Sprintf("list/%s/%d/%+v", be.Name, initial, snapsKey(snaps)))
	}
	if c.WantSample() && len(snaps) >= 3 && len(snaps) <= 5 {
		c.Sample(wit(belows[len(belows)/2], nil))
	}
}

func snapsKey(snaps []*snap) string {
	var b strings.Builder
	for _, s := range snaps {
		fmt.Fprintf(&b, "%v:%d-%d,", s.Partial, s.Start, s.End)
	}
	return b.String()
}
