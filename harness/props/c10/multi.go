package c10

import (
	"context"
	"fmt"
	"os"
	"sort"
	"strings"

	"github.com/streamingfast/dstore"
	pbsubstreams "github.com/streamingfast/substreams/pb/sf/substreams/v1"
	"github.com/streamingfast/substreams/storage/store"
	"github.com/streamingfast/substreams/storage/store/state"
	"go.uber.org/zap"

	"verif/harness/fw"
)

// The scheduler finds the snapshots of ALL stores of a request at once (state.FetchState lists them concurrently): the
// listing filed under each store's name must be that store's own (each store has a different set of saved snapshots here).

func multiCases(tier, mode string) int {
	if mode != "plain" {
		return 0
	}
	if tier == "thorough" {
		return 400
	}
	return 24
}

func runMulti(c *fw.Case) {
	dir, _ := os.MkdirTemp(os.Getenv("VH_SCRATCH"), "ms-")
	defer os.RemoveAll(dir)
	base, err := dstore.NewStore(dir, "zst", "zstd", true)
	if err != nil {
		panic(err)
	}
	ctx := context.Background()
	n := 2 + c.R.Intn(6)
	cm := store.ConfigMap{}
	saved := map[string][]string{}
	var maxEnd uint64
	for i := 0; i < n; i++ {
		name := fmt.Sprintf("store%d", i)
		init := uint64(c.R.Intn(30))
		cfg, err := store.NewConfig(name, init, fmt.Sprintf("hash%02d", i), pbsubstreams.Module_KindStore_UPDATE_POLICY_SET, "string", base)
		if err != nil {
			panic(err)
		}
		cm[name] = cfg
		end := init
		for k := c.R.Intn(5); k > 0; k-- { // full snapshots at increasing ends
			end += uint64(1 + c.R.Intn(20))
			f := cfg.NewFullKV(zap.NewNop())
			f.ApplyDelta(&pbsubstreams.StoreDelta{Operation: pbsubstreams.StoreDelta_CREATE, Key: name, NewValue: []byte(fmt.Sprint(end))})
			file, w, err := f.Save(end)
			if err == nil {
				err = w.Write(ctx)
			}
			if err != nil {
				c.Inconclusive("saving a snapshot failed: " + err.Error())
				return
			}
			saved[name] = append(saved[name], file.Filename)
		}
		for k := c.R.Intn(3); k > 0; k-- { // partials after the last full snapshot
			start := end
			end += uint64(1 + c.R.Intn(20))
			p := cfg.NewPartialKV(start, zap.NewNop())
			p.SetBytes(0, name, []byte("p"))
			if err := p.Flush(); err != nil {
				panic(err)
			}
			file, w, err := p.Save(end)
			if err == nil {
				err = w.Write(ctx)
			}
			if err != nil {
				c.Inconclusive("saving a partial failed: " + err.Error())
				return
			}
			saved[name] = append(saved[name], file.Filename)
		}
		if end > maxEnd {
			maxEnd = end
		}
	}
	distinct := map[string]bool{}
	for _, fs := range saved {
		distinct[strings.Join(fs, ",")] = true
	}
	for _, below := range []uint64{maxEnd + 1, maxEnd/2 + 1} {
		st, err := state.FetchState(ctx, cm, below)
		if err != nil {
			c.Violation("C10/fetch-state/error", fmt.Sprintf("FetchState(below=%d) over %d stores failed: %v", below, n, err), nil)
			return
		}
		c.Count("fetch_state_calls", 1)
		for name, cfg := range cm {
			own, err := cfg.ListSnapshotFiles(ctx, below)
			if err != nil {
				c.Violation("C10/listing/error", fmt.Sprintf("ListSnapshotFiles(%d) failed: %v", below, err), nil)
				return
			}
			var want, got []string
			for _, f := range own {
				want = append(want, f.Filename)
			}
			snaps := st.Snapshots[name]
			if snaps == nil {
				c.Violation("C10/fetch-state/store-missing", fmt.Sprintf("FetchState(below=%d) has no entry for store %s", below, name), map[string]any{"saved": saved})
				return
			}
			for _, f := range snaps.FullKVFiles {
				got = append(got, f.Filename)
			}
			for _, f := range snaps.Partials {
				got = append(got, f.Filename)
			}
			sort.Strings(want)
			sort.Strings(got)
			c.Count("per_store_listings_compared", 1)
			if strings.Join(want, ",") != strings.Join(got, ",") {
				c.Violation("C10/fetch-state/listing-of-another-store", fmt.Sprintf("FetchState(below=%d) files %v under store %s, whose own snapshots below that block are %v", below, got, name, want), map[string]any{"saved": saved, "stores": n})
				return
			}
		}
	}
	if len(distinct) >= 2 {
		c.Nontrivial(fmt.Sprintf("multi|%d|%d", c.Index, n))
	}
}
