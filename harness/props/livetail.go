package props

import (
	"fmt"
	"sort"

	"verif/harness/fw"
	"verif/harness/gen"
	"verif/harness/sim"
)

// runLiveTail: a production-mode request that goes on far beyond the finality point known when it started, on a LIVE chain:
// every block arrives as "new" and becomes final a few blocks later (plain "irreversible" signals). More than 120 final blocks
// past the end of a segment the tier1's live back-filler asks tier2 (real gRPC) to compute that segment's cache files in the
// background. Monitors: the stream never stalls and equals the sequential reference, every store read equals the reference,
// and every file left behind (those of the background jobs included) decodes to the reference content.
func runLiveTail(c *fw.Case, prop string) {
	s := newScen(c, gen.PkgOpts{MaxMods: 6, NoIndex: c.R.Intn(2) == 0})
	defer s.close()
	// a long chain: the reference must cover it, so the head is set before any reference is built
	tail := 121 + 4*s.seg + uint64(c.R.Intn(int(2*s.seg)))
	s.cl.Head = s.H + tail + 8
	outs := s.outputs()
	if c.Violated() || len(outs) == 0 {
		c.Count("packages_without_visible_output", 1)
		return
	}
	out := outs[c.R.Intn(len(outs))]
	ref := s.ref(out)
	init := s.pkg.Init[out]
	start := init + uint64(c.R.Intn(int(2*s.seg)))
	final0 := start + uint64(c.R.Intn(int(2*s.seg)+1))
	if final0 == 0 {
		final0 = 1
	}
	stop := final0 + tail
	if stop > s.cl.Head-2 {
		stop = s.cl.Head - 2
	}
	rt, err := s.cl.NewRemoteTier2(0)
	if err != nil {
		c.Inconclusive("remote tier2: " + err.Error())
		return
	}
	defer rt.Close()
	spec := sim.RequestSpec{Modules: s.pkg.Modules, Output: out, Prod: true, Start: int64(start), Stop: stop, Final: final0,
		Workers: 1 + c.R.Intn(3), LiveLag: 1 + c.R.Intn(6), Remote: rt, Preload: c.R.Intn(3) == 0}
	if pl, err := s.cl.PlanFor(spec); err != nil || pl.KnownHangShape() {
		c.Count("requests_with_known_hang_shape_skipped", 1)
		return
	}
	res := s.cl.Run(spec)
	rt.Quiesce()
	c.Count("live_tail_requests", 1)
	var jobs []string
	for k := range rt.Attempts {
		jobs = append(jobs, k)
	}
	sort.Strings(jobs)
	extra := map[string]any{"request": spec, "processrange_calls_stage/segment": jobs}
	if res.Stuck {
		c.Violation(prop+"/live-tail/stream-stalled", "the live part of the request made no progress for 45 s", s.witness(extra))
		return
	}
	if res.Err != nil {
		c.Violation(prop+"/live-tail/request-failed/"+fw.NormalizeMsg(res.Err.Error()), "request failed: "+res.Err.Error(), s.witness(extra))
		return
	}
	sess := res.Session()
	fs, facts := sim.CheckStream(res, ref, false)
	s.report(prop+"/live-tail", fs, extra)
	rf, compared, _ := sim.CheckReads(res.Execs, ref)
	s.report(prop+"/live-tail", rf, extra)
	c.Count("store_reads_compared", int64(compared))
	c.Count("live_blocks_delivered", int64(facts.Data))
	af, afacts := s.cl.AuditCache(ref, s.pkg)
	s.report(prop+"/live-tail", af, extra)
	c.Count("files_audited", int64(afacts.KV+afacts.Partial+afacts.Output+afacts.StoreOutput+afacts.Index))
	// background jobs: ProcessRange calls for segments at or above the hand-off
	bg := 0
	if sess != nil {
		for _, k := range jobs {
			var st, seg uint64
			if _, err := fmt.Sscanf(k, "%d/%d", &st, &seg); err == nil && seg*s.seg >= sess.LinearHandoffBlock {
				bg++
			}
		}
	}
	c.Count("live_backfill_jobs", int64(bg))
	if c.Violated() {
		return
	}
	if bg > 0 && facts.NonEmpty > 0 {
		c.Nontrivial(fmt.Sprintf("livetail|%v|%+v", s.pkg.Describe(), spec))
	}
	if c.WantSample() {
		c.Sample(s.witness(extra))
	}
}
