package props

import "os"

func osRemove(p string) { os.Remove(p) }
