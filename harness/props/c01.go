package props

import (
	"encoding/json"
	"fmt"
	"github.com/streamingfast/bstream"
	"math/rand"
	"os"
	"path/filepath"
	"sort"
	"strings"
	"time"

	"verif/harness/fw"
	"verif/harness/gen"
	"verif/harness/sim"
)

// C01: output independent of execution strategy.

func init() {
	fw.Register(&fw.Spec{
		ID:    "C01",
		Level: "exploration",
		Rule: "case = one generated package (3..9 native-program modules: maps, stores of every policy/value type, block indexes, block filters, params-only/clock-only modules, get and deltas store inputs, initial blocks around segment boundaries) x segment size 2..12 x a sequence of 1..4 tier1 requests on ONE state directory " +
			"(development/production, start, stop, finality point, 1..5 workers, PRNG completion order of tier2 jobs, optional deletion of a random subset of cache files between requests). The sequential reference (REF-LINEAR: one real pipeline fed block by block from the lowest initial block) gives the expected payload of every block, the expected result of every store read of every module on every block, and the expected content of every store and cache file. " +
			"non-trivial = request for which at least one tier2 job ran or one cached file pre-existed AND the reference has a non-empty payload inside the requested range; distinct by hash of (package, segment size, request, cache state)",
		Assumptions: []string{
			"module programs are pure functions of their inputs (native runtime); the wazero VM itself is not exercised by this check",
			"REF-LINEAR shares the module executors and store code with the system under test: module semantics are judged by C02/C08/C09/C11, strategy independence here",
			"typed values are compared: programs normalise store values (numbers as rationals, set_sum tag stripped) before emitting them",
			"block source: fork-free chain, blocks up to the finality point arrive as new+final, later blocks as new (reversible)",
		},
		Cases: func(tier, mode string) int {
			if mode == "race" {
				return 120
			}
			if tier == "thorough" {
				return 16000
			}
			return 160
		},
		Modes: func(tier string) []string {
			if tier == "thorough" {
				return []string{"plain", "race"}
			}
			return []string{"plain"}
		},
		CaseTimeout:   180e9,
		MinNontrivial: 20,
		Run:           runC01,
	})
}

// scenario state shared by the integration drivers
type scen struct {
	c    *fw.Case
	r    *rand.Rand
	seg  uint64
	pkg  *gen.Pkg
	H    uint64 // horizon: requests stop at or below H
	dir  string
	cl   *sim.Cluster
	refs map[string]*sim.Ref
	fsb  uint64 // first streamable block of the chain (0 unless the driver asked for FSBProb)
}

func newScen(c *fw.Case, opts gen.PkgOpts) *scen {
	r := c.R
	s := &scen{c: c, r: r, refs: map[string]*sim.Ref{}}
	s.seg = uint64(2 + r.Intn(11))
	if opts.MaxSeg >= 2 {
		s.seg = uint64(2 + r.Intn(opts.MaxSeg-1))
	}
	opts.SegSize = s.seg
	if opts.FSBProb > 0 && os.Getenv("VH_MODE") != "race" && r.Float64() < opts.FSBProb {
		// a chain whose first streamable block is not 0 (process-wide setting of bstream: plain binaries only, reset by close)
		opts.FirstStreamable = pick(r, []uint64{1, 1, 2, s.seg - 1, s.seg, s.seg + 3})
		s.fsb = opts.FirstStreamable
		bstream.GetProtocolFirstStreamableBlock = s.fsb
		c.Count("scenarios_with_nonzero_first_streamable_block", 1)
	}
	s.pkg = gen.GenPkg(r, opts)
	s.H = 3*s.seg + uint64(r.Intn(int(s.seg)+1)) + 2
	if s.H > 44 {
		s.H = 44
	}
	dir, err := os.MkdirTemp(os.Getenv("VH_SCRATCH"), "st-")
	if err != nil {
		panic(err)
	}
	s.dir = dir
	s.cl = sim.NewCluster(dir, s.seg, s.H+2*s.seg+2)
	s.cl.FirstStreamable = s.fsb
	return s
}

func (s *scen) close() {
	os.RemoveAll(s.dir)
	if s.fsb != 0 {
		bstream.GetProtocolFirstStreamableBlock = 0
	}
}

func pick[T any](r *rand.Rand, xs []T) T { return xs[r.Intn(len(xs))] }

// ref returns (memoised) REF-LINEAR for an output module.
func (s *scen) ref(out string) *sim.Ref {
	if r, ok := s.refs[out]; ok {
		return r
	}
	ref, err := sim.BuildRef(s.pkg.Modules, out, s.cl.Head+1, s.seg)
	if err != nil {
		s.c.Violation("ref/failed/"+fw.NormalizeMsg(err.Error()), "the sequential reference run itself failed: "+err.Error(), s.witness(nil))
		s.refs[out] = nil
		return nil
	}
	s.refs[out] = ref
	return ref
}

// outputs lists candidate output modules whose reference has some non-empty payload below H.
func (s *scen) outputs() []string {
	var good []string
	for _, m := range s.pkg.Maps {
		ref := s.ref(m)
		if ref == nil {
			continue
		}
		n := 0
		for b := s.pkg.Init[m]; b < s.H; b++ {
			if rb := ref.Blocks[b]; rb != nil && len(rb.Payload) > 0 {
				n++
			}
		}
		if n >= 2 {
			good = append(good, m)
		}
	}
	return good
}

// indexOutputs lists block-index modules usable as the OUTPUT module of a request (legitimate: tier1 then only builds
// the index files while back-processing and streams the keys in the linear part).
func (s *scen) indexOutputs() []string {
	var good []string
	for name, k := range s.pkg.Kind {
		if k == "index" && s.ref(name) != nil {
			good = append(good, name)
		}
	}
	sort.Strings(good)
	return good
}

func (s *scen) witness(extra map[string]any) map[string]any {
	w := map[string]any{"segment_size": s.seg, "modules": s.pkg.Describe(), "head": s.cl.Head}
	if s.fsb != 0 {
		w["first_streamable_block"] = s.fsb
	}
	for k, v := range extra {
		w[k] = v
	}
	return w
}

// genRequest draws a valid request for output module out.
func (s *scen) genRequest(out string) sim.RequestSpec {
	r := s.r
	init := s.pkg.Init[out]
	lo := init
	if lo >= s.H-1 {
		lo = s.H - 2
	}
	near := func(x uint64) uint64 { // bias towards segment boundaries
		b := (x / s.seg) * s.seg
		c := []uint64{x, b, b + 1, b + s.seg - 1, b + s.seg}
		return c[r.Intn(len(c))]
	}
	start := near(lo + uint64(r.Intn(int(s.H-lo))))
	if start < init {
		start = init
	}
	if start >= s.H {
		start = s.H - 1
	}
	stop := near(start + 1 + uint64(r.Intn(int(s.H-start))))
	if stop <= start {
		stop = start + 1
	}
	if stop > s.H {
		stop = s.H
	}
	var final uint64
	switch r.Intn(5) {
	case 0:
		final = 0 // unknown
	case 1:
		final = s.cl.Head
	default:
		final = near(uint64(r.Intn(int(s.cl.Head) + 1)))
		if final > s.cl.Head {
			final = s.cl.Head
		}
	}
	spec := sim.RequestSpec{Modules: s.pkg.Modules, Output: out, Prod: r.Intn(3) != 0, Start: int64(start), Stop: stop, Final: final, Workers: 1 + r.Intn(5), OrderSeed: 1 + r.Int63n(1<<40)}
	// less common but legitimate configurations: final_blocks_only (needs every requested block final) and walker preloading
	switch r.Intn(8) {
	case 0:
		spec.FinalBlocksOnly = true
		spec.Final = s.cl.Head
	case 1, 2:
		spec.Preload = true
	case 3:
		spec.Stop = 0 // open-ended: runs until the chain's last block (the server needs a live feed, i.e. a known final block)
		if spec.Final == 0 {
			spec.Final = s.cl.Head
		}
	}
	return spec
}

// deleteRandomFiles removes a random subset of cache files; returns what was removed.
func (s *scen) deleteRandomFiles(prob float64) []string {
	var removed []string
	for _, f := range s.cl.ListCache() {
		if strings.HasSuffix(f.Rel, ".spkg") {
			continue
		}
		if s.r.Float64() < prob {
			os.Remove(filepath.Join(s.cl.Dir, s.cl.Tag, f.Rel))
			removed = append(removed, f.Rel)
		}
	}
	return removed
}

func (s *scen) cacheNames() []string {
	var names []string
	for _, f := range s.cl.ListCache() {
		names = append(names, f.Rel)
	}
	sort.Strings(names)
	return names
}

// report turns monitor findings into violations of property prop.
func (s *scen) report(prop string, fs []sim.Finding, extra map[string]any) {
	for _, f := range fs {
		s.c.Violation(prop+"/"+f.Sig, f.What, s.witness(extra))
	}
}

func runC01(c *fw.Case) { runStrategyScenario(c, "C01") }

// runStrategyScenario is the request-sequence scenario shared by C01 and the real-loop mode of C05.
func runStrategyScenario(c *fw.Case, prop string) {
	if c.Index%8 == 7 { // second program family: compiled packages under the real wazero VM
		runCompiledScenario(c, prop)
		return
	}
	s := newScen(c, gen.PkgOpts{FSBProb: 0.2})
	defer s.close()
	outs := s.outputs()
	if c.Violated() {
		return
	}
	if len(outs) == 0 {
		c.Count("packages_without_visible_output", 1)
		return
	}
	nreq := 1 + c.R.Intn(4)
	var history []any
	for i := 0; i < nreq; i++ {
		out := outs[c.R.Intn(len(outs))]
		ref := s.ref(out)
		spec := s.genRequest(out)
		if !spec.Prod && c.R.Intn(2) == 0 { // development mode: also ask for the initial snapshot of every store
			for _, m := range ref.Graph.Stores() {
				spec.Debug = append(spec.Debug, m.Name)
			}
		}
		before := s.cacheNames()
		sj, _ := json.Marshal(spec)
		c.Logf("modules:\n  %s\nrequest %d: %s\ncache before: %v", strings.Join(s.pkg.Describe(), "\n  "), i, sj, before)
		knownHang := false
		if pl, err := s.cl.PlanFor(spec); err == nil && pl.KnownHangShape() {
			knownHang = true
			spec.StuckAfter = 3 * time.Second
			c.Count("requests_with_known_hang_shape", 1)
		}
		res := s.cl.Run(spec)
		if res.Stuck {
			if knownHang {
				c.Count("known_hang_shape_stuck", 1)
				return // the state directory is not comparable any more
			}
			c.Violation(prop+"/liveness/request-stuck-no-job-in-flight", "the request made no progress for 45 s with no tier2 job in flight (cancelled by the harness)", s.witness(map[string]any{"history": append(history, map[string]any{"request": spec, "jobs": res.Jobs})}))
			return
		}
		c.Logf("  -> err=%v jobs=%+v", res.Err, res.Jobs)
		step := map[string]any{"request": spec, "cache_before": len(before), "jobs": res.Jobs}
		history = append(history, step)
		extra := map[string]any{"history": history}
		c.Count("requests", 1)
		if spec.FinalBlocksOnly {
			c.Count("requests_final_blocks_only", 1)
		}
		if spec.Preload {
			c.Count("requests_with_walker_preload", 1)
		}
		if spec.Stop == 0 {
			c.Count("requests_open_ended", 1)
		}
		c.Count("tier2_jobs", int64(len(res.Jobs)))
		if res.Err != nil {
			if knownHang && strings.Contains(res.Err.Error(), "building wasm module tree: store") && strings.Contains(res.Err.Error(), "not found") {
				// second manifestation of the recorded finding C05/stage-index-shift (the store stages are dropped when no store has
				// to be built): with the outputs already cached the request does not hang, its linear part starts without the
				// stores that begin at or after the hand-off. Own signature, listed in known_findings.json.
				c.Violation(prop+"/stage-index-shift/linear-part-store-not-found", "request of the recorded stage-index-shift shape whose outputs were already cached: the linear part fails: "+res.Err.Error(), s.witness(extra))
				return
			}
			c.Violation(prop+"/request-failed/"+fw.NormalizeMsg(res.Err.Error()), "a valid request failed: "+res.Err.Error(), s.witness(extra))
			return
		}
		fs, facts := sim.CheckStream(res, ref, false)
		s.report(prop, fs, extra)
		c.Count("data_messages", int64(facts.Data))
		c.Count("final_block_heights_checked", int64(facts.FinalHeightsOK))
		c.Count("nonempty_payloads_compared", int64(facts.NonEmpty))
		c.Count("backfilled_messages", int64(facts.BelowHandoff))
		c.Count("empty_backfilled_blocks_omitted", int64(facts.OmittedEmpty))
		rf, compared, execs := sim.CheckReads(res.Execs, ref)
		s.report(prop, rf, extra)
		c.Count("store_reads_compared", int64(compared))
		c.Count("module_executions_observed", int64(execs))
		df, dc := sim.CheckDebugOutputs(res, ref, s.pkg)
		s.report(prop, df, extra)
		c.Count("debug_outputs_compared", int64(dc))
		sf, sc := sim.CheckInitialSnapshots(res, ref, s.pkg)
		s.report(prop, sf, extra)
		c.Count("initial_snapshots_compared", int64(sc))
		hf, hc := sim.CheckHandoffStores(res, ref, s.pkg)
		s.report(prop, hf, extra)
		c.Count("handoff_stores_compared", int64(hc))
		if c.Violated() {
			return
		}
		orders := ""
		for _, j := range res.Jobs {
			orders += fmt.Sprintf("%d.%d>%d ", j.Stage, j.Segment, j.Released)
		}
		c.Distinct("completion_orders", orders)
		c.Distinct("segment_sizes", fmt.Sprint(s.seg))
		if (len(res.Jobs) > 0 || len(before) > 1) && facts.NonEmpty > 0 {
			c.Nontrivial(fmt.Sprintf("%v|%d|%+v|%v", s.pkg.Describe(), s.seg, spec, before))
		}
		if c.R.Intn(3) == 0 {
			removed := s.deleteRandomFiles(0.3)
			step["deleted_after"] = removed
			c.Count("cache_files_deleted", int64(len(removed)))
		}
	}
	// audit what is left behind, against every reference we have
	for out, ref := range s.refs {
		if ref == nil {
			continue
		}
		af, facts := s.cl.AuditCache(ref, s.pkg)
		s.report(prop, af, map[string]any{"history": history, "audited_against_output": out})
		c.Count("audited_kv_files", int64(facts.KV))
		c.Count("audited_output_files", int64(facts.Output+facts.StoreOutput))
		c.Count("audited_index_files", int64(facts.Index))
		c.Count("audited_output_items", int64(facts.Items))
	}
	if c.WantSample() {
		c.Sample(s.witness(map[string]any{"history": history}))
	}
}
