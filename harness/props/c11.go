package props

import (
	"context"
	"fmt"

	pbsubstreams "github.com/streamingfast/substreams/pb/sf/substreams/v1"
	"github.com/streamingfast/substreams/storage/store"
	"go.uber.org/zap"

	"verif/harness/fw"
	"verif/harness/gen"
	"verif/harness/model"
	"verif/harness/rs"
)

// C11: store size accounting is exact; limits enforced consistently.

func init() {
	fw.Register(&fw.Spec{
		ID:    "C11",
		Level: "exploration",
		Rule: "case = one (policy,value type) pair x one PRNG history of 12..30 steps over a real FullKV, each step one of: execute a block of host-call ops; merge a partial store (built on a fresh PartialKV, saved and reloaded) into it; " +
			"undo the most recent block with ApplyDeltasReverse (then optionally re-execute it and undo it again); save/load cycle. After every step SizeBytes() must equal sum(len(key)+len(value)) over Iter(), and after an undo the content must equal the content before the undone block. " +
			"Limit clause (hook VerifSetLimits): every block is also flushed on a twin store with a small total limit; Flush must fail with 'became too big' iff the true size computed from the twin's real content exceeds the limit after some create/update of that block. " +
			"pipeline part (the last cases; quick 200, thorough 20 000): fork histories through the real forkable and the real pipeline fork handler (the C03 scenario: blocks several deep undone, re-applied on a flip back and undone again), SizeBytes() == content total after every new / undo step, and no spurious 'became too big' failure. " +
			"non-trivial = history containing at least one merge into existing keys or an undo of a block with a delete or a size-changing update; distinct by hash of the history",
		Assumptions: []string{"exact numeric operands (see C02)", "the size a store reports is SizeBytes(); the real content is what Iter() yields"},
		Cases: func(tier, mode string) int {
			return c11StoreCases(tier) + c11ForkCases(tier)
		},
		CaseTimeout: 180e9,
		MinNontrivial: 100,
		Run:           runC11,
	})
}

func c11StoreCases(tier string) int {
	if tier == "thorough" {
		return len(model.Pairs()) * 4000
	}
	return len(model.Pairs()) * 100
}

func c11ForkCases(tier string) int {
	if tier == "thorough" {
		return 20000
	}
	return 200
}

type blockRec struct {
	ops    []model.Op
	deltas []*pbsubstreams.StoreDelta
	pre    map[string][]byte
}

func runC11(c *fw.Case) {
	if c.Index >= c11StoreCases(c.Tier) {
		c.Count("pipeline_fork_histories", 1)
		runForkHistory(c, "C11")
		return
	}
	pairs := model.Pairs()
	p := pairs[c.Index%len(pairs)]
	g := gen.NewStoreOps(c.R, p)
	g.BigVals = true
	g.AllowAll = c.R.Intn(6) == 0
	ctx := context.Background()
	cfg, _ := rs.NewConfig(p, "s", 0)
	F := cfg.NewFullKV(zap.NewNop())

	// twin with a small limit, kept in the same state as F as long as no block was rejected
	limit := uint64(60 + c.R.Intn(200))
	ds, cleanup := rs.Local("c11")
	defer cleanup()
	cfg = rs.NewConfigOn(p, "s", 0, ds)
	F = cfg.NewFullKV(zap.NewNop())
	lcfg := rs.NewConfigOn(p, "s", 0, ds) // same object store: the twin can load what F saves
	lcfg.VerifSetLimits(limit, 10_485_760, 8_388_608)
	L := lcfg.NewFullKV(zap.NewNop())
	twinAlive := true
	resync := func(tag uint64) { // rebuild the twin from F's real content
		F.Reset()
		file, w, err := F.Save(50000 + tag)
		if err == nil {
			err = w.Write(ctx)
		}
		if err != nil {
			twinAlive = false
			return
		}
		L = lcfg.NewFullKV(zap.NewNop())
		if err := L.Load(ctx, file); err != nil {
			twinAlive = false
			return
		}
		twinAlive = true
	}

	var hist []string
	var stack []blockRec
	nontrivial := false
	blockNum := uint64(0)
	check := func(step string, st store.Store, name string) bool {
		c.Count("size_checks", 1)
		real, rep := rs.RealSize(st), st.SizeBytes()
		if real != rep {
			c.Violation("C11/size-drift/"+step+"/"+p.Policy+kindSuffix(p), fmt.Sprintf("after %s: %s store reports SizeBytes()=%d but its content totals %d bytes", step, name, rep, real), map[string]any{"pair": p.String(), "history": hist})
			return false
		}
		return true
	}
	steps := 12 + c.R.Intn(19)
	for s := 0; s < steps; s++ {
		switch k := c.R.Intn(10); {
		case k < 4: // execute a block
			ops := g.Block(6)
			pre := rawContent(F)
			hist = append(hist, fmt.Sprintf("block %v", gen.DescribeOps(p, ops)))
			if err := rs.RunBlock(p, F, blockNum, ops); err != nil {
				c.Violation("C11/flush-error/"+p.String()+"/"+fw.NormalizeMsg(err.Error()), "Flush failed under the default limits: "+err.Error(), map[string]any{"pair": p.String(), "history": hist})
				return
			}
			deltas := append([]*pbsubstreams.StoreDelta(nil), F.GetDeltas()...)
			stack = append(stack, blockRec{ops: ops, deltas: deltas, pre: pre})
			if !check("block", F, "full") {
				return
			}
			// limit clause on the twin
			if twinAlive {
				trueSize := rs.RealSize(L)
				exceed := false
				for _, d := range deltas { // F and L are in the same state, so the same deltas apply
					switch d.Operation {
					case pbsubstreams.StoreDelta_CREATE:
						trueSize += uint64(len(d.Key) + len(d.NewValue))
					case pbsubstreams.StoreDelta_UPDATE:
						trueSize = trueSize - uint64(len(d.OldValue)) + uint64(len(d.NewValue))
					case pbsubstreams.StoreDelta_DELETE:
						trueSize -= uint64(len(d.Key) + len(d.OldValue))
						continue
					}
					if trueSize > limit {
						exceed = true
						break
					}
				}
				err := rs.RunBlock(p, L, blockNum, ops)
				rejected := err != nil && store.StoreAboveMaxSizeRegexp.MatchString(err.Error())
				c.Count("limit_checks", 1)
				if err != nil && !rejected {
					c.Violation("C11/limit/other-error/"+fw.NormalizeMsg(err.Error()), "Flush on the limited twin failed with an unexpected error: "+err.Error(), map[string]any{"pair": p.String(), "history": hist, "limit": limit})
					return
				}
				if rejected {
					c.Count("limit_rejections", 1)
				}
				if rejected != exceed {
					kind := "spurious"
					if exceed {
						kind = "late-or-missing"
					}
					c.Violation("C11/limit/"+kind+"/"+p.Policy, fmt.Sprintf("limit %d: rejected=%v but true size exceeds limit during the block=%v (reported size before block %d, true size before block %d)", limit, rejected, exceed, L.SizeBytes(), rs.RealSize(L)), map[string]any{"pair": p.String(), "history": hist, "limit": limit})
					return
				}
				if rejected {
					resync(uint64(s)) // the request would have ended here; continue from F's state
				}
			}
			blockNum++
			F.Reset() // the engine resets every store at the end of each block
			L.Reset()
		case k < 6: // merge a partial
			part := cfg.NewPartialKV(blockNum, zap.NewNop())
			nb := 1 + c.R.Intn(3)
			var desc [][]string
			hit := false
			for i := 0; i < nb; i++ {
				ops := g.Block(5)
				desc = append(desc, gen.DescribeOps(p, ops))
				if err := rs.RunBlock(p, part, blockNum+uint64(i), ops); err != nil {
					c.Violation("C11/flush-error/"+p.String()+"/"+fw.NormalizeMsg(err.Error()), "Flush on partial failed: "+err.Error(), nil)
					return
				}
				if !check("partial-block", part, "partial") {
					return
				}
			}
			part.Reset()
			loaded, err := rs.SaveLoadPartial(ctx, cfg, part, blockNum+uint64(nb))
			if err != nil {
				c.Violation("C11/saveload", "partial save/load: "+err.Error(), nil)
				return
			}
			if !check("partial-load", loaded, "partial") {
				return
			}
			pre := rawContent(F)
			loaded.Iter(func(k string, _ []byte) error {
				if _, ok := pre[k]; ok {
					hit = true
				}
				return nil
			})
			hist = append(hist, fmt.Sprintf("merge partial %v deleted_prefixes=%q", desc, loaded.DeletedPrefixes))
			if err := F.Merge(loaded); err != nil {
				c.Violation("C11/merge-error/"+p.String()+"/"+fw.NormalizeMsg(err.Error()), "merge failed: "+err.Error(), map[string]any{"pair": p.String(), "history": hist})
				return
			}
			c.Count("merges", 1)
			if hit {
				nontrivial = true
				c.Count("merges_into_existing_keys", 1)
			}
			if !check("merge", F, "full") {
				return
			}
			stack = nil
			blockNum += uint64(nb)
			if twinAlive { // keep the twin in the same state by merging the same snapshot file
				l2 := lcfg.NewPartialKV(blockNum-uint64(nb), zap.NewNop())
				if err := l2.Load(ctx, store.NewPartialFileInfo("s", blockNum-uint64(nb), blockNum)); err != nil {
					twinAlive = false
				} else if err := L.Merge(l2); err != nil {
					twinAlive = false
				}
			}
		case k < 8: // undo the most recent block
			if len(stack) == 0 {
				continue
			}
			rec := stack[len(stack)-1]
			stack = stack[:len(stack)-1]
			hist = append(hist, "undo last block")
			F.ApplyDeltasReverse(rec.deltas)
			c.Count("undos", 1)
			for _, d := range rec.deltas {
				if d.Operation == pbsubstreams.StoreDelta_DELETE || len(d.OldValue) != len(d.NewValue) {
					nontrivial = true
				}
			}
			if d := diffRaw(rec.pre, rawContent(F)); d != "" {
				c.Violation("C11/undo-content/"+p.Policy, "after undoing the block the content differs from the content before it (expected vs actual): "+d, map[string]any{"pair": p.String(), "history": hist})
				return
			}
			if !check("undo", F, "full") {
				return
			}
			if twinAlive {
				L.ApplyDeltasReverse(rec.deltas)
				L.Reset()
			}
			redo := c.R.Intn(2) == 0
			if redo {
				twinAlive = false
			}
			if redo { // re-apply the same block and undo it again
				hist = append(hist, "redo same block")
				if err := rs.RunBlock(p, F, blockNum, rec.ops); err != nil {
					c.Violation("C11/flush-error/"+p.String()+"/"+fw.NormalizeMsg(err.Error()), "Flush failed: "+err.Error(), nil)
					return
				}
				if !check("redo", F, "full") {
					return
				}
				d2 := append([]*pbsubstreams.StoreDelta(nil), F.GetDeltas()...)
				hist = append(hist, "undo it again")
				F.ApplyDeltasReverse(d2)
				c.Count("undos", 1)
				c.Count("same_block_undone_twice", 1)
				if d := diffRaw(rec.pre, rawContent(F)); d != "" {
					c.Violation("C11/undo-content/"+p.Policy, "after redo+undo the content differs from the content before the block: "+d, map[string]any{"pair": p.String(), "history": hist})
					return
				}
				if !check("undo", F, "full") {
					return
				}
			}
			F.Reset()
		default: // save / load
			hist = append(hist, "save+load")
			F.Reset()
			nf, err := rs.SaveLoadFull(ctx, cfg, F, 1000+uint64(s))
			if err != nil {
				c.Violation("C11/saveload", "full save/load: "+err.Error(), nil)
				return
			}
			F = nf
			stack = nil
			resync(uint64(s))
			if !check("load", F, "full") {
				return
			}
		}
	}
	if nontrivial {
		c.Nontrivial(fmt.Sprintf("%s|%v", p, hist))
	}
	c.Distinct("pairs", p.String())
	if c.WantSample() {
		c.Sample(map[string]any{"pair": p.String(), "history": hist})
	}
}

func kindSuffix(p model.Pair) string {
	if p.Numeric() {
		return ":" + p.VT
	}
	return ""
}
