package props

import (
	"context"
	"fmt"
	"io"
	"os"
	"path/filepath"
	"strings"
	"sync"

	"github.com/RoaringBitmap/roaring/roaring64"
	"github.com/streamingfast/dstore"
	"github.com/streamingfast/substreams/block"
	"github.com/streamingfast/substreams/storage/index"
	"go.uber.org/zap"

	pbindex "github.com/streamingfast/substreams/pb/sf/substreams/index/v1"
	pbsubstreams "github.com/streamingfast/substreams/pb/sf/substreams/v1"
	"google.golang.org/protobuf/proto"

	"verif/harness/fw"
	"verif/harness/gen"
	"verif/harness/native"
	"verif/harness/props/c15a"
	"verif/harness/sim"
)

// C15 (end-to-end part): block-index filtering never changes results.

// filterOracle evaluates the generator's filter queries on a key set, written by hand
// from the meaning of each query (independent of sqe).
var filterOracle = map[string]func(k map[string]bool) bool{
	"t0":                             func(k map[string]bool) bool { return k["t0"] },
	"t1 || t2":                       func(k map[string]bool) bool { return k["t1"] || k["t2"] },
	"k1 || k4":                       func(k map[string]bool) bool { return k["k1"] || k["k4"] },
	"t3 && k0":                       func(k map[string]bool) bool { return k["t3"] && k["k0"] },
	"(t0 || t1) && (k2 || k3 || k5)": func(k map[string]bool) bool { return (k["t0"] || k["t1"]) && (k["k2"] || k["k3"] || k["k5"]) },
	"t2 || (k0 && t1)":               func(k map[string]bool) bool { return k["t2"] || (k["k0"] && k["t1"]) },
	"k0 || k1 || k2":                 func(k map[string]bool) bool { return k["k0"] || k["k1"] || k["k2"] },
	"t1 t2":                          func(k map[string]bool) bool { return k["t1"] && k["t2"] },
	"'t0' || \"k3\"":                 func(k map[string]bool) bool { return k["t0"] || k["k3"] },
	"nokey":                          func(k map[string]bool) bool { return k["nokey"] },
	"nokey || t1":                    func(k map[string]bool) bool { return k["nokey"] || k["t1"] },
}

func c15e2eCases(tier string) int {
	if tier == "thorough" {
		return 1000
	}
	return 60
}

const c15e2eRule = "end-to-end case = one generated package in which filtered modules are frequent (block filters on maps and stores, index modules over the block source) x a sequence of 3..5 tier1 requests on one state directory: production run on an empty cache (index files get written), runs with index files present, runs after ALL index files were deleted, runs after a random subset was deleted, development-mode runs; " +
	"monitors per request: stream == sequential reference, every module execution's store reads == reference and NO module executed on a block on which the reference did not execute it (a filtered module run on a rejected block), cache audit (a missing item = a filtered module skipped on a matching block); " +
	"and the reference itself is judged by an independent hand-written evaluation of each filter on the index keys of each block: executed => filter true, filter true and inputs present => executed. non-trivial = request that ran with at least one index file present and one filtered module having both matching and rejected blocks in range"

func runC15e2e(c *fw.Case) {
	s := newScenFiltered(c)
	defer s.close()
	outs := s.outputs()
	if c.Violated() || len(outs) == 0 {
		c.Count("e2e_packages_without_visible_output", 1)
		return
	}
	// an output that depends on a filtered module, if any
	var filtered []string
	for _, o := range outs {
		if r := s.ref(o); r != nil {
			for _, m := range r.Graph.UsedModules() {
				if m.BlockFilter != nil {
					filtered = append(filtered, o)
					break
				}
			}
		}
	}
	if len(filtered) > 0 {
		outs = filtered
	}
	out := outs[c.R.Intn(len(outs))]
	ref := s.ref(out)
	if ref == nil {
		return
	}
	// --- judge the reference's skip decisions with the independent evaluator
	mixed := false
	for _, m := range ref.Graph.UsedModules() {
		if m.BlockFilter == nil {
			continue
		}
		q := m.BlockFilter.GetQueryString()
		eval := filterOracle[q]
		if eval == nil {
			continue
		}
		idx := m.BlockFilter.Module
		matches, rejects := 0, 0
		for n := ref.L; n < s.H; n++ {
			rb := ref.Blocks[n]
			if rb == nil || n < s.pkg.Init[m.Name] {
				continue
			}
			keys := map[string]bool{}
			if raw, ok := rb.MapOut[idx]; ok {
				ks := &pbindex.Keys{}
				if err := proto.Unmarshal(raw, ks); err == nil {
					for _, k := range ks.Keys {
						keys[k] = true
					}
				}
			}
			want := eval(keys)
			c.Count("e2e_filter_decisions_checked", 1)
			if want {
				matches++
			} else {
				rejects++
			}
			if rb.Executed[m.Name] && !want {
				c.Violation("C15/filtered-module-run-on-rejected-block", fmt.Sprintf("module %s with filter %q on %s was executed on block %d whose index keys %v do not match", m.Name, q, idx, n, keysOf(keys)), s.witness(map[string]any{"output": out}))
				return
			}
			if want && !rb.Executed[m.Name] && !rb.Executed[idx] {
				continue // index module itself did not run (before its initial block)
			}
			if want && !rb.Executed[m.Name] && hasOnlySourceInputs(s, m.Name) {
				c.Violation("C15/filtered-module-skipped-on-matching-block", fmt.Sprintf("module %s with filter %q was NOT executed on block %d although its index keys %v match and it reads the block source", m.Name, q, n, keysOf(keys)), s.witness(map[string]any{"output": out}))
				return
			}
		}
		if matches > 0 && rejects > 0 {
			mixed = true
		}
	}
	var history []any
	nreq := 3 + c.R.Intn(3)
	forceFull := false
	for i := 0; i < nreq; i++ {
		spec := s.genRequest(out)
		if spec.Stop == 0 {
			spec.Stop = s.H
		}
		if i == 0 || forceFull {
			spec.Prod = true
			spec.Final = s.cl.Head
		}
		if forceFull { // recompute the whole range after a targeted deletion
			spec.Start = int64(s.pkg.Init[out])
			spec.Stop = s.H
			forceFull = false
		}
		if pl, err := s.cl.PlanFor(spec); err == nil && pl.KnownHangShape() {
			continue
		}
		indexFiles := 0
		for _, f := range s.cl.ListCache() {
			if f.Sub == "index" {
				indexFiles++
			}
		}
		res := s.cl.Run(spec)
		step := map[string]any{"request": spec, "index_files_before": indexFiles, "jobs": res.Jobs}
		history = append(history, step)
		extra := map[string]any{"history": history}
		c.Count("e2e_requests", 1)
		if res.Stuck {
			c.Violation("C15/liveness/request-stuck", "request made no progress", s.witness(extra))
			return
		}
		if res.Err != nil {
			c.Violation("C15/request-failed/"+fw.NormalizeMsg(res.Err.Error()), "a valid request failed: "+res.Err.Error(), s.witness(extra))
			return
		}
		fs, facts := sim.CheckStream(res, ref, false)
		s.report("C15", fs, extra)
		rf, compared, execs := sim.CheckReads(res.Execs, ref)
		s.report("C15", rf, extra)
		c.Count("e2e_store_reads_compared", int64(compared))
		c.Count("e2e_module_executions_checked", int64(execs))
		c.Count("e2e_nonempty_payloads_compared", int64(facts.NonEmpty))
		if c.Violated() {
			return
		}
		if indexFiles > 0 {
			c.Count("e2e_requests_with_index_files_present", 1)
			if mixed {
				c.Nontrivial(fmt.Sprintf("%v|%+v|%d", s.pkg.Describe(), spec, indexFiles))
			}
		}
		// index files: delete all / a subset / none
		choice := c.R.Intn(4)
		{
			seenIdx := map[string]bool{}
			for _, f := range s.cl.ListCache() {
				if f.Sub == "index" {
					seenIdx[f.Hash] = true
				}
			}
			if len(seenIdx) >= 2 && c.R.Intn(2) == 0 {
				choice = 3
			}
		}
		switch choice {
		case 3: // only ONE index module loses its files: the others' pre-computed bitmaps stay in use
			var hashes []string
			seen := map[string]bool{}
			for _, f := range s.cl.ListCache() {
				if f.Sub == "index" && !seen[f.Hash] {
					seen[f.Hash] = true
					hashes = append(hashes, f.Hash)
				}
			}
			if len(hashes) > 0 {
				victim := hashes[c.R.Intn(len(hashes))]
				n := 0
				// keep ONLY the index files of the other index modules: everything has to be computed again,
				// with a pre-computed bitmap for some filtered modules and none for the others
				for _, f := range s.cl.ListCache() {
					if strings.HasSuffix(f.Rel, ".spkg.zst") {
						continue
					}
					if f.Sub != "index" || f.Hash == victim {
						removeCacheFile(s, f.Rel)
						n++
					}
				}
				step["deleted_index_files_of_one_module"] = n
				forceFull = true
				if len(hashes) > 1 {
					c.Count("e2e_one_of_several_index_modules_lost_its_files", 1)
				}
			}
		case 0:
			n := 0
			for _, f := range s.cl.ListCache() {
				if f.Sub == "index" {
					removeCacheFile(s, f.Rel)
					n++
				}
			}
			step["deleted_index_files"] = n
			c.Count("e2e_index_files_deleted", int64(n))
		case 1:
			removed := s.deleteRandomFiles(0.3)
			step["deleted_files"] = removed
		}
	}
	af, afacts := s.cl.AuditCache(ref, s.pkg)
	s.report("C15", af, map[string]any{"history": history})
	c.Count("e2e_index_files_audited", int64(afacts.Index))
	if c.WantSample() {
		c.Sample(s.witness(map[string]any{"history": history}))
	}
}

func keysOf(m map[string]bool) []string {
	var out []string
	for k := range m {
		out = append(out, k)
	}
	return out
}

func hasOnlySourceInputs(s *scen, name string) bool {
	for _, sp := range s.pkg.Progs[name].Inputs {
		if sp.Kind != "source" {
			return false
		}
	}
	return len(s.pkg.Progs[name].Inputs) > 0
}

func removeCacheFile(s *scen, rel string) {
	_ = strings.TrimSpace
	osRemove(s.cl.Dir + "/" + s.cl.Tag + "/" + rel)
}

// newScenFiltered generates packages until one has a filtered module (bounded attempts).
func newScenFiltered(c *fw.Case) *scen {
	var s *scen
	for attempt := 0; attempt < 40; attempt++ {
		s = newScen(c, gen.PkgOpts{MaxMods: 9, MinMods: 5, FilterProb: 0.6, IndexProb: 0.3})
		idx := map[string]bool{}
		for _, m := range s.pkg.Modules.Modules {
			if m.BlockFilter != nil {
				idx[m.BlockFilter.Module] = true
			}
		}
		if len(idx) >= 2 || (len(idx) == 1 && (c.Index%2 == 1 || attempt > 20)) {
			return s
		}
		s.close()
	}
	return newScen(c, gen.PkgOpts{MaxMods: 8, MinMods: 4, FilterProb: 0.6, IndexProb: 0.3})
}

func init() {
	fw.Register(&fw.Spec{
		ID:    "C15",
		Level: "exploration",
		Rule:  "three case families. (A) evaluator agreement: " + c15a.Rule + " (B) " + c15e2eRule + " (C) an index file saved through a store whose first upload attempt fails (the code retries) must load back with the same bitmaps. (D) shared index (quick 16, thorough 400): two maps filtered by the SAME index module with the SAME single-key query but different initial blocks (the later one inside a segment) feed the output module; after a clean run only the index files are kept and the request runs again, so that every segment job evaluates both filters against the same pre-computed bitmaps: stream and rebuilt files equal the reference.",
		Assumptions: append(append([]string{}, c15a.Assumptions...),
			"end-to-end family: payload expectations come from REF-LINEAR; the reference's own skip decisions are judged by a hand-written evaluation of each generated filter query",
			"a filtered module whose inputs are all absent is skipped by the engine regardless of the filter (only modules reading the block source are required to run on every matching block)"),
		Cases: func(tier, mode string) int {
			return c15a.Cases(tier) + c15e2eCases(tier) + c15FileCases(tier) + c15SharedCases(tier)
		},
		CaseTimeout:   180e9,
		MinNontrivial: c15a.MinNontrivial,
		Run: func(c *fw.Case) {
			n := c15a.Cases(c.Tier)
			switch {
			case c.Index < n:
				c15a.Run(c)
			case c.Index < n+c15e2eCases(c.Tier):
				runC15e2e(c)
			case c.Index < n+c15e2eCases(c.Tier)+c15FileCases(c.Tier):
				runC15IndexFile(c)
			default:
				runC15Shared(c)
			}
		},
		Post: func(m *fw.Merged) {
			if m.Counts["e2e_requests_with_index_files_present"] == 0 {
				m.Notes = append(m.Notes, "no end-to-end request ran with an index file present")
			}
		},
	})
}

// ---- index / cached-output files survive a failed-then-retried upload

type retryStore struct {
	dstore.Store
	mu   *sync.Mutex
	seen map[string]int
}

func (f *retryStore) WriteObject(ctx context.Context, base string, r io.Reader) error {
	f.mu.Lock()
	f.seen[base]++
	n := f.seen[base]
	f.mu.Unlock()
	if n == 1 {
		io.Copy(io.Discard, r)
		return fmt.Errorf("injected: connection reset at the end of the upload of %s", base)
	}
	return f.Store.WriteObject(ctx, base, r)
}

func (f *retryStore) SubStore(sub string) (dstore.Store, error) {
	s, err := f.Store.SubStore(sub)
	if err != nil {
		return nil, err
	}
	return &retryStore{Store: s, mu: f.mu, seen: f.seen}, nil
}

func c15FileCases(tier string) int {
	if tier == "thorough" {
		return 48
	}
	return 8
}

// runC15IndexFile: an index file whose first upload attempt fails and is retried must load back with
// the same bitmaps: an empty index would make every filter reject every block of the segment.
func runC15IndexFile(c *fw.Case) {
	dir, _ := os.MkdirTemp(os.Getenv("VH_SCRATCH"), "idx-")
	defer os.RemoveAll(dir)
	base, err := dstore.NewStore(dir, "zst", "zstd", true)
	if err != nil {
		panic(err)
	}
	fs := &retryStore{Store: base, mu: &sync.Mutex{}, seen: map[string]int{}}
	start := uint64(c.R.Intn(1000)) * 10
	rng := block.NewRange(start, start+10)
	indices := map[string]*roaring64.Bitmap{}
	want := map[string][]uint64{}
	for k := 0; k < 1+c.R.Intn(6); k++ {
		key := fmt.Sprintf("k%d", k)
		bm := roaring64.New()
		for b := start; b < start+10; b++ {
			if c.R.Intn(2) == 0 {
				bm.Add(b)
				want[key] = append(want[key], b)
			}
		}
		indices[key] = bm
	}
	f, err := index.NewFile(fs, "hash", "idx", zap.NewNop(), rng)
	if err != nil {
		panic(err)
	}
	f.Set(indices)
	ctx := context.Background()
	if err := f.Save(ctx); err != nil {
		c.Violation("C15/index-file/write-retry-failed", "saving an index file through a store whose first write attempt fails returned: "+err.Error(), nil)
		return
	}
	g, _ := index.NewFile(fs, "hash", "idx", zap.NewNop(), rng)
	if err := g.Load(ctx); err != nil {
		c.Violation("C15/index-file/load-after-write-retry", "load failed: "+err.Error(), nil)
		return
	}
	got := map[string][]uint64{}
	for k, bm := range g.Indices {
		if arr := bm.ToArray(); len(arr) > 0 {
			got[k] = arr
		}
	}
	for k, v := range want {
		if len(v) == 0 {
			delete(want, k)
		}
	}
	c.Count("index_files_written_with_a_retry", 1)
	if fmt.Sprint(got) != fmt.Sprint(want) {
		c.Violation("C15/index-file/content-lost-after-write-retry", fmt.Sprintf("index file written with one failed attempt loads back %v, expected %v", got, want), nil)
		return
	}
	c.Nontrivial(fmt.Sprintf("indexfile|%d|%v", c.Index, want))
}

func c15SharedCases(tier string) int {
	if tier == "thorough" {
		return 400
	}
	return 16
}

// runC15Shared: several modules filtered by one index module with one single-key query share the bitmap of the index file.
func runC15Shared(c *fw.Case) {
	s := newScen(c, gen.PkgOpts{MaxMods: 3})
	defer s.close()
	r := c.R
	pkg := &gen.Pkg{Progs: map[string]*native.Program{}, Kind: map[string]string{}, Init: map[string]uint64{}}
	src := func() *pbsubstreams.Module_Input {
		return &pbsubstreams.Module_Input{Input: &pbsubstreams.Module_Input_Source_{Source: &pbsubstreams.Module_Input_Source{Type: native.BlockType}}}
	}
	query := []string{"t0", "t1", "k1", "k2"}[r.Intn(4)]
	mods := []*pbsubstreams.Module{{Name: "idx", BinaryEntrypoint: "idx", Inputs: []*pbsubstreams.Module_Input{src()},
		Kind:   &pbsubstreams.Module_KindBlockIndex_{KindBlockIndex: &pbsubstreams.Module_KindBlockIndex{OutputType: "proto:sf.substreams.index.v1.Keys"}},
		Output: &pbsubstreams.Module_Output{Type: "proto:sf.substreams.index.v1.Keys"}}}
	pkg.Progs["idx"] = &native.Program{Kind: "index", Seed: uint64(1 + r.Intn(1000)), Inputs: []native.InSpec{{Kind: "source"}}, TagMask: 0xF, KeyMask: 0x3F, Mul: 1, FailAt: -1, DelTag: -1, SetTag: -1}
	pkg.Kind["idx"] = "index"
	pkg.Names = append(pkg.Names, "idx")
	var outInputs []*pbsubstreams.Module_Input
	var outSpecs []native.InSpec
	inits := []uint64{0, s.seg + 1 + uint64(r.Intn(int(s.seg))), 2*s.seg + uint64(r.Intn(int(s.seg)))}
	n := 2 + r.Intn(2)
	for i := 0; i < n; i++ {
		name := fmt.Sprintf("filtered%d", i)
		mods = append(mods, &pbsubstreams.Module{Name: name, BinaryEntrypoint: name, InitialBlock: inits[i], Inputs: []*pbsubstreams.Module_Input{src()},
			Kind:        &pbsubstreams.Module_KindMap_{KindMap: &pbsubstreams.Module_KindMap{OutputType: "proto:verif.Lines"}},
			Output:      &pbsubstreams.Module_Output{Type: "proto:verif.Lines"},
			BlockFilter: &pbsubstreams.Module_BlockFilter{Module: "idx", Query: &pbsubstreams.Module_BlockFilter_QueryString{QueryString: query}}})
		pkg.Progs[name] = &native.Program{Kind: "map", Seed: uint64(1 + r.Intn(1000)), Inputs: []native.InSpec{{Kind: "source"}}, TagMask: 0xF, KeyMask: 0x3F, Mul: 1 + i, FailAt: -1, DelTag: -1, SetTag: -1}
		pkg.Kind[name] = "map"
		pkg.Init[name] = inits[i]
		pkg.Names = append(pkg.Names, name)
		outInputs = append(outInputs, &pbsubstreams.Module_Input{Input: &pbsubstreams.Module_Input_Map_{Map: &pbsubstreams.Module_Input_Map{ModuleName: name}}})
		outSpecs = append(outSpecs, native.InSpec{Kind: "map", Name: name})
	}
	outInit := inits[n-1]
	outInputs = append(outInputs, src())
	outSpecs = append(outSpecs, native.InSpec{Kind: "source"})
	mods = append(mods, &pbsubstreams.Module{Name: "out", BinaryEntrypoint: "out", InitialBlock: 0, Inputs: outInputs,
		Kind:   &pbsubstreams.Module_KindMap_{KindMap: &pbsubstreams.Module_KindMap{OutputType: "proto:verif.Lines"}},
		Output: &pbsubstreams.Module_Output{Type: "proto:verif.Lines"}})
	pkg.Progs["out"] = &native.Program{Kind: "map", Seed: 7, Inputs: outSpecs, TagMask: 0xF, KeyMask: 0x3F, Mul: 1, FailAt: -1, DelTag: -1, SetTag: -1}
	pkg.Kind["out"] = "map"
	pkg.Names = append(pkg.Names, "out")
	pkg.Maps = []string{"out"}
	pkg.Modules = &pbsubstreams.Modules{Modules: mods}
	pkg.Rebuild()
	_ = outInit
	s.pkg = pkg
	s.refs = map[string]*sim.Ref{}
	ref := s.ref("out")
	if ref == nil {
		return
	}
	stop := 3*s.seg + 1 + uint64(r.Intn(int(s.seg)))
	if stop > s.H {
		stop = s.H
	}
	req := sim.RequestSpec{Modules: pkg.Modules, Output: "out", Prod: true, Start: 1, Stop: stop, Final: s.cl.Head, Workers: 1 + r.Intn(3), OrderSeed: 1 + r.Int63n(1<<40)}
	res := s.cl.Run(req)
	if res.Err != nil || res.Stuck {
		c.Violation("C15/shared-index/clean-run-failed", fmt.Sprintf("clean run failed: stuck=%v err=%v", res.Stuck, res.Err), s.witness(map[string]any{"request": req}))
		return
	}
	if fs, _ := sim.CheckStream(res, ref, false); len(fs) > 0 {
		s.report("C15/shared-index/clean-run", fs, map[string]any{"request": req})
		return
	}
	root := filepath.Join(s.cl.Dir, s.cl.Tag)
	kept := 0
	for _, f := range s.cl.ListCache() {
		if f.Sub == "index" || strings.HasSuffix(f.Rel, ".spkg.zst") {
			kept++
			continue
		}
		os.Remove(filepath.Join(root, f.Rel))
	}
	c.Count("shared_index_scenarios", 1)
	if kept == 0 {
		c.Count("shared_index_scenarios_without_index_file", 1)
		return
	}
	req.OrderSeed = 1 + r.Int63n(1<<40)
	res2 := s.cl.Run(req)
	extra := map[string]any{"request": req, "query": query, "initial_blocks_of_the_filtered_modules": inits[:n], "jobs": res2.Jobs}
	if res2.Stuck || res2.Err != nil {
		c.Violation("C15/shared-index/request-failed", fmt.Sprintf("re-run on the index files failed: stuck=%v err=%v", res2.Stuck, res2.Err), s.witness(extra))
		return
	}
	fs, facts := sim.CheckStream(res2, ref, false)
	s.report("C15/shared-index", fs, extra)
	rf, compared, _ := sim.CheckReads(res2.Execs, ref)
	s.report("C15/shared-index", rf, extra)
	c.Count("store_reads_compared", int64(compared))
	af, _ := s.cl.AuditCache(ref, s.pkg)
	s.report("C15/shared-index", af, extra)
	if c.Violated() {
		return
	}
	if len(res2.Jobs) > 0 && facts.NonEmpty > 0 {
		c.Nontrivial(fmt.Sprintf("shared-index|%v|%+v", pkg.Describe(), req))
	}
}
