package c17

import (
	"context"
	"errors"
	"fmt"
	"runtime/debug"
	"runtime/metrics"
	"strings"
	"sync/atomic"

	"github.com/streamingfast/bstream"
	"github.com/streamingfast/dstore"
	"github.com/streamingfast/substreams/orchestrator/plan"
	pbssinternal "github.com/streamingfast/substreams/pb/sf/substreams/intern/v2"
	pbsubstreamsrpc "github.com/streamingfast/substreams/pb/sf/substreams/rpc/v2"
	"github.com/streamingfast/substreams/pipeline"
	"github.com/streamingfast/substreams/pipeline/exec"
	"github.com/streamingfast/substreams/service"
	"github.com/streamingfast/substreams/storage/execout"
	"github.com/streamingfast/substreams/storage/index"
	"github.com/streamingfast/substreams/storage/store"
	"go.uber.org/zap"
)

// outcome is what one run of a request through a service chain produced.
type outcome struct {
	cur atomic.Value // string: stage being executed (read by the watchdog)

	reached    []string
	rejectedAt string
	err        error
	panicStage string
	panicMsg   string
	panicFn    string
	stack      string
	nilResult  string // stage that returned (nil result, nil error)

	memStage  string // stage with the largest heap growth
	memGrowth int64
	allocated uint64 // bytes allocated over the whole chain (gauge only)
}

func (o *outcome) accepted() bool {
	return o.rejectedAt == "" && o.panicStage == "" && o.nilResult == ""
}

var memSamples = []metrics.Sample{
	{Name: "/memory/classes/heap/objects:bytes"},
	{Name: "/memory/classes/total:bytes"},
	{Name: "/gc/heap/allocs:bytes"},
}

type memPoint struct{ heap, total, allocs uint64 }

func readMem() memPoint {
	s := make([]metrics.Sample, len(memSamples))
	copy(s, memSamples)
	metrics.Read(s)
	return memPoint{s[0].Value.Uint64(), s[1].Value.Uint64(), s[2].Value.Uint64()}
}

// panicSite extracts the innermost /repo function on the panicking stack.
func panicSite(stack string) string {
	lines := strings.Split(stack, "\n")
	seenPanic := false
	for _, ln := range lines {
		if strings.HasPrefix(ln, "panic(") {
			seenPanic = true
			continue
		}
		if !seenPanic || strings.HasPrefix(ln, "\t") {
			continue
		}
		if i := strings.Index(ln, "github.com/streamingfast/substreams/"); i >= 0 {
			fn := ln[i+len("github.com/streamingfast/substreams/"):]
			if j := strings.LastIndex(fn, "("); j >= 0 {
				fn = fn[:j]
			}
			return fn
		}
	}
	return "?"
}

// do runs one stage with its own panic capture and memory sampling. It returns false when the chain stops.
func (o *outcome) do(name string, f func() error) (cont bool) {
	o.cur.Store(name)
	before := readMem()
	defer func() {
		after := readMem()
		g := int64(after.heap) - int64(before.heap)
		if t := int64(after.total) - int64(before.total); t > g {
			g = t
		}
		if g > o.memGrowth {
			o.memGrowth, o.memStage = g, name
		}
		o.allocated += after.allocs - before.allocs
		if r := recover(); r != nil {
			o.panicStage = name
			o.panicMsg = fmt.Sprint(r)
			o.stack = string(debug.Stack())
			o.panicFn = panicSite(o.stack)
			cont = false
		}
	}()
	err := f()
	o.reached = append(o.reached, name)
	if err != nil {
		o.rejectedAt, o.err = name, err
		return false
	}
	return true
}

// ---------------------------------------------------------------- tier 1

// t1env is the server side of a tier1 request: chain constants and the answers of the three callbacks.
type t1env struct {
	FirstStreamable uint64 `json:"first_streamable_block"`
	SegmentSize     uint64 `json:"segment_size"`
	FinalBlock      uint64 `json:"recent_final_block"`
	FinalErr        bool   `json:"recent_final_block_unknown"`
	HeadBlock       uint64 `json:"head_block"`
	HeadErr         bool   `json:"head_block_unknown"`
	Resolver        int    `json:"cursor_resolver"` // 0 nil junction, 1 same block, 2 junction 3 below, 3 error, 4 LIB fallback
}

var errStub = errors.New("stub: unknown")

var memStore dstore.Store

func cacheStore() dstore.Store {
	if memStore == nil {
		s, err := dstore.NewStore("memory://c17", "", "", false)
		if err != nil {
			panic(err)
		}
		memStore = s
	}
	return memStore
}

// runTier1 chains the calls exactly as service.Tier1Service.Blocks and .blocks do, up to the request plan.
func runTier1(o *outcome, request *pbsubstreamsrpc.Request, env t1env) {
	ctx := context.Background()
	logger := zap.NewNop()
	const blockType = testBlockType
	bstream.GetProtocolFirstStreamableBlock = env.FirstStreamable

	// --- Blocks()
	if !o.do("t1/validate", func() error {
		if request.Modules == nil {
			return fmt.Errorf("missing modules in request")
		}
		return service.ValidateTier1Request(request, blockType)
	}) {
		return
	}
	var execGraph *exec.Graph
	if !o.do("graph", func() (err error) {
		execGraph, err = exec.NewOutputModuleGraph(request.OutputModule, request.ProductionMode, request.Modules, bstream.GetProtocolFirstStreamableBlock)
		if err == nil && execGraph == nil {
			o.nilResult = "graph"
		}
		return err
	}) || o.nilResult != "" {
		return
	}
	if !o.do("t1/hashes", func() error {
		_ = execGraph.ModuleHashes().Get(request.OutputModule)
		return nil
	}) {
		return
	}

	// --- blocks()
	chainFirstStreamableBlock := bstream.GetProtocolFirstStreamableBlock
	if !o.do("t1/start-block", func() error {
		if request.StartBlockNum > 0 && request.StartBlockNum < int64(chainFirstStreamableBlock) {
			return fmt.Errorf("invalid start block %d, must be >= %d (the first streamable block of the chain)", request.StartBlockNum, chainFirstStreamableBlock)
		} else if request.StartBlockNum < 0 && request.StopBlockNum > 0 {
			if int64(request.StopBlockNum)+int64(request.StartBlockNum) < int64(chainFirstStreamableBlock) {
				request.StartBlockNum = int64(chainFirstStreamableBlock)
			}
		} else if request.StartBlockNum == 0 {
			request.StartBlockNum = int64(chainFirstStreamableBlock)
		}
		return nil
	}) {
		return
	}

	getRecentFinalBlock := func() (uint64, error) {
		if env.FinalErr {
			return 0, errStub
		}
		return env.FinalBlock, nil
	}
	getHeadBlock := func() (uint64, error) {
		if env.HeadErr {
			return 0, errStub
		}
		return env.HeadBlock, nil
	}
	resolveCursor := func(_ context.Context, cursor *bstream.Cursor) (bstream.BlockRef, bstream.BlockRef, error) {
		head := bstream.NewBlockRef("headid", env.HeadBlock)
		switch env.Resolver {
		case 0:
			return nil, head, nil
		case 1:
			return cursor.Block, head, nil
		case 2:
			n := cursor.Block.Num()
			if n >= 3 {
				n -= 3
			}
			return bstream.NewBlockRef("junction", n), head, nil
		case 3:
			return nil, nil, errStub
		default:
			return cursor.LIB, cursor.HeadBlock, nil
		}
	}

	var details *struct {
		production                  bool
		resolvedStart, handoff, end uint64
	}
	if !o.do("t1/request-details", func() error {
		rd, _, err := pipeline.BuildRequestDetails(ctx, request, getRecentFinalBlock, resolveCursor, getHeadBlock, env.SegmentSize)
		if err != nil {
			return err
		}
		if rd == nil {
			o.nilResult = "t1/request-details"
			return nil
		}
		if rd.ResolvedStartBlockNum == request.StopBlockNum && request.StopBlockNum != 0 {
			return fmt.Errorf("start block and stop block are the same")
		}
		details = &struct {
			production                  bool
			resolvedStart, handoff, end uint64
		}{rd.ProductionMode, rd.ResolvedStartBlockNum, rd.LinearHandoffBlockNum, rd.StopBlockNum}
		_ = execGraph.ModuleHashes().Get(rd.OutputModule)
		return nil
	}) || o.nilResult != "" {
		return
	}
	if !o.do("t1/validate-start-block", func() error {
		return execGraph.ValidateRequestStartBlock(details.resolvedStart)
	}) {
		return
	}
	if !o.do("t1/execout-configs", func() error {
		_, err := execout.NewConfigs(cacheStore(), execGraph.UsedModules(), execGraph.ModuleHashes(), env.SegmentSize, chainFirstStreamableBlock, logger)
		return err
	}) {
		return
	}
	if !o.do("t1/store-configs", func() error {
		_, err := store.NewConfigMap(cacheStore(), execGraph.Stores(), execGraph.ModuleHashes(), chainFirstStreamableBlock)
		return err
	}) {
		return
	}
	o.do("t1/plan", func() error {
		scheduleStores := execGraph.StagedUsedModules()[0].LastLayer().IsStoreLayer()
		var lowestStoresInitBlock uint64
		if scheduleStores {
			lowestStoresInitBlock = *execGraph.LowestStoresInitBlock()
		}
		reqPlan, err := plan.BuildTier1RequestPlan(
			details.production,
			env.SegmentSize,
			execGraph.LowestInitBlock(),
			lowestStoresInitBlock,
			details.resolvedStart,
			details.handoff,
			details.end,
			scheduleStores,
		)
		if err != nil {
			return err
		}
		if reqPlan == nil {
			o.nilResult = "t1/plan"
			return nil
		}
		_ = reqPlan.String() // logged by blocks()
		_ = execGraph.OutputModuleStageIndex()
		return nil
	})
}

// ---------------------------------------------------------------- tier 2

// runTier2 chains the calls exactly as service.Tier2Service.ProcessRange and .processRange do, up to the execution plan
// (the object stores named by the request are replaced by one empty in-memory store; the metering plugin is not created).
func runTier2(o *outcome, request *pbssinternal.ProcessRangeRequest) {
	ctx := context.Background()
	logger := zap.NewNop()

	if !o.do("t2/validate", func() error {
		if request.Modules == nil {
			return fmt.Errorf("missing modules in request")
		}
		names := make([]string, len(request.Modules.Modules))
		for i := 0; i < len(names); i++ {
			names[i] = request.Modules.Modules[i].Name
		}
		return service.ValidateTier2Request(request)
	}) {
		return
	}
	var execGraph *exec.Graph
	if !o.do("graph", func() (err error) {
		execGraph, err = exec.NewOutputModuleGraph(request.OutputModule, true, request.Modules, request.FirstStreamableBlock)
		if err == nil && execGraph == nil {
			o.nilResult = "graph"
		}
		return err
	}) || o.nilResult != "" {
		return
	}
	var startBlock, stopBlock uint64
	if !o.do("t2/request-details", func() error {
		rd := pipeline.BuildRequestDetailsFromSubrequest(request)
		if rd == nil {
			o.nilResult = "t2/request-details"
			return nil
		}
		_ = execGraph.ModuleHashes().Get(rd.OutputModule)
		startBlock = request.StartBlock()
		stopBlock = request.StopBlock()
		return nil
	}) || o.nilResult != "" {
		return
	}
	var execOutputConfigs *execout.Configs
	if !o.do("t2/execout-configs", func() (err error) {
		execOutputConfigs, err = execout.NewConfigs(
			cacheStore(),
			execGraph.UsedModulesUpToStage(int(request.Stage)),
			execGraph.ModuleHashes(),
			request.SegmentSize,
			request.FirstStreamableBlock,
			logger)
		return err
	}) {
		return
	}
	var storeConfigs store.ConfigMap
	if !o.do("t2/store-configs", func() (err error) {
		storeConfigs, err = store.NewConfigMap(cacheStore(), execGraph.Stores(), execGraph.ModuleHashes(), request.FirstStreamableBlock)
		return err
	}) {
		return
	}
	var indexConfigs *index.Configs
	if !o.do("t2/index-configs", func() (err error) {
		indexConfigs, err = index.NewConfigs(cacheStore(), execGraph.UsedIndexesModulesUpToStage(int(request.Stage)), execGraph.ModuleHashes(), request.FirstStreamableBlock, logger)
		return err
	}) {
		return
	}
	o.do("t2/execution-plan", func() error {
		_, err := service.GetExecutionPlan(ctx, logger, execGraph, request.Stage, startBlock, stopBlock, request.OutputModule, execOutputConfigs, indexConfigs, storeConfigs)
		return err
	})
}
