package c17

import (
	"context"
	"errors"
	"fmt"
	"io"
	"os"
	"runtime/debug"
	"runtime/metrics"
	"strings"
	"sync/atomic"

	"github.com/streamingfast/bstream"
	"github.com/streamingfast/bstream/stream"
	"github.com/streamingfast/dmetering"
	"github.com/streamingfast/dstore"
	"github.com/streamingfast/substreams"
	"github.com/streamingfast/substreams/orchestrator/loop"
	"github.com/streamingfast/substreams/orchestrator/plan"
	"github.com/streamingfast/substreams/orchestrator/response"
	"github.com/streamingfast/substreams/orchestrator/stage"
	"github.com/streamingfast/substreams/orchestrator/work"
	pbssinternal "github.com/streamingfast/substreams/pb/sf/substreams/intern/v2"
	pbsubstreamsrpc "github.com/streamingfast/substreams/pb/sf/substreams/rpc/v2"
	"github.com/streamingfast/substreams/pipeline"
	"github.com/streamingfast/substreams/pipeline/exec"
	"github.com/streamingfast/substreams/reqctx"
	"github.com/streamingfast/substreams/service"
	"github.com/streamingfast/substreams/service/config"
	"github.com/streamingfast/substreams/storage/execout"
	"github.com/streamingfast/substreams/storage/store"
	"go.uber.org/zap"
)

// outcome is what one run of a request through a service chain produced.
type outcome struct {
	cur atomic.Value // string: stage being executed (read by the watchdog)

	reached        []string
	rejectedAt     string
	err            error
	panicStage     string
	panicMsg       string
	panicFn        string
	stack          string
	nilResult      string      // stage that returned (nil result, nil error)
	clientWentAway atomic.Bool // the request context was cancelled while the request was still running
	route          string      // "real": the real blocks()/processRange ran; "restated": tier1 chain with stub callbacks
	sanitized      bool        // a store URL of the tier2 request was replaced by an in-memory one

	memStage  string // stage with the largest heap growth
	memGrowth int64
	allocated uint64 // bytes allocated over the whole chain (gauge only)
}

func (o *outcome) accepted() bool {
	return o.rejectedAt == "" && o.panicStage == "" && o.nilResult == ""
}

var memSamples = []metrics.Sample{
	{Name: "/memory/classes/heap/objects:bytes"},
	{Name: "/memory/classes/total:bytes"},
	{Name: "/gc/heap/allocs:bytes"},
}

type memPoint struct{ heap, total, allocs uint64 }

func readMem() memPoint {
	s := make([]metrics.Sample, len(memSamples))
	copy(s, memSamples)
	metrics.Read(s)
	return memPoint{s[0].Value.Uint64(), s[1].Value.Uint64(), s[2].Value.Uint64()}
}

// panicSite extracts the innermost /repo function on the panicking stack.
func panicSite(stack string) string {
	lines := strings.Split(stack, "\n")
	seenPanic := false
	for _, ln := range lines {
		if strings.HasPrefix(ln, "panic(") {
			seenPanic = true
			continue
		}
		if !seenPanic || strings.HasPrefix(ln, "\t") {
			continue
		}
		if i := strings.Index(ln, "github.com/streamingfast/substreams/"); i >= 0 {
			fn := ln[i+len("github.com/streamingfast/substreams/"):]
			if j := strings.LastIndex(fn, "("); j >= 0 {
				fn = fn[:j]
			}
			return fn
		}
	}
	return "?"
}

// do runs one stage with its own panic capture and memory sampling. It returns false when the chain stops.
func (o *outcome) do(name string, f func() error) (cont bool) {
	o.cur.Store(name)
	before := readMem()
	defer func() {
		after := readMem()
		g := int64(after.heap) - int64(before.heap)
		if t := int64(after.total) - int64(before.total); t > g {
			g = t
		}
		if g > o.memGrowth {
			o.memGrowth, o.memStage = g, name
		}
		o.allocated += after.allocs - before.allocs
		if r := recover(); r != nil {
			o.panicStage = name
			o.panicMsg = fmt.Sprint(r)
			o.stack = string(debug.Stack())
			o.panicFn = panicSite(o.stack)
			cont = false
		}
	}()
	err := f()
	o.reached = append(o.reached, name)
	if err != nil {
		o.rejectedAt, o.err = name, err
		return false
	}
	return true
}

// ---------------------------------------------------------------- common wiring of the real services

// noBlocks is the block source handed to the real services: it delivers no block and ends at once.
//
// tier2 (and tier1 when the range left to stream is short) ends with io.EOF, as the real services do themselves on
// their zero-block paths (all executors excluded by the index, outputs already cached, no linear range). A tier1 range
// of more than maxQuietRange blocks ends with an error instead: a real block source never reports a clean end that
// far before the stop block (EOF is produced by the pipeline when it SEES the stop block), and OnStreamTerminated
// walks every store boundary up to the stop block on a clean end.
type noBlocks struct{ err error }

const maxQuietRange = 100_000

var errSourceDry = errors.New("c17: block source ended before the stop block")

func (s noBlocks) Run(ctx context.Context) error { return s.err }

func tier2StreamFactory(ctx context.Context, h bstream.Handler, startBlockNum int64, stopBlockNum uint64, cursor string, finalBlocksOnly bool, cursorIsTarget bool, logger *zap.Logger, extraOpts ...stream.Option) (service.Streamable, error) {
	return noBlocks{io.EOF}, nil
}

func tier1StreamFactory(ctx context.Context, h bstream.Handler, startBlockNum int64, stopBlockNum uint64, cursor string, finalBlocksOnly bool, cursorIsTarget bool, logger *zap.Logger, extraOpts ...stream.Option) (service.Streamable, error) {
	if stopBlockNum != 0 && startBlockNum >= 0 && (stopBlockNum <= uint64(startBlockNum) || stopBlockNum-uint64(startBlockNum) <= maxQuietRange) {
		return noBlocks{io.EOF}, nil
	}
	return noBlocks{errSourceDry}, nil
}

var errNoTier2 = errors.New("no tier2 in this check")

// failingWorker answers every parallel job with an immediate failure: this check has no tier2 behind tier1.
type failingWorker struct{}

func (failingWorker) ID() string { return "c17-worker" }
func (failingWorker) Work(ctx context.Context, unit stage.Unit, startBlock uint64, moduleNames []string, upstream *response.Stream) loop.Cmd {
	return func() loop.Msg { return work.MsgJobFailed{Unit: unit, Error: errNoTier2} }
}

func discard(substreams.ResponseFromAnyTier) error { return nil }

var memStoreSeq int

func freshMemoryURL(tag string) string {
	memStoreSeq++
	return fmt.Sprintf("memory://c17-%s-%d", tag, memStoreSeq)
}

func serviceContext(parent context.Context, p reqctx.Tier2RequestParameters) (context.Context, error) {
	ctx := dmetering.WithBytesMeter(parent)
	ctx = reqctx.WithTier2RequestParameters(ctx, p)
	emitter, err := dmetering.New("null://", zap.NewNop())
	if err != nil {
		return nil, err
	}
	return reqctx.WithEmitter(ctx, emitter), nil
}

// ---------------------------------------------------------------- tier 1

// t1env is the server side of a tier1 request: chain constants and the answers of the three callbacks.
type t1env struct {
	FirstStreamable uint64 `json:"first_streamable_block"`
	SegmentSize     uint64 `json:"segment_size"`
	FinalBlock      uint64 `json:"recent_final_block"`
	FinalErr        bool   `json:"recent_final_block_unknown"`
	HeadBlock       uint64 `json:"head_block"`
	HeadErr         bool   `json:"head_block_unknown"`
	Resolver        int    `json:"cursor_resolver"` // 0 nil junction, 1 same block, 2 junction 3 below, 3 error, 4 LIB fallback
}

var errStub = errors.New("stub: unknown")

// needsCallbacks tells whether Tier1Service.blocks would call getHeadBlock or resolveCursor for this request.
// service.TestNewService leaves both nil (an artefact of the test constructor), so those requests cannot go
// through the real blocks(); they run through the restated chain below instead.
func needsCallbacks(request *pbsubstreamsrpc.Request) bool {
	if request.StartBlockNum < 0 {
		return true
	}
	if request.StartCursor == "" {
		return false
	}
	cursor, err := bstream.CursorFromOpaque(request.StartCursor)
	if err != nil {
		return false // rejected before any callback
	}
	if request.StopBlockNum > 0 && request.StopBlockNum < cursor.Block.Num() {
		return false
	}
	if cursor.IsOnFinalBlock() || cursor.LIB.Num() > cursor.Block.Num() {
		return false
	}
	return true
}

// runTier1: request validation as Tier1Service.Blocks does it, then the REAL Tier1Service.blocks through
// service.TestNewService(...).TestBlocks with a block source that delivers no block and a worker that fails every
// parallel job; only requests that need the head-block / cursor-resolution callbacks take the restated chain.
func runTier1(ctx context.Context, o *outcome, request *pbsubstreamsrpc.Request, env t1env) {
	const blockType = testBlockType
	bstream.GetProtocolFirstStreamableBlock = env.FirstStreamable

	if !o.do("t1/validate", func() error {
		if request.Modules == nil {
			return fmt.Errorf("missing modules in request")
		}
		return service.ValidateTier1Request(request, blockType)
	}) {
		return
	}
	if needsCallbacks(request) {
		o.route = "restated"
		runTier1Restated(ctx, o, request, env)
		return
	}
	o.route = "real"
	o.do("t1/blocks", func() error {
		// a local directory: dstore's in-memory store does not implement WalkFrom, which the output walker needs
		dir, err := os.MkdirTemp(".", "t1-")
		if err != nil {
			return fmt.Errorf("harness: %w", err)
		}
		defer os.RemoveAll(dir)
		base, err := dstore.NewStore(dir, "zst", "zstd", true)
		if err != nil {
			return fmt.Errorf("harness: %w", err)
		}
		rc := config.RuntimeConfig{
			SegmentSize:                env.SegmentSize,
			MaxJobsAhead:               10,
			DefaultParallelSubrequests: 2,
			BaseObjectStore:            base,
			DefaultCacheTag:            "tag",
			WorkerFactory:              func(*zap.Logger) work.Worker { return failingWorker{} },
		}
		final := env.FinalBlock
		if env.FinalErr {
			final = 0 // TestNewService: 0 = no live feed
		}
		sctx, err := serviceContext(ctx, reqctx.Tier2RequestParameters{
			MeteringConfig: "null://", FirstStreamableBlock: env.FirstStreamable, MergedBlockStoreURL: "memory://c17-blocks", StateStoreURL: "memory://c17-state",
			StateBundleSize: env.SegmentSize, StateStoreDefaultTag: "tag", BlockType: blockType,
		})
		if err != nil {
			return fmt.Errorf("harness: %w", err)
		}
		return service.TestNewService(rc, final, tier1StreamFactory).TestBlocks(sctx, false, request, discard)
	})
}

// runTier1Restated chains the exported functions in the order Tier1Service.blocks does, up to the request plan,
// with stub callbacks. Only used for requests with a negative start block or a cursor that needs resolution.
func runTier1Restated(ctx context.Context, o *outcome, request *pbsubstreamsrpc.Request, env t1env) {
	logger := zap.NewNop()
	var execGraph *exec.Graph
	if !o.do("t1r/graph", func() (err error) {
		execGraph, err = exec.NewOutputModuleGraph(request.OutputModule, request.ProductionMode, request.Modules, bstream.GetProtocolFirstStreamableBlock)
		if err == nil && execGraph == nil {
			o.nilResult = "t1r/graph"
		}
		return err
	}) || o.nilResult != "" {
		return
	}
	chainFirstStreamableBlock := bstream.GetProtocolFirstStreamableBlock
	if !o.do("t1r/start-block", func() error {
		if request.StartBlockNum > 0 && request.StartBlockNum < int64(chainFirstStreamableBlock) {
			return fmt.Errorf("invalid start block %d, must be >= %d (the first streamable block of the chain)", request.StartBlockNum, chainFirstStreamableBlock)
		} else if request.StartBlockNum < 0 && request.StopBlockNum > 0 {
			if int64(request.StopBlockNum)+int64(request.StartBlockNum) < int64(chainFirstStreamableBlock) {
				request.StartBlockNum = int64(chainFirstStreamableBlock)
			}
		} else if request.StartBlockNum == 0 {
			request.StartBlockNum = int64(chainFirstStreamableBlock)
		}
		return nil
	}) {
		return
	}

	getRecentFinalBlock := func() (uint64, error) {
		if env.FinalErr {
			return 0, errStub
		}
		return env.FinalBlock, nil
	}
	getHeadBlock := func() (uint64, error) {
		if env.HeadErr {
			return 0, errStub
		}
		return env.HeadBlock, nil
	}
	resolveCursor := func(_ context.Context, cursor *bstream.Cursor) (bstream.BlockRef, bstream.BlockRef, error) {
		head := bstream.NewBlockRef("headid", env.HeadBlock)
		switch env.Resolver {
		case 0:
			return nil, head, nil
		case 1:
			return cursor.Block, head, nil
		case 2:
			n := cursor.Block.Num()
			if n >= 3 {
				n -= 3
			}
			return bstream.NewBlockRef("junction", n), head, nil
		case 3:
			return nil, nil, errStub
		default:
			return cursor.LIB, cursor.HeadBlock, nil
		}
	}

	var details *reqctx.RequestDetails
	if !o.do("t1r/request-details", func() error {
		rd, _, err := pipeline.BuildRequestDetails(ctx, request, getRecentFinalBlock, resolveCursor, getHeadBlock, env.SegmentSize)
		if err != nil {
			return err
		}
		if rd == nil {
			o.nilResult = "t1r/request-details"
			return nil
		}
		if rd.ResolvedStartBlockNum == request.StopBlockNum && request.StopBlockNum != 0 {
			return fmt.Errorf("start block and stop block are the same")
		}
		details = rd
		return nil
	}) || o.nilResult != "" {
		return
	}
	if !o.do("t1r/validate-start-block", func() error {
		return execGraph.ValidateRequestStartBlock(details.ResolvedStartBlockNum)
	}) {
		return
	}
	if !o.do("t1r/configs", func() error {
		base, err := dstore.NewStore(freshMemoryURL("t1r"), "zst", "zstd", true)
		if err != nil {
			return fmt.Errorf("harness: %w", err)
		}
		if _, err := execout.NewConfigs(base, execGraph.UsedModules(), execGraph.ModuleHashes(), env.SegmentSize, chainFirstStreamableBlock, logger); err != nil {
			return err
		}
		_, err = store.NewConfigMap(base, execGraph.Stores(), execGraph.ModuleHashes(), chainFirstStreamableBlock)
		return err
	}) {
		return
	}
	o.do("t1r/plan", func() error {
		scheduleStores := execGraph.StagedUsedModules()[0].LastLayer().IsStoreLayer()
		var lowestStoresInitBlock uint64
		if scheduleStores {
			lowestStoresInitBlock = *execGraph.LowestStoresInitBlock()
		}
		reqPlan, err := plan.BuildTier1RequestPlan(
			details.ProductionMode,
			env.SegmentSize,
			execGraph.LowestInitBlock(),
			lowestStoresInitBlock,
			details.ResolvedStartBlockNum,
			details.LinearHandoffBlockNum,
			details.StopBlockNum,
			scheduleStores,
		)
		if err != nil {
			return err
		}
		if reqPlan == nil {
			o.nilResult = "t1r/plan"
			return nil
		}
		_ = reqPlan.String() // logged by blocks()
		return nil
	})
}

// ---------------------------------------------------------------- tier 2

// safeStoreURL keeps the request's store URL when opening it cannot touch the file system or the network
// (memory://, or a scheme dstore does not know: an error is then the expected outcome), and replaces it by a
// fresh in-memory store otherwise (relative paths, file://, gs://, s3://, az://).
func safeStoreURL(u, tag string) (string, bool) {
	if strings.HasPrefix(u, "memory://") {
		return u, false
	}
	if i := strings.Index(u, "://"); i > 0 {
		switch u[:i] {
		case "file", "gs", "s3", "az":
		default:
			ok := true
			for _, ch := range u[:i] {
				if !(ch >= 'a' && ch <= 'z') {
					ok = false
				}
			}
			if ok {
				return u, false // unknown scheme: dstore answers with an error
			}
		}
	}
	return freshMemoryURL(tag), true
}

// runTier2: request validation as Tier2Service.ProcessRange does it, then the REAL Tier2Service.processRange
// through service.TestNewServiceTier2(...).TestProcessRange with a block source that delivers no block.
func runTier2(ctx context.Context, o *outcome, request *pbssinternal.ProcessRangeRequest) {
	if !o.do("t2/validate", func() error {
		if request.Modules == nil {
			return fmt.Errorf("missing modules in request")
		}
		names := make([]string, len(request.Modules.Modules))
		for i := 0; i < len(names); i++ {
			names[i] = request.Modules.Modules[i].Name
		}
		return service.ValidateTier2Request(request)
	}) {
		return
	}
	o.route = "real"
	var sanitized bool
	request.StateStore, sanitized = safeStoreURL(request.StateStore, "state")
	o.sanitized = o.sanitized || sanitized
	request.MergedBlocksStore, sanitized = safeStoreURL(request.MergedBlocksStore, "blocks")
	o.sanitized = o.sanitized || sanitized
	o.do("t2/processrange", func() error {
		sctx, err := serviceContext(ctx, reqctx.Tier2RequestParameters{
			MeteringConfig: "null://", FirstStreamableBlock: request.FirstStreamableBlock, MergedBlockStoreURL: request.MergedBlocksStore, StateStoreURL: request.StateStore,
			StateBundleSize: request.SegmentSize, StateStoreDefaultTag: request.StateStoreDefaultTag, BlockType: request.BlockType,
		})
		if err != nil {
			return fmt.Errorf("harness: %w", err)
		}
		return service.TestNewServiceTier2(false, tier2StreamFactory).TestProcessRange(sctx, request, discard)
	})
}
