package c17

import (
	"bufio"
	"context"
	"encoding/json"
	"fmt"
	"os"
	"path/filepath"
	"runtime"
	"runtime/debug"
	"strings"
	"sync"
	"sync/atomic"
	"time"

	"github.com/streamingfast/dmetering"
	pbssinternal "github.com/streamingfast/substreams/pb/sf/substreams/intern/v2"
	pbsubstreamsrpc "github.com/streamingfast/substreams/pb/sf/substreams/rpc/v2"
	"github.com/streamingfast/substreams/wasm/wazero"

	"verif/harness/fw"
)

// The real services are never run inside the worker process. Each case hands its batch to a CHILD process (the
// same binary, started with the argument childArg): a goroutine stuck in real code cannot be killed, keeps
// allocating and would poison every later measurement of the worker; a child process can be killed.
//
// The child re-generates the batch from (property id, tier, mode, seed, case index), runs the requests
// [From, To) and prints one JSON event per line on stdout:
//
//	start  before a request runs
//	done   with the request's result
//	hang   the request did not return within the timeout (goroutine dump attached); the child exits 42
//	memory the request made memory grow by more than memoryLimit (dump attached); the child exits 43
const childArg = "c17-child"

const memoryLimit = 512 << 20

type childSpec struct {
	ID        string `json:"id"`
	Tier      string `json:"tier"`
	Mode      string `json:"mode"`
	Seed      int64  `json:"seed"`
	Index     int    `json:"index"`
	From      int    `json:"from"`
	To        int    `json:"to"`
	TimeoutMs int64  `json:"timeout_ms"`
	Dir       string `json:"dir"`
}

type event struct {
	I     int     `json:"i"`
	Ev    string  `json:"ev"`
	Res   *result `json:"res,omitempty"`
	Stage string  `json:"stage,omitempty"`
	Fn    string  `json:"fn,omitempty"`
	Dump  string  `json:"dump,omitempty"`
	Bytes int64   `json:"bytes,omitempty"`
}

// result is the serialisable form of an outcome.
type result struct {
	Reached        []string `json:"reached,omitempty"`
	RejectedAt     string   `json:"rejected_at,omitempty"`
	Err            string   `json:"err,omitempty"`
	PanicStage     string   `json:"panic_stage,omitempty"`
	PanicMsg       string   `json:"panic_msg,omitempty"`
	PanicFn        string   `json:"panic_fn,omitempty"`
	Stack          string   `json:"stack,omitempty"`
	NilResult      string   `json:"nil_result,omitempty"`
	Route          string   `json:"route,omitempty"`
	Sanitized      bool     `json:"sanitized,omitempty"`
	ClientWentAway bool     `json:"client_went_away,omitempty"`
	MemStage       string   `json:"mem_stage,omitempty"`
	MemGrowth      int64    `json:"mem_growth,omitempty"`
	Allocated      uint64   `json:"allocated,omitempty"`
	Ms             int64    `json:"ms,omitempty"`
}

func (o *outcome) result(ms int64) *result {
	r := &result{Reached: o.reached, RejectedAt: o.rejectedAt, PanicStage: o.panicStage, PanicMsg: o.panicMsg, PanicFn: o.panicFn, Stack: trimStack(o.stack),
		NilResult: o.nilResult, Route: o.route, Sanitized: o.sanitized, ClientWentAway: o.clientWentAway.Load(), MemStage: o.memStage, MemGrowth: o.memGrowth, Allocated: o.allocated, Ms: ms}
	if o.err != nil {
		r.Err = o.err.Error()
		if len(r.Err) > 2000 {
			r.Err = r.Err[:2000] + "..."
		}
	}
	return r
}

func init() {
	if len(os.Args) >= 3 && os.Args[1] == childArg {
		childMain(os.Args[2])
	}
}

var (
	emitMu  sync.Mutex
	emitOut = bufio.NewWriterSize(os.Stdout, 1<<16)
)

func emit(ev event) {
	b, _ := json.Marshal(ev)
	emitMu.Lock()
	emitOut.Write(b)
	emitOut.WriteByte('\n')
	emitOut.Flush()
	emitMu.Unlock()
}

// what the memory guard compares against: set when a request starts.
var (
	guardItem      atomic.Int64
	guardHeapBase  atomic.Uint64
	guardTotalBase atomic.Uint64
	guardOutcome   atomic.Pointer[outcome]
)

func childSetup(dir string) {
	debug.SetMemoryLimit(1 << 62)
	os.Unsetenv("SUBSTREAMS_WASM_RUNTIME") // default runtime (wazero)
	dmetering.RegisterNull()
	if dir != "" {
		os.MkdirAll(dir, 0o755)
		os.Chdir(dir) // tier1 object stores are created under the working directory
		wazero.SetTempDir(filepath.Dir(dir))
	}
}

func childMain(arg string) {
	var spec childSpec
	if err := json.Unmarshal([]byte(arg), &spec); err != nil {
		fmt.Fprintln(os.Stderr, "c17 child: bad spec:", err)
		os.Exit(2)
	}
	childSetup(spec.Dir)
	b := buildBatch(fw.CaseRand(spec.ID, spec.Tier, spec.Mode, spec.Seed, spec.Index), spec.Index)
	timeout := time.Duration(spec.TimeoutMs) * time.Millisecond

	guardItem.Store(-1)
	go memoryGuard()

	for i := spec.From; i < spec.To && i < len(b.items); i++ {
		it := b.items[i]
		emit(event{I: i, Ev: "start"})
		m := memNow()
		guardHeapBase.Store(m.heap)
		guardTotalBase.Store(m.total)
		guardItem.Store(int64(i))
		t0 := time.Now()
		o, hungAt := execute(&it, timeout)
		guardItem.Store(-1)
		if o == nil {
			d1 := requestGoroutine()
			time.Sleep(30 * time.Millisecond)
			d2 := requestGoroutine()
			emitMu.Lock() // nothing else may be printed after the terminal event
			ev, _ := json.Marshal(event{I: i, Ev: "hang", Stage: hungAt, Fn: stableSite(d1, d2), Dump: clip(d2, 6000)})
			emitOut.Write(append(ev, '\n'))
			emitOut.Flush()
			os.Exit(42)
		}
		emit(event{I: i, Ev: "done", Res: o.result(time.Since(t0).Milliseconds())})
	}
	os.Exit(0)
}

func memNow() memPoint { return readMem() }

// memoryGuard ends the child as soon as the running request made memory grow by more than memoryLimit:
// a request that allocates without bound would otherwise take the machine down before any watchdog fires.
func memoryGuard() {
	for {
		time.Sleep(40 * time.Millisecond)
		i := guardItem.Load()
		if i < 0 {
			continue
		}
		m := readMem()
		g := int64(m.heap) - int64(guardHeapBase.Load())
		if t := int64(m.total) - int64(guardTotalBase.Load()); t > g {
			g = t
		}
		if g <= memoryLimit || guardItem.Load() != i {
			continue
		}
		stage := "?"
		if o := guardOutcome.Load(); o != nil {
			stage, _ = o.cur.Load().(string)
		}
		d1 := requestGoroutine()
		time.Sleep(20 * time.Millisecond)
		d2 := requestGoroutine()
		emitMu.Lock()
		ev, _ := json.Marshal(event{I: int(i), Ev: "memory", Stage: stage, Fn: stableSite(d1, d2), Dump: clip(d2, 6000), Bytes: g})
		emitOut.Write(append(ev, '\n'))
		emitOut.Flush()
		os.Exit(43)
	}
}

func clip(s string, n int) string {
	if len(s) > n {
		return s[:n] + "..."
	}
	return s
}

// requestGoroutine returns the stack of the goroutine that runs the request chain.
func requestGoroutine() string {
	buf := make([]byte, 8<<20)
	buf = buf[:runtime.Stack(buf, true)]
	for _, g := range strings.Split(string(buf), "\n\n") {
		if strings.Contains(g, "c17.runTier") {
			return g
		}
	}
	return ""
}

// repoFrames lists the /repo functions of a goroutine stack, innermost first.
func repoFrames(stack string) []string {
	var out []string
	for _, ln := range strings.Split(stack, "\n") {
		if strings.HasPrefix(ln, "\t") {
			continue
		}
		if i := strings.Index(ln, "github.com/streamingfast/substreams/"); i >= 0 {
			if strings.HasSuffix(ln, "(...)") {
				continue // inlined helper: whether a sample lands in it or in its caller is a matter of timing
			}
			fn := ln[i+len("github.com/streamingfast/substreams/"):]
			if j := strings.LastIndex(fn, "("); j >= 0 {
				fn = fn[:j]
			}
			out = append(out, fn)
		}
	}
	return out
}

// stableSite names where a request is stuck: the innermost /repo function that is on the stack in both of two
// dumps taken a moment apart (the very innermost frame of a busy loop changes from one instant to the next).
func stableSite(d1, d2 string) string {
	f2 := map[string]bool{}
	for _, f := range repoFrames(d2) {
		f2[f] = true
	}
	for _, f := range repoFrames(d1) {
		if f2[f] {
			return f
		}
	}
	return "?"
}

// execute runs one request under the watchdog. It returns the outcome, or the stage name where it hung. The
// context handed to the request is cancelled once it returned (or was given up), so that what the real services
// started (scheduler, back-filler) stops.
func execute(it *item, timeout time.Duration) (*outcome, string) {
	o := &outcome{}
	o.cur.Store("start")
	guardOutcome.Store(o)
	var msg1 *pbsubstreamsrpc.Request
	var msg2 *pbssinternal.ProcessRangeRequest
	m, err := it.decode()
	if err != nil {
		o.rejectedAt, o.err = "decode", err
		return o, ""
	}
	if it.tier == 1 {
		msg1 = m.(*pbsubstreamsrpc.Request)
	} else {
		msg2 = m.(*pbssinternal.ProcessRangeRequest)
	}
	ctx, cancel := context.WithCancel(context.Background())
	defer cancel()
	// the client goes away after clientPatience, as any client may: this ends the real code's retry back-offs on a
	// missing store file (1+1+2+3+5 s...) instead of sleeping through them; code that ignores the context is unaffected
	away := time.AfterFunc(clientPatience, func() { o.clientWentAway.Store(true); cancel() })
	defer away.Stop()
	done := make(chan struct{})
	go func() {
		defer close(done)
		if it.tier == 1 {
			runTier1(ctx, o, msg1, it.env)
		} else {
			runTier2(ctx, o, msg2)
		}
	}()
	t := time.NewTimer(timeout)
	defer t.Stop()
	select {
	case <-done:
		return o, ""
	case <-t.C:
		return nil, o.cur.Load().(string)
	}
}
