// Package c17 checks property C17: malformed requests are rejected with an
// error, never with a crash, a hang or unbounded allocation, by request
// validation and by the graph construction, hashing, staging and planning
// that follow it in the tier1 and tier2 services.
package c17

import (
	"bufio"
	"encoding/json"
	"fmt"
	"math"
	"math/rand"
	"os"
	"os/exec"
	"path/filepath"
	"regexp"
	"strings"
	"sync"
	"syscall"
	"time"

	pbssinternal "github.com/streamingfast/substreams/pb/sf/substreams/intern/v2"
	pbsubstreamsrpc "github.com/streamingfast/substreams/pb/sf/substreams/rpc/v2"
	pbsubstreams "github.com/streamingfast/substreams/pb/sf/substreams/v1"
	"google.golang.org/protobuf/encoding/protojson"
	"google.golang.org/protobuf/proto"

	"verif/harness/fw"
)

const batchSize = 100

var (
	clientPatience = 500 * time.Millisecond
	firstTimeout   = 20 * time.Second
	secondTimeout  = 60 * time.Second
)

func init() {
	// debugging aid for replays: VH_C17_TIMEOUTS=3,5
	var a, b int
	if n, _ := fmt.Sscanf(os.Getenv("VH_C17_TIMEOUTS"), "%d,%d", &a, &b); n == 2 {
		firstTimeout, secondTimeout = time.Duration(a)*time.Second, time.Duration(b)*time.Second
	}
}

func init() {
	fw.Register(&fw.Spec{
		ID:    "C17",
		Level: "exploration",
		Rule: "case = batch of 100 requests, alternately sf.substreams.rpc.v2.Request and sf.substreams.internal.v2.ProcessRangeRequest, from four families: (A) structurally arbitrary messages (every field free, 0..120 modules), " +
			"(B) a well-formed request built by the harness with 1-3 structural mutations (absent kind / input oneof, dangling, self and cyclic references, duplicate / empty / invalid names, binary index out of range, extreme initial blocks, bogus store policies, bad cursors, start/stop relations, stage out of range, ...), " +
			"(C) a well-formed request marshalled, mutated at byte level and unmarshalled again, (D) the well-formed request itself. Every message is passed through proto.Marshal/Unmarshal first, so it is one a client can put on the wire. " +
			"Each case hands its batch to a child process (same binary), which runs each message in a goroutine under a 20 s watchdog and a live memory guard and reports one result per message; the worker judges the reports. tier1 = nil-Modules guard + service.ValidateTier1Request, then the REAL Tier1Service.blocks through service.TestNewService(...).TestBlocks (graph, request details, configs, pipeline, plan, Init, back-processing with a worker that fails every job, block source that delivers no block, OnStreamTerminated); " +
			"requests with a negative start block or a cursor needing resolution (TestNewService has no head-block / cursor callbacks) run exec.NewOutputModuleGraph -> pipeline.BuildRequestDetails (stub callbacks, PRNG-chosen answers) -> ValidateRequestStartBlock -> configs -> plan.BuildTier1RequestPlan instead. " +
			"tier2 = nil-Modules guard + service.ValidateTier2Request, then the REAL Tier2Service.processRange through service.TestNewServiceTier2(...).TestProcessRange (stores, graph, stage check, configs, GetExecutionPlan, pipeline New/Init/InitTier2Stores/BuildModuleExecutors with the default wazero runtime, no-block source, OnStreamTerminated). " +
			"Violation: panic in a stage (signature = stage + innermost /repo function + normalized message), death of the child process while a message runs (panic in a goroutine started by the real code, fatal error), hang reproduced alone in a fresh child under a 60 s watchdog, heap or process memory growing by > 512 MiB while one message < 1 MiB runs (the guard ends the child at once), a stage returning neither a result nor an error, or a hand-minimised malformed witness of case 0 that is not rejected with an error. " +
			"non-trivial = message that request validation accepted (so the service ran on it); distinct by hash of the wire bytes",
		Assumptions: []string{
			"only wire-representable messages are in scope (no nil element in a repeated field, no oneof wrapper holding a nil message): they cannot be produced by proto.Unmarshal",
			"the two lines of Blocks/ProcessRange before validation (nil-Modules guard, module-name list) are re-stated; everything after validation is the real blocks()/processRange(), except tier1 requests that need getHeadBlock/resolveCursor, for which the exported functions are chained by the driver",
			"tier2: StateStore / MergedBlocksStore are kept when they are memory:// URLs or use a scheme dstore does not know (error expected), and replaced by a fresh memory:// URL otherwise (local paths and cloud buckets are not opened); the metering plugin is the null emitter",
			"no tier2 behind tier1: every parallel job fails at once, so a tier1 request that needs back-processing ends with that error; no block is delivered, so no module code runs (binaries of well-formed requests are valid empty WebAssembly modules)",
			"segment size (tier1) and block type are server configuration: segment size in {1,10,100,1000}, never 0",
			"the client goes away (request context cancelled) 500 ms after the request started, as any client may: this cuts short the real code's retry back-offs on a missing store file (a tier2 request for a later segment of a higher stage on an empty store); requests that outlive the client are counted (requests_still_running_when_client_went_away)",
			"block heights answered by the chain (recent final block, head block) are realistic (<= 123456): they are not request content",
			"tier1 block source: clean end (io.EOF) only when at most 100000 blocks were left to stream, an error otherwise (a real source never ends cleanly that far before the stop block; OnStreamTerminated walks every store boundary up to the stop block)",
			"after 2 hangs reproduced in one stage by one worker process, further time-outs in that stage are counted without being reproduced again",
		},
		Cases: func(tier, mode string) int {
			if tier == "thorough" {
				return 20000
			}
			return 200
		},
		CaseTimeout:   15 * time.Minute,
		MinNontrivial: 2000,
		Run:           run,
	})
}

type witness struct {
	Tier      int             `json:"tier"`
	Family    string          `json:"family"`
	Mutations []string        `json:"mutations,omitempty"`
	Env       *t1env          `json:"tier1_environment,omitempty"`
	Request   json.RawMessage `json:"request"`
	WireSize  int             `json:"wire_bytes"`
	Stack     string          `json:"stack,omitempty"`
	Hung      string          `json:"request_goroutine_at_timeout,omitempty"`
	Stderr    string          `json:"child_stderr,omitempty"`
	Reached   []string        `json:"stages_completed,omitempty"`
}

func genEnv(r *rand.Rand) t1env {
	// what the chain answers: realistic block heights only (the final / head block is not request content; with a final
	// block of 2^64-1 tier1 would legitimately plan 10^16 segments of back-processing)
	nums := []uint64{0, 5, 50, 999, 5000, 123456}
	return t1env{
		FirstStreamable: []uint64{0, 0, 0, 0, 1, 2, 100}[r.Intn(7)],
		SegmentSize:     []uint64{1, 10, 100, 1000}[r.Intn(4)],
		FinalBlock:      nums[r.Intn(len(nums))],
		FinalErr:        r.Intn(6) == 0,
		HeadBlock:       nums[r.Intn(len(nums))],
		HeadErr:         r.Intn(6) == 0,
		Resolver:        r.Intn(5),
	}
}

func toJSON(m proto.Message) json.RawMessage {
	b, err := protojson.Marshal(m)
	if err != nil {
		b, _ = json.Marshal(fmt.Sprintf("protojson: %v; text: %v", err, m))
	}
	if len(b) > 150000 {
		b, _ = json.Marshal(string(b[:150000]) + "...")
	}
	return b
}

type item struct {
	tier   int
	family string
	muts   []string
	msg    proto.Message // as generated (nil for wire-level mutations)
	wire   []byte        // what goes over the wire
	env    t1env         // tier1 only
	expect string        // corpus only: "reject" = must be rejected with an error, "" = anything but a violation
}

func (it *item) decode() (proto.Message, error) {
	if it.tier == 1 {
		m := &pbsubstreamsrpc.Request{}
		return m, proto.Unmarshal(it.wire, m)
	}
	m := &pbssinternal.ProcessRangeRequest{}
	return m, proto.Unmarshal(it.wire, m)
}

// batch is the deterministic content of one case: the same in the worker and in its child process.
type batch struct {
	items  []item
	counts map[string]int64
}

func buildBatch(r *rand.Rand, index int) *batch {
	b := &batch{counts: map[string]int64{}}
	var items []item
	if index == 0 {
		items = corpus()
	}
	for i := 0; i < batchSize; i++ {
		it, ok := generate(r, b.counts, i)
		env := genEnv(r) // always drawn, so that the PRNG stream does not depend on the message
		if it.tier == 1 {
			it.env = env
		}
		if ok {
			items = append(items, it)
		}
	}
	for _, it := range items {
		b.counts["generated/"+it.family]++
		// through the wire: what the server decodes is what a client can encode
		if it.wire == nil {
			w, err := proto.Marshal(it.msg)
			if err != nil {
				b.counts["not_encodable"]++
				continue
			}
			it.wire = w
		}
		if _, err := it.decode(); err != nil {
			b.counts["wire_mutation_undecodable"]++
			continue
		}
		b.items = append(b.items, it)
	}
	return b
}

// corpus is a fixed list of hand-minimized messages, run at the start of case 0 of every run, so that each
// root cause found so far has a small deterministic witness.
func corpus() []item {
	bin := []*pbsubstreams.Binary{{Type: "wasm/rust-v1", Content: emptyWasm('x')}}
	mapMod := func(name string, inputs ...*pbsubstreams.Module_Input) *pbsubstreams.Module {
		return &pbsubstreams.Module{Name: name, Kind: kindMap(), Inputs: inputs, Output: &pbsubstreams.Module_Output{Type: "proto:my.Out"}}
	}
	plainEnv := t1env{SegmentSize: 10, FinalBlock: 999, HeadBlock: 1000}
	noFinalEnv := t1env{SegmentSize: 10, FinalErr: true, HeadBlock: 1000}
	storeAndMap := func() *pbsubstreams.Modules {
		return &pbsubstreams.Modules{Binaries: bin, Modules: []*pbsubstreams.Module{
			{Name: "s", Kind: &pbsubstreams.Module_KindStore_{KindStore: &pbsubstreams.Module_KindStore{UpdatePolicy: pbsubstreams.Module_KindStore_UPDATE_POLICY_SET, ValueType: "string"}}, Inputs: []*pbsubstreams.Module_Input{srcInput(testBlockType)}},
			mapMod("m", storeInput("s", pbsubstreams.Module_Input_Store_GET)),
		}}
	}
	t2 := func(ms *pbsubstreams.Modules, out string, stage uint32) *pbssinternal.ProcessRangeRequest {
		return &pbssinternal.ProcessRangeRequest{Modules: ms, OutputModule: out, Stage: stage, MeteringConfig: "null://", BlockType: testBlockType,
			StateStore: "memory://state", MergedBlocksStore: "memory://blocks", SegmentSize: 10, SegmentNumber: 1}
	}
	one := &pbsubstreams.Modules{Binaries: bin, Modules: []*pbsubstreams.Module{mapMod("m", srcInput(testBlockType))}}
	return []item{
		{tier: 1, family: "corpus", expect: "reject", muts: []string{"single module without kind"}, env: plainEnv,
			msg: &pbsubstreamsrpc.Request{OutputModule: "m", StopBlockNum: 10, Modules: &pbsubstreams.Modules{Binaries: bin, Modules: []*pbsubstreams.Module{{Name: "m", Inputs: []*pbsubstreams.Module_Input{srcInput(testBlockType)}}}}}},
		{tier: 2, family: "corpus", expect: "reject", muts: []string{"single module without kind"},
			msg: t2(&pbsubstreams.Modules{Binaries: bin, Modules: []*pbsubstreams.Module{{Name: "m", Inputs: []*pbsubstreams.Module_Input{srcInput(testBlockType)}}}}, "m", 0)},
		{tier: 1, family: "corpus", expect: "reject", muts: []string{"valid map module, request carries no binary"}, env: plainEnv,
			msg: &pbsubstreamsrpc.Request{OutputModule: "m", StopBlockNum: 10, Modules: &pbsubstreams.Modules{Modules: []*pbsubstreams.Module{mapMod("m", srcInput(testBlockType))}}}},
		{tier: 1, family: "corpus", expect: "reject", muts: []string{"valid map module, binary_index 1 with one binary"}, env: plainEnv,
			msg: &pbsubstreamsrpc.Request{OutputModule: "m", StopBlockNum: 10, Modules: &pbsubstreams.Modules{Binaries: bin, Modules: []*pbsubstreams.Module{
				{Name: "m", Kind: kindMap(), BinaryIndex: 1, Inputs: []*pbsubstreams.Module_Input{srcInput(testBlockType)}, Output: &pbsubstreams.Module_Output{Type: "proto:my.Out"}}}}}},
		{tier: 1, family: "corpus", expect: "reject", muts: []string{"map module whose only input has no oneof member set"}, env: plainEnv,
			msg: &pbsubstreamsrpc.Request{OutputModule: "m", StopBlockNum: 10, Modules: &pbsubstreams.Modules{Binaries: bin, Modules: []*pbsubstreams.Module{mapMod("m", &pbsubstreams.Module_Input{})}}}},
		{tier: 2, family: "corpus", expect: "reject", muts: []string{"well-formed single-map request, stage 1 (graph has 1 stage)"}, msg: t2(one, "m", 1)},
		{tier: 2, family: "corpus", muts: []string{"map module without an output type (module.output absent)"},
			msg: t2(&pbsubstreams.Modules{Binaries: bin, Modules: []*pbsubstreams.Module{{Name: "m", Kind: kindMap(), Inputs: []*pbsubstreams.Module_Input{srcInput(testBlockType)}}}}, "m", 0)},
		{tier: 2, family: "corpus", muts: []string{"segment_size 2^64-1, segment_number 1: the segment's end wraps below its start"},
			msg: func() *pbssinternal.ProcessRangeRequest {
				r := t2(proto.Clone(one).(*pbsubstreams.Modules), "m", 0)
				r.SegmentSize, r.SegmentNumber = math.MaxUint64, 1
				return r
			}()},
		{tier: 2, family: "corpus", muts: []string{"store module, segment_size 1, segment_number 2^64-2: the last segment of the uint64 range"},
			msg: func() *pbssinternal.ProcessRangeRequest {
				ms := &pbsubstreams.Modules{Binaries: bin, Modules: []*pbsubstreams.Module{{Name: "s", Kind: &pbsubstreams.Module_KindStore_{KindStore: &pbsubstreams.Module_KindStore{UpdatePolicy: pbsubstreams.Module_KindStore_UPDATE_POLICY_SET, ValueType: "string"}}, Inputs: []*pbsubstreams.Module_Input{srcInput(testBlockType)}}}}
				r := t2(ms, "s", 0)
				r.SegmentSize, r.SegmentNumber = 1, math.MaxUint64-1
				return r
			}()},
		{tier: 1, family: "corpus", muts: []string{"production mode, start block 2^50, stop 2^50+5, server without a known final block"}, env: noFinalEnv,
			msg: &pbsubstreamsrpc.Request{OutputModule: "m", ProductionMode: true, StartBlockNum: 1 << 50, StopBlockNum: 1<<50 + 5, Modules: storeAndMap()}},
		{tier: 1, family: "corpus", muts: []string{"production mode, stop block 2^64-2, segment size 100, a store starting at block 90, server without a known final block"}, env: t1env{SegmentSize: 100, FinalErr: true, HeadBlock: 1000},
			msg: func() *pbsubstreamsrpc.Request {
				// the stop block rounded up to the next segment boundary wraps to 84; store s2 starts at 90
				ms := storeAndMap()
				s2 := &pbsubstreams.Module{Name: "s2", InitialBlock: 90, Kind: &pbsubstreams.Module_KindStore_{KindStore: &pbsubstreams.Module_KindStore{UpdatePolicy: pbsubstreams.Module_KindStore_UPDATE_POLICY_SET, ValueType: "string"}}, Inputs: []*pbsubstreams.Module_Input{storeInput("s", pbsubstreams.Module_Input_Store_GET)}}
				m := mapMod("m", storeInput("s2", pbsubstreams.Module_Input_Store_GET))
				m.InitialBlock = 90
				ms.Modules = []*pbsubstreams.Module{ms.Modules[0], s2, m}
				return &pbsubstreamsrpc.Request{OutputModule: "m", ProductionMode: true, StartBlockNum: 95, StopBlockNum: math.MaxUint64 - 1, Modules: ms}
			}()},
		{tier: 2, family: "corpus", muts: []string{"well-formed single-map request, stage 0"}, msg: t2(proto.Clone(one).(*pbsubstreams.Modules), "m", 0)},
		{tier: 1, family: "corpus", muts: []string{"well-formed single-map request"}, env: plainEnv,
			msg: &pbsubstreamsrpc.Request{OutputModule: "m", StopBlockNum: 10, Modules: proto.Clone(one).(*pbsubstreams.Modules)}},
	}
}

func generate(r *rand.Rand, counts map[string]int64, i int) (it item, ok bool) {
	it.tier = 1 + i%2
	tier := it.tier
	switch x := r.Intn(100); {
	case x < 28:
		it.family = "A-arbitrary"
		if tier == 1 {
			it.msg = arbTier1(r)
		} else {
			it.msg = arbTier2(r)
		}
	case x < 75:
		it.family = "B-structural-mutation"
		n := 1
		if r.Intn(3) == 0 {
			n = 2 + r.Intn(2)
		}
		if tier == 1 {
			req := validTier1(r)
			for k := 0; k < n; k++ {
				it.muts = append(it.muts, mutateTier1(r, req))
			}
			it.msg = req
		} else {
			req := validTier2(r)
			for k := 0; k < n; k++ {
				it.muts = append(it.muts, mutateTier2(r, req))
			}
			it.msg = req
		}
	case x < 93:
		it.family = "C-wire-mutation"
		var base proto.Message
		if tier == 1 {
			base = validTier1(r)
		} else {
			base = validTier2(r)
		}
		b, err := proto.Marshal(base)
		if err != nil {
			counts["marshal_failed"]++
			return it, false
		}
		it.wire = mutateBytes(r, b)
	default:
		it.family = "D-well-formed"
		if tier == 1 {
			it.msg = validTier1(r)
		} else {
			it.msg = validTier2(r)
		}
	}
	return it, true
}

// ---------------------------------------------------------------- the worker side: drive the child, judge its reports

type childProc struct {
	cmd    *exec.Cmd
	events chan event
	stderr *tailBuffer
	dir    string
}

type tailBuffer struct {
	mu  sync.Mutex
	buf []byte
}

func (t *tailBuffer) Write(p []byte) (int, error) {
	t.mu.Lock()
	t.buf = append(t.buf, p...)
	if len(t.buf) > 1<<20 {
		t.buf = append(t.buf[:1<<18:1<<18], t.buf[len(t.buf)-(1<<18):]...)
	}
	t.mu.Unlock()
	return len(p), nil
}

func (t *tailBuffer) String() string {
	t.mu.Lock()
	defer t.mu.Unlock()
	return string(t.buf)
}

var childSeq int

func scratchRoot() string {
	if d := os.Getenv("VH_SCRATCH"); d != "" {
		return d
	}
	return os.TempDir()
}

func startChild(c *fw.Case, from, to int, timeout time.Duration) (*childProc, error) {
	exe, err := os.Executable()
	if err != nil {
		return nil, err
	}
	childSeq++
	dir := filepath.Join(scratchRoot(), fmt.Sprintf("c17-%d", os.Getpid()), fmt.Sprintf("child-%d", childSeq))
	spec, _ := json.Marshal(childSpec{ID: c.Spec.ID, Tier: c.Tier, Mode: c.Mode, Seed: c.Seed, Index: c.Index, From: from, To: to, TimeoutMs: timeout.Milliseconds(), Dir: dir})
	cmd := exec.Command(exe, childArg, string(spec))
	cp := &childProc{cmd: cmd, events: make(chan event, 16), stderr: &tailBuffer{}, dir: dir}
	cmd.Stderr = cp.stderr
	cmd.SysProcAttr = &syscall.SysProcAttr{Setpgid: true}
	out, err := cmd.StdoutPipe()
	if err != nil {
		return nil, err
	}
	if err := cmd.Start(); err != nil {
		return nil, err
	}
	go func() {
		sc := bufio.NewScanner(out)
		sc.Buffer(make([]byte, 1<<20), 1<<26)
		for sc.Scan() {
			var ev event
			if json.Unmarshal(sc.Bytes(), &ev) == nil && ev.Ev != "" {
				cp.events <- ev
			}
		}
		close(cp.events)
	}()
	return cp, nil
}

// finish waits for the child (killing it if asked) and removes its directory.
func (cp *childProc) finish(kill bool) error {
	if kill {
		syscall.Kill(-cp.cmd.Process.Pid, syscall.SIGKILL)
	}
	for range cp.events {
	}
	err := cp.cmd.Wait()
	os.RemoveAll(cp.dir)
	return err
}

var crashLine = regexp.MustCompile(`(?m)^(panic: .*|fatal error: .*|runtime: out of memory.*|SIGSEGV.*|unexpected fault address.*)$`)

// crashSite: the innermost /repo function of the first goroutine trace in a crashed child's stderr.
func crashSite(stderr string) string {
	i := strings.Index(stderr, "\ngoroutine ")
	if i < 0 {
		return "?"
	}
	g := stderr[i+1:]
	if j := strings.Index(g, "\n\n"); j >= 0 {
		g = g[:j]
	}
	if f := repoFrames(g); len(f) > 0 {
		return f[0]
	}
	return "?"
}

// confirmedHangs counts, per stage, the hangs this worker process has already reproduced: after two, a further
// time-out in the same stage is recorded without spending another 60 s on reproducing it.
var confirmedHangs = map[string]int{}

func run(c *fw.Case) {
	b := buildBatch(fw.CaseRand(c.Spec.ID, c.Tier, c.Mode, c.Seed, c.Index), c.Index)
	for k, v := range b.counts {
		c.Count(k, v)
	}
	// one witness per signature and case (the framework keeps at most 20 violations per case); every occurrence is counted
	reported := map[string]bool{}
	violation := func(sig, what string, w witness) {
		c.Count("occurrences/"+sig, 1)
		if reported[sig] {
			return
		}
		reported[sig] = true
		c.Violation(sig, what, w)
	}
	mkWitness := func(it *item, res *result) witness {
		orig, _ := it.decode()
		w := witness{Tier: it.tier, Family: it.family, Mutations: it.muts, Request: toJSON(orig), WireSize: len(it.wire)}
		if it.tier == 1 {
			e := it.env
			w.Env = &e
		}
		if res != nil {
			w.Stack = res.Stack
			w.Reached = res.Reached
		}
		return w
	}

	next := 0
	for next < len(b.items) {
		cp, err := startChild(c, next, len(b.items), firstTimeout)
		if err != nil {
			c.Inconclusive("cannot start the child process: " + err.Error())
			return
		}
		c.Count("child_processes", 1)
		cur, terminal := -1, false
		backstop := time.NewTimer(firstTimeout + 20*time.Second)
	events:
		for {
			select {
			case ev, ok := <-cp.events:
				if !ok {
					break events
				}
				backstop.Reset(firstTimeout + 20*time.Second)
				it := &b.items[ev.I]
				switch ev.Ev {
				case "start":
					cur = ev.I
				case "done":
					judge(c, it, ev.Res, violation, mkWitness)
					next = ev.I + 1
					cur = -1
				case "memory":
					terminal = true
					next = ev.I + 1
					w := mkWitness(it, nil)
					w.Hung = ev.Dump
					if len(it.wire) < 1<<20 {
						violation("C17/memory/"+ev.Stage+" @"+ev.Fn, fmt.Sprintf("a %d-byte tier%d request made the process grow by %d MiB while in stage %s (in %s) and was still running", len(it.wire), it.tier, ev.Bytes>>20, ev.Stage, ev.Fn), w)
					}
				case "hang":
					terminal = true
					next = ev.I + 1
					hang(c, b, ev, violation, mkWitness, judge)
				}
			case <-backstop.C:
				// the child neither reports nor times out by itself: treat as a hang of the current request, without a dump
				terminal = true
				cp.finish(true)
				if cur >= 0 {
					next = cur + 1
					violation("C17/child-wedged", fmt.Sprintf("the child process stopped reporting while running a tier%d request", b.items[cur].tier), mkWitness(&b.items[cur], nil))
				} else {
					next = len(b.items)
					c.Inconclusive("child process stopped reporting between two requests")
				}
				break events
			}
		}
		backstop.Stop()
		werr := cp.finish(false)
		if !terminal && cur >= 0 {
			// the child died while running request cur: a panic outside the request goroutine, a fatal error, or a kill
			it := &b.items[cur]
			stderr := cp.stderr.String()
			reason := fmt.Sprint(werr)
			if m := crashLine.FindString(stderr); m != "" {
				reason = m
			}
			w := mkWitness(it, nil)
			w.Stderr = clip(stderr, 8000)
			violation("C17/crash/"+fw.NormalizeMsg(reason)+" @"+crashSite(stderr), fmt.Sprintf("the process died while running a tier%d request: %s", it.tier, reason), w)
			next = cur + 1
		} else if !terminal && werr != nil && next < len(b.items) {
			c.Inconclusive(fmt.Sprintf("child process failed between two requests: %v: %s", werr, clip(cp.stderr.String(), 500)))
			return
		}
	}
}

type violationFunc func(sig, what string, w witness)
type witnessFunc func(it *item, res *result) witness

// hang handles a first time-out: reproduce the request alone in a fresh child under the longer watchdog.
func hang(c *fw.Case, b *batch, ev event, violation violationFunc, mkWitness witnessFunc, judge func(*fw.Case, *item, *result, violationFunc, witnessFunc)) {
	it := &b.items[ev.I]
	sig := "C17/hang/" + ev.Stage + " @" + ev.Fn
	if confirmedHangs[ev.Stage] >= 2 {
		c.Count("occurrences/"+sig+" (not reproduced again: 2 already confirmed by this worker)", 1)
		return
	}
	cp, err := startChild(c, ev.I, ev.I+1, secondTimeout)
	if err != nil {
		c.Inconclusive("cannot start the child process: " + err.Error())
		return
	}
	c.Count("child_processes", 1)
	backstop := time.NewTimer(secondTimeout + 20*time.Second)
	defer backstop.Stop()
	for {
		select {
		case ev2, ok := <-cp.events:
			if !ok {
				cp.finish(false)
				c.Inconclusive(fmt.Sprintf("tier%d request exceeded %s in stage %s; the reproduction run died: %s", it.tier, firstTimeout, ev.Stage, clip(cp.stderr.String(), 300)))
				return
			}
			switch ev2.Ev {
			case "done":
				cp.finish(false)
				c.Inconclusive(fmt.Sprintf("tier%d request exceeded %s in stage %s (%s) once, finished in %d ms when re-run alone", it.tier, firstTimeout, ev.Stage, ev.Fn, ev2.Res.Ms))
				judge(c, it, ev2.Res, violation, mkWitness)
				return
			case "memory":
				cp.finish(false)
				w := mkWitness(it, nil)
				w.Hung = ev2.Dump
				violation("C17/memory/"+ev2.Stage+" @"+ev2.Fn, fmt.Sprintf("a %d-byte tier%d request made the process grow by %d MiB while in stage %s (in %s)", len(it.wire), it.tier, ev2.Bytes>>20, ev2.Stage, ev2.Fn), w)
				return
			case "hang":
				cp.finish(false)
				confirmedHangs[ev.Stage]++
				w := mkWitness(it, nil)
				w.Hung = ev2.Dump
				violation(sig, fmt.Sprintf("tier%d request still running in stage %s (in %s) after %s when run alone (first run: in %s after %s)", it.tier, ev2.Stage, ev2.Fn, secondTimeout, ev.Fn, firstTimeout), w)
				return
			}
		case <-backstop.C:
			cp.finish(true)
			c.Inconclusive("reproduction child stopped reporting")
			return
		}
	}
}

// judge classifies the result of one request.
func judge(c *fw.Case, it *item, o *result, violation violationFunc, mkWitness witnessFunc) {
	tier, family, muts := it.tier, it.family, it.muts
	c.Count(fmt.Sprintf("requests_tier%d", tier), 1)
	c.Count("requests_run", 1)
	c.Max("wire_bytes", int64(len(it.wire)))
	if m, err := it.decode(); err == nil {
		c.Max("modules_in_request", int64(moduleCount(m)))
	}
	if family != "corpus" {
		for _, m := range muts {
			c.Distinct("mutation_kinds", fmt.Sprintf("%d/%s", tier, m))
		}
	}
	c.Max("slowest_request_ms", o.Ms)
	c.Max("bytes_allocated_by_one_request", int64(o.Allocated))
	c.Max("memory_growth_in_one_stage", o.MemGrowth)
	if o.ClientWentAway {
		c.Count("requests_still_running_when_client_went_away", 1)
		why := fmt.Sprintf("tier%d no error", tier)
		if o.Err != "" {
			why = o.RejectedAt + ": " + fw.NormalizeMsg(o.Err)
		}
		c.Logf("request outlived the client (%d ms): %s", o.Ms, why)
		if strings.Contains(o.Err, "load full store") {
			c.Count("requests_cut_short_in_a_store_load_retry", 1)
		} else {
			// anything else that is still running after clientPatience (a loaded machine is enough): counted, and listed by reason
			c.Distinct("other_outcomes_after_client_went_away", why)
		}
	}
	for _, st := range o.Reached {
		c.Count("stage_completed/"+stageKey(tier, st), 1)
	}
	switch {
	case o.PanicStage != "":
		c.Count("panics", 1)
		sig := "C17/panic/" + o.PanicStage + "/" + fw.NormalizeMsg(o.PanicMsg) + " @" + o.PanicFn
		violation(sig, fmt.Sprintf("tier%d request made stage %s panic: %s (in %s)", tier, o.PanicStage, o.PanicMsg, o.PanicFn), mkWitness(it, o))
	case o.NilResult != "":
		violation("C17/no-result-and-no-error/"+o.NilResult, fmt.Sprintf("stage %s returned a nil result and a nil error", o.NilResult), mkWitness(it, o))
	case o.RejectedAt != "":
		c.Count("rejected_at/"+stageKey(tier, o.RejectedAt), 1)
		c.Logf("rejected tier%d %s: %s", tier, o.RejectedAt, fw.NormalizeMsg(o.Err))
		c.Distinct("rejection_reasons", o.RejectedAt+": "+fw.NormalizeMsg(o.Err))
		if family == "D-well-formed" {
			c.Count("well_formed_rejected_in_its_environment", 1)
			c.Distinct("well_formed_rejection_reasons", o.RejectedAt+": "+fw.NormalizeMsg(o.Err))
		}
	default:
		c.Count(fmt.Sprintf("accepted_through_all_stages_tier%d", tier), 1)
		if family == "D-well-formed" {
			c.Count("well_formed_accepted", 1)
		}
	}
	if it.expect == "reject" && o.PanicStage == "" && o.RejectedAt == "" {
		violation("C17/malformed-witness-accepted", fmt.Sprintf("hand-minimised malformed tier%d request %q went through every stage without an error", tier, muts), mkWitness(it, o))
	}
	if it.expect == "reject" && o.RejectedAt != "" {
		c.Count("malformed_witnesses_rejected_with_error", 1)
		if c.WantSample() {
			c.Sample(map[string]any{"malformed_witness": muts, "tier": tier, "rejected_at": o.RejectedAt, "error": o.Err})
		}
	}
	if o.Route != "" {
		c.Count(fmt.Sprintf("route_tier%d/%s", tier, o.Route), 1)
	}
	if o.Sanitized {
		c.Count("tier2_store_url_replaced_by_memory_store", 1)
	}
	if o.MemGrowth > memoryLimit && len(it.wire) < 1<<20 {
		violation("C17/memory/"+o.MemStage, fmt.Sprintf("a %d-byte tier%d request made memory grow by %d MiB in stage %s", len(it.wire), tier, o.MemGrowth>>20, o.MemStage), mkWitness(it, o))
	}
	passedValidation := len(o.Reached) > 0 && !(o.RejectedAt == o.Reached[0] && len(o.Reached) == 1)
	if passedValidation {
		c.Count(fmt.Sprintf("passed_validation_tier%d", tier), 1)
		c.Nontrivial(string(it.wire))
	}
	if family == "B-structural-mutation" && c.WantSample() && c.Index%7 == 0 {
		s := map[string]any{"tier": tier, "mutations": muts, "stages_completed": o.Reached}
		if o.RejectedAt != "" {
			s["rejected_at"], s["error"] = o.RejectedAt, o.Err
		}
		c.Sample(s)
	}
}

func stageKey(tier int, st string) string {
	if strings.HasPrefix(st, "t1/") || strings.HasPrefix(st, "t2/") {
		return st
	}
	return fmt.Sprintf("t%d/%s", tier, st)
}

func moduleCount(m proto.Message) int {
	switch v := m.(type) {
	case *pbsubstreamsrpc.Request:
		return len(v.GetModules().GetModules())
	case *pbssinternal.ProcessRangeRequest:
		return len(v.GetModules().GetModules())
	}
	return 0
}

func trimStack(s string) string {
	// keep from the panic frame on
	if i := strings.Index(s, "\npanic("); i >= 0 {
		s = s[i+1:]
	}
	if len(s) > 3000 {
		s = s[:3000] + "..."
	}
	return s
}
