// Package c17 checks property C17: malformed requests are rejected with an
// error, never with a crash, a hang or unbounded allocation, by request
// validation and by the graph construction, hashing, staging and planning
// that follow it in the tier1 and tier2 services.
package c17

import (
	"context"
	"encoding/json"
	"fmt"
	"math"
	"os"
	"path/filepath"
	"runtime"
	"runtime/debug"
	"strings"
	"time"

	"github.com/streamingfast/dmetering"
	"github.com/streamingfast/substreams/wasm/wazero"

	pbssinternal "github.com/streamingfast/substreams/pb/sf/substreams/intern/v2"
	pbsubstreamsrpc "github.com/streamingfast/substreams/pb/sf/substreams/rpc/v2"
	pbsubstreams "github.com/streamingfast/substreams/pb/sf/substreams/v1"
	"google.golang.org/protobuf/encoding/protojson"
	"google.golang.org/protobuf/proto"

	"verif/harness/fw"
)

const batch = 100

var (
	clientPatience = 500 * time.Millisecond
	firstTimeout   = 20 * time.Second
	secondTimeout  = 60 * time.Second
)

func init() {
	// debugging aid for replays: VH_C17_TIMEOUTS=3,5
	var a, b int
	if n, _ := fmt.Sscanf(os.Getenv("VH_C17_TIMEOUTS"), "%d,%d", &a, &b); n == 2 {
		firstTimeout, secondTimeout = time.Duration(a)*time.Second, time.Duration(b)*time.Second
	}
}

func init() {
	fw.Register(&fw.Spec{
		ID:    "C17",
		Level: "exploration",
		Rule: "case = batch of 100 requests, alternately sf.substreams.rpc.v2.Request and sf.substreams.internal.v2.ProcessRangeRequest, from four families: (A) structurally arbitrary messages (every field free, 0..120 modules), " +
			"(B) a well-formed request built by the harness with 1-3 structural mutations (absent kind / input oneof, dangling, self and cyclic references, duplicate / empty / invalid names, binary index out of range, extreme initial blocks, bogus store policies, bad cursors, start/stop relations, stage out of range, ...), " +
			"(C) a well-formed request marshalled, mutated at byte level and unmarshalled again, (D) the well-formed request itself. Every message is passed through proto.Marshal/Unmarshal first, so it is one a client can put on the wire. " +
			"Each message runs in a goroutine under a 20 s watchdog: tier1 = nil-Modules guard + service.ValidateTier1Request, then the REAL Tier1Service.blocks through service.TestNewService(...).TestBlocks (graph, request details, configs, pipeline, plan, Init, back-processing with a worker that fails every job, block source that delivers no block, OnStreamTerminated); " +
			"requests with a negative start block or a cursor needing resolution (TestNewService has no head-block / cursor callbacks) run exec.NewOutputModuleGraph -> pipeline.BuildRequestDetails (stub callbacks, PRNG-chosen answers) -> ValidateRequestStartBlock -> configs -> plan.BuildTier1RequestPlan instead. " +
			"tier2 = nil-Modules guard + service.ValidateTier2Request, then the REAL Tier2Service.processRange through service.TestNewServiceTier2(...).TestProcessRange (stores, graph, stage check, configs, GetExecutionPlan, pipeline New/Init/InitTier2Stores/BuildModuleExecutors with the default wazero runtime, no-block source, OnStreamTerminated). " +
			"Violation: panic in a stage (signature = stage + innermost /repo function + normalized message), hang reproduced alone under a 60 s watchdog, heap or process memory growing by > 512 MiB in one stage for a message < 1 MiB, a stage returning neither a result nor an error, or a hand-minimised malformed witness of case 0 that is not rejected with an error. " +
			"non-trivial = message that request validation accepted (so the service ran on it); distinct by hash of the wire bytes",
		Assumptions: []string{
			"only wire-representable messages are in scope (no nil element in a repeated field, no oneof wrapper holding a nil message): they cannot be produced by proto.Unmarshal",
			"the two lines of Blocks/ProcessRange before validation (nil-Modules guard, module-name list) are re-stated; everything after validation is the real blocks()/processRange(), except tier1 requests that need getHeadBlock/resolveCursor, for which the exported functions are chained by the driver",
			"tier2: StateStore / MergedBlocksStore are kept when they are memory:// URLs or use a scheme dstore does not know (error expected), and replaced by a fresh memory:// URL otherwise (local paths and cloud buckets are not opened); the metering plugin is the null emitter",
			"no tier2 behind tier1: every parallel job fails at once, so a tier1 request that needs back-processing ends with that error; no block is delivered, so no module code runs (binaries of well-formed requests are valid empty WebAssembly modules)",
			"segment size (tier1) and block type are server configuration: segment size in {1,10,100,1000}, never 0",
			"after 2 confirmed hangs in one worker process no further message is run through the stage that hung (a hung goroutine cannot be killed)",
		},
		Cases: func(tier, mode string) int {
			if tier == "thorough" {
				return 20000
			}
			return 200
		},
		CaseTimeout:   15 * time.Minute,
		MinNontrivial: 2000,
		Setup:         setup,
		Run:           run,
	})
}

func setup(tier, mode string) {
	debug.SetMemoryLimit(math.MaxInt64)
	os.Unsetenv("SUBSTREAMS_WASM_RUNTIME") // default runtime (wazero)
	dmetering.RegisterNull()
	scratch := os.Getenv("VH_SCRATCH")
	if scratch == "" {
		scratch, _ = os.MkdirTemp("", "vh-c17-")
	}
	if scratch != "" {
		dir := filepath.Join(scratch, fmt.Sprintf("c17-%d", os.Getpid()))
		if os.MkdirAll(dir, 0o755) == nil {
			os.Chdir(dir) // nothing should be written through a relative path; if something is, it lands here
			wazero.SetTempDir(dir)
		}
	}
}

type witness struct {
	Tier      int             `json:"tier"`
	Family    string          `json:"family"`
	Mutations []string        `json:"mutations,omitempty"`
	Env       *t1env          `json:"tier1_environment,omitempty"`
	Request   json.RawMessage `json:"request"`
	WireSize  int             `json:"wire_bytes"`
	Stack     string          `json:"stack,omitempty"`
	Hung      string          `json:"goroutines_in_repo_code_at_timeout,omitempty"`
	Reached   []string        `json:"stages_completed,omitempty"`
}

var (
	confirmedHangs int
	hungStages     = map[string]bool{}
)

func genEnv(c *fw.Case) t1env {
	r := c.R
	// what the chain answers: realistic block heights only (the final / head block is not request content; with a final
	// block of 2^64-1 tier1 would legitimately plan 10^16 segments of back-processing)
	nums := []uint64{0, 5, 50, 999, 5000, 123456}
	return t1env{
		FirstStreamable: []uint64{0, 0, 0, 0, 1, 2, 100}[r.Intn(7)],
		SegmentSize:     []uint64{1, 10, 100, 1000}[r.Intn(4)],
		FinalBlock:      nums[r.Intn(len(nums))],
		FinalErr:        r.Intn(6) == 0,
		HeadBlock:       nums[r.Intn(len(nums))],
		HeadErr:         r.Intn(6) == 0,
		Resolver:        r.Intn(5),
	}
}

func toJSON(m proto.Message) json.RawMessage {
	b, err := protojson.Marshal(m)
	if err != nil {
		b, _ = json.Marshal(fmt.Sprintf("protojson: %v; text: %v", err, m))
	}
	if len(b) > 150000 {
		b, _ = json.Marshal(string(b[:150000]) + "...")
	}
	return b
}

// execute runs job under the watchdog. It returns the outcome, or the stage name where it hung. The context
// handed to the job is cancelled once the job returned (or was given up), so that what the real services
// started (scheduler, back-filler) stops.
func execute(job func(ctx context.Context, o *outcome), timeout time.Duration) (*outcome, string) {
	o := &outcome{}
	o.cur.Store("start")
	ctx, cancel := context.WithCancel(context.Background())
	defer cancel()
	// the client goes away after clientPatience, as any client may: this ends the real code's retry back-offs on a
	// missing store file (1+1+2+3+5 s...) instead of sleeping through them; code that ignores the context is unaffected
	away := time.AfterFunc(clientPatience, func() { o.clientWentAway.Store(true); cancel() })
	defer away.Stop()
	done := make(chan struct{})
	go func() {
		defer close(done)
		job(ctx, o)
	}()
	t := time.NewTimer(timeout)
	defer t.Stop()
	select {
	case <-done:
		return o, ""
	case <-t.C:
		lastHangDump = goroutineDump()
		return nil, o.cur.Load().(string)
	}
}

var lastHangDump string

// goroutineDump returns the stacks of the goroutines that are inside /repo code (what a hung request is doing).
func goroutineDump() string {
	buf := make([]byte, 4<<20)
	buf = buf[:runtime.Stack(buf, true)]
	var keep []string
	for _, g := range strings.Split(string(buf), "\n\n") {
		if strings.Contains(g, "streamingfast/substreams/") && !strings.Contains(g, "c17.goroutineDump") {
			if len(g) > 2500 {
				g = g[:2500] + "..."
			}
			keep = append(keep, g)
		}
	}
	out := strings.Join(keep, "\n\n")
	if len(out) > 20000 {
		out = out[:20000] + "..."
	}
	return out
}

type item struct {
	tier   int
	family string
	muts   []string
	msg    proto.Message // nil when wire is given
	wire   []byte
	env    *t1env // nil: drawn from the PRNG
	expect string // corpus only: "reject" = must be rejected with an error, "" = anything but a violation
}

// corpus is a fixed list of hand-minimized messages, run at the start of case 0 of every run, so that each
// root cause found so far has a small deterministic witness.
func corpus() []item {
	bin := []*pbsubstreams.Binary{{Type: "wasm/rust-v1", Content: emptyWasm('x')}}
	mapMod := func(name string, inputs ...*pbsubstreams.Module_Input) *pbsubstreams.Module {
		return &pbsubstreams.Module{Name: name, Kind: kindMap(), Inputs: inputs, Output: &pbsubstreams.Module_Output{Type: "proto:my.Out"}}
	}
	plainEnv := &t1env{SegmentSize: 10, FinalBlock: 999, HeadBlock: 1000}
	t2 := func(ms *pbsubstreams.Modules, out string, stage uint32) *pbssinternal.ProcessRangeRequest {
		return &pbssinternal.ProcessRangeRequest{Modules: ms, OutputModule: out, Stage: stage, MeteringConfig: "null://", BlockType: testBlockType,
			StateStore: "memory://state", MergedBlocksStore: "memory://blocks", SegmentSize: 10, SegmentNumber: 1}
	}
	one := &pbsubstreams.Modules{Binaries: bin, Modules: []*pbsubstreams.Module{mapMod("m", srcInput(testBlockType))}}
	return []item{
		{tier: 1, family: "corpus", expect: "reject", muts: []string{"single module without kind"}, env: plainEnv,
			msg: &pbsubstreamsrpc.Request{OutputModule: "m", StopBlockNum: 10, Modules: &pbsubstreams.Modules{Binaries: bin, Modules: []*pbsubstreams.Module{{Name: "m", Inputs: []*pbsubstreams.Module_Input{srcInput(testBlockType)}}}}}},
		{tier: 2, family: "corpus", expect: "reject", muts: []string{"single module without kind"},
			msg: t2(&pbsubstreams.Modules{Binaries: bin, Modules: []*pbsubstreams.Module{{Name: "m", Inputs: []*pbsubstreams.Module_Input{srcInput(testBlockType)}}}}, "m", 0)},
		{tier: 1, family: "corpus", expect: "reject", muts: []string{"valid map module, request carries no binary"}, env: plainEnv,
			msg: &pbsubstreamsrpc.Request{OutputModule: "m", StopBlockNum: 10, Modules: &pbsubstreams.Modules{Modules: []*pbsubstreams.Module{mapMod("m", srcInput(testBlockType))}}}},
		{tier: 1, family: "corpus", expect: "reject", muts: []string{"valid map module, binary_index 1 with one binary"}, env: plainEnv,
			msg: &pbsubstreamsrpc.Request{OutputModule: "m", StopBlockNum: 10, Modules: &pbsubstreams.Modules{Binaries: bin, Modules: []*pbsubstreams.Module{
				{Name: "m", Kind: kindMap(), BinaryIndex: 1, Inputs: []*pbsubstreams.Module_Input{srcInput(testBlockType)}, Output: &pbsubstreams.Module_Output{Type: "proto:my.Out"}}}}}},
		{tier: 1, family: "corpus", expect: "reject", muts: []string{"map module whose only input has no oneof member set"}, env: plainEnv,
			msg: &pbsubstreamsrpc.Request{OutputModule: "m", StopBlockNum: 10, Modules: &pbsubstreams.Modules{Binaries: bin, Modules: []*pbsubstreams.Module{mapMod("m", &pbsubstreams.Module_Input{})}}}},
		{tier: 2, family: "corpus", expect: "reject", muts: []string{"well-formed single-map request, stage 1 (graph has 1 stage)"}, msg: t2(one, "m", 1)},
		{tier: 2, family: "corpus", muts: []string{"well-formed single-map request, stage 0"}, msg: t2(proto.Clone(one).(*pbsubstreams.Modules), "m", 0)},
		{tier: 1, family: "corpus", muts: []string{"well-formed single-map request"}, env: plainEnv,
			msg: &pbsubstreamsrpc.Request{OutputModule: "m", StopBlockNum: 10, Modules: proto.Clone(one).(*pbsubstreams.Modules)}},
	}
}

func generate(c *fw.Case, i int) (it item, ok bool) {
	r := c.R
	it.tier = 1 + i%2
	tier := it.tier
	switch x := r.Intn(100); {
	case x < 28:
		it.family = "A-arbitrary"
		if tier == 1 {
			it.msg = arbTier1(r)
		} else {
			it.msg = arbTier2(r)
		}
	case x < 75:
		it.family = "B-structural-mutation"
		n := 1
		if r.Intn(3) == 0 {
			n = 2 + r.Intn(2)
		}
		if tier == 1 {
			req := validTier1(r)
			for k := 0; k < n; k++ {
				it.muts = append(it.muts, mutateTier1(r, req))
			}
			it.msg = req
		} else {
			req := validTier2(r)
			for k := 0; k < n; k++ {
				it.muts = append(it.muts, mutateTier2(r, req))
			}
			it.msg = req
		}
	case x < 93:
		it.family = "C-wire-mutation"
		var base proto.Message
		if tier == 1 {
			base = validTier1(r)
		} else {
			base = validTier2(r)
		}
		b, err := proto.Marshal(base)
		if err != nil {
			c.Count("marshal_failed", 1)
			return it, false
		}
		it.wire = mutateBytes(r, b)
	default:
		it.family = "D-well-formed"
		if tier == 1 {
			it.msg = validTier1(r)
		} else {
			it.msg = validTier2(r)
		}
	}
	return it, true
}

func run(c *fw.Case) {
	// one witness per signature and case (the framework keeps at most 20 violations per case); every occurrence is counted
	reported := map[string]bool{}
	violation := func(sig, what string, w witness) {
		c.Count("occurrences/"+sig, 1)
		if reported[sig] {
			return
		}
		reported[sig] = true
		c.Violation(sig, what, w)
	}
	var items []item
	if c.Index == 0 {
		items = corpus()
	}
	nCorpus := len(items)
	for i := 0; i < batch; i++ {
		it, ok := generate(c, i)
		env := genEnv(c) // always drawn, so that the PRNG stream does not depend on the message
		it.env = &env
		if ok {
			items = append(items, it)
		}
	}
	for i, it := range items {
		tier, family, muts, wire := it.tier, it.family, it.muts, it.wire
		var env t1env
		if it.tier == 1 && it.env != nil {
			env = *it.env
		}
		c.Count("generated/"+family, 1)

		// through the wire: what the server decodes is what a client can encode
		if wire == nil {
			b, err := proto.Marshal(it.msg)
			if err != nil {
				c.Count("not_encodable", 1)
				continue
			}
			wire = b
		}
		decode := func() (proto.Message, error) {
			if tier == 1 {
				m := &pbsubstreamsrpc.Request{}
				return m, proto.Unmarshal(wire, m)
			}
			m := &pbssinternal.ProcessRangeRequest{}
			return m, proto.Unmarshal(wire, m)
		}
		decoded, err := decode()
		if err != nil {
			c.Count("wire_mutation_undecodable", 1)
			continue
		}
		c.Count(fmt.Sprintf("requests_tier%d", tier), 1)
		c.Max("wire_bytes", int64(len(wire)))
		c.Max("modules_in_request", int64(moduleCount(decoded)))
		for _, m := range muts {
			if family != "corpus" {
				c.Distinct("mutation_kinds", fmt.Sprintf("%d/%s", tier, m))
			}
		}

		mkWitness := func(o *outcome) witness {
			orig, _ := decode()
			w := witness{Tier: tier, Family: family, Mutations: muts, Request: toJSON(orig), WireSize: len(wire)}
			if tier == 1 {
				e := env
				w.Env = &e
			}
			if o != nil {
				w.Stack = trimStack(o.stack)
				w.Reached = o.reached
			}
			return w
		}
		job := func(m proto.Message) func(ctx context.Context, o *outcome) {
			return func(ctx context.Context, o *outcome) {
				if tier == 1 {
					runTier1(ctx, o, m.(*pbsubstreamsrpc.Request), env)
				} else {
					runTier2(ctx, o, m.(*pbssinternal.ProcessRangeRequest))
				}
			}
		}

		t0 := time.Now()
		o, hungAt := execute(job(decoded), firstTimeout)
		c.Max("slowest_request_ms", time.Since(t0).Milliseconds())
		if o != nil && o.clientWentAway.Load() {
			c.Count("requests_still_running_when_client_went_away", 1)
			why := fmt.Sprintf("tier%d no error", tier)
			if o.err != nil {
				why = o.rejectedAt + ": " + fw.NormalizeMsg(o.err.Error())
			}
			c.Logf("request outlived the client (%s): %s", time.Since(t0), why)
			c.Distinct("outcomes_after_client_went_away", why)
			if o.panicStage == "" && !(o.err != nil && strings.Contains(o.err.Error(), "load full store") && strings.Contains(o.err.Error(), "context canceled")) {
				// only the retry back-off on a missing store file is expected to take that long
				c.Inconclusive(fmt.Sprintf("tier%d request ran for more than %s for an unexpected reason: %s", tier, clientPatience, why))
			}
		}
		if o == nil {
			if hungStages[hungAt] && confirmedHangs >= 2 {
				c.Count("skipped_after_confirmed_hangs", 1)
				continue
			}
			// reproduce alone
			again, _ := decode()
			o2, hungAt2 := execute(job(again), secondTimeout)
			if o2 == nil {
				confirmedHangs++
				hungStages[hungAt2] = true
				w := mkWitness(nil)
				w.Hung = lastHangDump
				violation("C17/hang/"+hungAt2, fmt.Sprintf("tier%d request still running in stage %s after %s (first run: stage %s after %s)", tier, hungAt2, secondTimeout, hungAt, firstTimeout), w)
				continue
			}
			c.Inconclusive(fmt.Sprintf("request exceeded %s in stage %s once, finished when re-run alone", firstTimeout, hungAt))
			o = o2
		}
		c.Count("requests_run", 1)
		c.Max("bytes_allocated_by_one_request", int64(o.allocated))
		c.Max("heap_growth_in_one_stage", o.memGrowth)

		for _, st := range o.reached {
			c.Count("stage_completed/"+stageKey(tier, st), 1)
		}
		switch {
		case o.panicStage != "":
			c.Count("panics", 1)
			sig := "C17/panic/" + o.panicStage + "/" + fw.NormalizeMsg(o.panicMsg) + " @" + o.panicFn
			violation(sig, fmt.Sprintf("tier%d request made stage %s panic: %s (in %s)", tier, o.panicStage, o.panicMsg, o.panicFn), mkWitness(o))
		case o.nilResult != "":
			violation("C17/no-result-and-no-error/"+o.nilResult, fmt.Sprintf("stage %s returned a nil result and a nil error", o.nilResult), mkWitness(o))
		case o.rejectedAt != "":
			c.Count("rejected_at/"+stageKey(tier, o.rejectedAt), 1)
			c.Logf("rejected tier%d %s: %s", tier, o.rejectedAt, fw.NormalizeMsg(o.err.Error()))
			c.Distinct("rejection_reasons", o.rejectedAt+": "+fw.NormalizeMsg(o.err.Error()))
			if family == "D-well-formed" {
				c.Count("well_formed_rejected_in_its_environment", 1)
				c.Distinct("well_formed_rejection_reasons", o.rejectedAt+": "+fw.NormalizeMsg(o.err.Error()))
			}
		default:
			c.Count(fmt.Sprintf("accepted_through_all_stages_tier%d", tier), 1)
			if family == "D-well-formed" {
				c.Count("well_formed_accepted", 1)
			}
		}
		if it.expect == "reject" && o.panicStage == "" && o.rejectedAt == "" {
			violation("C17/malformed-witness-accepted", fmt.Sprintf("hand-minimised malformed tier%d request %q went through every stage without an error", tier, muts), mkWitness(o))
		}
		if it.expect == "reject" && o.rejectedAt != "" {
			c.Count("malformed_witnesses_rejected_with_error", 1)
			if c.WantSample() {
				c.Sample(map[string]any{"malformed_witness": muts, "tier": tier, "rejected_at": o.rejectedAt, "error": o.err.Error()})
			}
		}
		if o.route != "" {
			c.Count(fmt.Sprintf("route_tier%d/%s", tier, o.route), 1)
		}
		if o.sanitized {
			c.Count("tier2_store_url_replaced_by_memory_store", 1)
		}
		if o.memGrowth > 512<<20 && len(wire) < 1<<20 {
			violation("C17/memory/"+o.memStage, fmt.Sprintf("a %d-byte tier%d request made memory grow by %d MiB in stage %s", len(wire), tier, o.memGrowth>>20, o.memStage), mkWitness(o))
		}
		passedValidation := len(o.reached) > 0 && !(o.rejectedAt == o.reached[0] && len(o.reached) == 1)
		if passedValidation {
			c.Count(fmt.Sprintf("passed_validation_tier%d", tier), 1)
			c.Nontrivial(string(wire))
		}
		if family == "B-structural-mutation" && i < nCorpus+6 && c.WantSample() {
			s := map[string]any{"tier": tier, "mutations": muts, "stages_completed": o.reached}
			if o.rejectedAt != "" {
				s["rejected_at"], s["error"] = o.rejectedAt, o.err.Error()
			}
			if o.panicStage != "" {
				s["panic_in"], s["panic"] = o.panicStage, o.panicMsg
			}
			c.Sample(s)
		}
	}
}

func stageKey(tier int, st string) string {
	if strings.HasPrefix(st, "t1/") || strings.HasPrefix(st, "t2/") {
		return st
	}
	return fmt.Sprintf("t%d/%s", tier, st)
}

func moduleCount(m proto.Message) int {
	switch v := m.(type) {
	case *pbsubstreamsrpc.Request:
		return len(v.GetModules().GetModules())
	case *pbssinternal.ProcessRangeRequest:
		return len(v.GetModules().GetModules())
	}
	return 0
}

func trimStack(s string) string {
	// keep from the panic frame on
	if i := strings.Index(s, "\npanic("); i >= 0 {
		s = s[i+1:]
	}
	if len(s) > 3000 {
		s = s[:3000] + "..."
	}
	return s
}
