package c17

import (
	"fmt"
	"math"
	"math/rand"
	"strings"

	"github.com/streamingfast/bstream"
	"github.com/streamingfast/opaque"
	pbssinternal "github.com/streamingfast/substreams/pb/sf/substreams/intern/v2"
	pbsubstreamsrpc "github.com/streamingfast/substreams/pb/sf/substreams/rpc/v2"
	pbsubstreams "github.com/streamingfast/substreams/pb/sf/substreams/v1"
	"google.golang.org/protobuf/proto"
)

const testBlockType = "sf.substreams.v1.test.Block"

// ---------------------------------------------------------------- a minimal VALID graph

var valueTypes = []string{"int64", "string", "bytes", "bigint", "float64", "bigdecimal", "proto:my.Type"}
var policies = []pbsubstreams.Module_KindStore_UpdatePolicy{
	pbsubstreams.Module_KindStore_UPDATE_POLICY_SET,
	pbsubstreams.Module_KindStore_UPDATE_POLICY_SET_IF_NOT_EXISTS,
	pbsubstreams.Module_KindStore_UPDATE_POLICY_ADD,
	pbsubstreams.Module_KindStore_UPDATE_POLICY_MIN,
	pbsubstreams.Module_KindStore_UPDATE_POLICY_MAX,
	pbsubstreams.Module_KindStore_UPDATE_POLICY_APPEND,
}

func srcInput(t string) *pbsubstreams.Module_Input {
	return &pbsubstreams.Module_Input{Input: &pbsubstreams.Module_Input_Source_{Source: &pbsubstreams.Module_Input_Source{Type: t}}}
}
func mapInput(n string) *pbsubstreams.Module_Input {
	return &pbsubstreams.Module_Input{Input: &pbsubstreams.Module_Input_Map_{Map: &pbsubstreams.Module_Input_Map{ModuleName: n}}}
}
func storeInput(n string, mode pbsubstreams.Module_Input_Store_Mode) *pbsubstreams.Module_Input {
	return &pbsubstreams.Module_Input{Input: &pbsubstreams.Module_Input_Store_{Store: &pbsubstreams.Module_Input_Store{ModuleName: n, Mode: mode}}}
}
func paramsInput(v string) *pbsubstreams.Module_Input {
	return &pbsubstreams.Module_Input{Input: &pbsubstreams.Module_Input_Params_{Params: &pbsubstreams.Module_Input_Params{Value: v}}}
}

func kindMap() *pbsubstreams.Module_KindMap_ {
	return &pbsubstreams.Module_KindMap_{KindMap: &pbsubstreams.Module_KindMap{OutputType: "proto:my.Out"}}
}
func kindStore(r *rand.Rand) *pbsubstreams.Module_KindStore_ {
	return &pbsubstreams.Module_KindStore_{KindStore: &pbsubstreams.Module_KindStore{UpdatePolicy: policies[r.Intn(len(policies))], ValueType: valueTypes[r.Intn(len(valueTypes))]}}
}
func kindIndex() *pbsubstreams.Module_KindBlockIndex_ {
	return &pbsubstreams.Module_KindBlockIndex_{KindBlockIndex: &pbsubstreams.Module_KindBlockIndex{OutputType: "proto:sf.substreams.index.v1.Keys"}}
}

// emptyWasm is a valid WebAssembly module that exports what the rust-v1 runtime requires to LOAD a binary (memory,
// alloc, dealloc) and nothing else, plus a custom section named tag: the real services get past the compilation
// of the request's binaries; no block is ever delivered, so no entrypoint is ever looked up or run.
func emptyWasm(tag byte) []byte {
	return []byte{
		0, 'a', 's', 'm', 1, 0, 0, 0,
		1, 0x0b, 2, 0x60, 1, 0x7f, 1, 0x7f, 0x60, 2, 0x7f, 0x7f, 0, // types: (i32)->i32, (i32,i32)->()
		3, 3, 2, 0, 1, // functions
		5, 3, 1, 0, 1, // one memory, 1 page
		7, 0x1c, 3, 6, 'm', 'e', 'm', 'o', 'r', 'y', 2, 0, 5, 'a', 'l', 'l', 'o', 'c', 0, 0, 7, 'd', 'e', 'a', 'l', 'l', 'o', 'c', 0, 1, // exports
		0x0a, 9, 2, 4, 0, 0x41, 0, 0x0b, 2, 0, 0x0b, // bodies: alloc returns 0, dealloc does nothing
		0, 3, 1, tag, 0, // custom section
	}
}

// validModules builds a small well-formed module graph: modules in topological
// order, non-decreasing initial blocks along it, references only to earlier
// modules of the right kind.
func validModules(r *rand.Rand, n int) *pbsubstreams.Modules {
	mods := &pbsubstreams.Modules{}
	nb := 1 + r.Intn(2)
	for i := 0; i < nb; i++ {
		mods.Binaries = append(mods.Binaries, &pbsubstreams.Binary{Type: "wasm/rust-v1", Content: emptyWasm(byte('a' + i))})
	}
	initial := uint64(0)
	initChoices := []uint64{0, 0, 0, 1, 5, 10, 100, 1000}
	if r.Intn(3) == 0 {
		initial = initChoices[r.Intn(len(initChoices))]
	}
	var maps, stores, indexes []string
	// deep shape: every module reads the most recent producers (a chain of stacked diamonds), so that the dependency
	// depth is close to the module count instead of logarithmic in it
	deep := n >= 10 && r.Intn(3) == 0
	recent := func(xs []string) string {
		if deep {
			k := len(xs) - 1 - r.Intn(2)
			if k < 0 {
				k = 0
			}
			return xs[k]
		}
		return xs[r.Intn(len(xs))]
	}
	for i := 0; i < n; i++ {
		name := fmt.Sprintf("m%d", i)
		if r.Intn(8) == 0 {
			name = fmt.Sprintf("pkg:m%d", i)
		}
		m := &pbsubstreams.Module{Name: name, BinaryIndex: uint32(r.Intn(nb)), BinaryEntrypoint: name, InitialBlock: initial}
		if r.Intn(4) == 0 {
			initial += uint64(r.Intn(3)) * 10
			m.InitialBlock = initial
		}
		kind := r.Intn(10)
		switch {
		case i == n-1 || kind < 5:
			m.Kind = kindMap()
			m.Output = &pbsubstreams.Module_Output{Type: "proto:my.Out"}
		case kind < 8:
			m.Kind = kindStore(r)
		default:
			m.Kind = kindIndex()
			m.Output = &pbsubstreams.Module_Output{Type: "proto:sf.substreams.index.v1.Keys"}
		}
		isIndex := m.GetKindBlockIndex() != nil
		// inputs
		if !isIndex && r.Intn(5) == 0 {
			m.Inputs = append(m.Inputs, paramsInput("some params"))
		}
		if i == 0 || r.Intn(3) == 0 || (len(maps) == 0 && len(stores) == 0) {
			if r.Intn(5) == 0 {
				m.Inputs = append(m.Inputs, srcInput("sf.substreams.v1.Clock"))
			} else {
				m.Inputs = append(m.Inputs, srcInput(testBlockType))
			}
		}
		nin := r.Intn(3)
		if deep && i > 0 {
			nin = 2
		}
		if len(m.Inputs) == 0 || (len(m.Inputs) == 1 && m.Inputs[0].GetParams() != nil) {
			nin = 1 + r.Intn(2) // at least one input that carries data
		}
		for k := 0; k < nin; k++ {
			switch {
			case len(maps) > 0 && (isIndex || len(stores) == 0 || r.Intn(2) == 0):
				m.Inputs = append(m.Inputs, mapInput(recent(maps)))
			case len(stores) > 0 && !isIndex:
				mode := pbsubstreams.Module_Input_Store_GET
				if r.Intn(2) == 0 {
					mode = pbsubstreams.Module_Input_Store_DELTAS
				}
				m.Inputs = append(m.Inputs, storeInput(recent(stores), mode))
			default:
				m.Inputs = append(m.Inputs, srcInput(testBlockType))
			}
		}
		// block filter on a previously defined index module
		if !isIndex && len(indexes) > 0 && r.Intn(3) == 0 {
			bf := &pbsubstreams.Module_BlockFilter{Module: indexes[r.Intn(len(indexes))]}
			if len(m.Inputs) > 0 && m.Inputs[0].GetParams() != nil && r.Intn(2) == 0 {
				bf.Query = &pbsubstreams.Module_BlockFilter_QueryFromParams{QueryFromParams: &pbsubstreams.Module_QueryFromParams{}}
			} else {
				bf.Query = &pbsubstreams.Module_BlockFilter_QueryString{QueryString: "a || b c"}
			}
			m.BlockFilter = bf
		}
		mods.Modules = append(mods.Modules, m)
		switch {
		case m.GetKindMap() != nil:
			maps = append(maps, name)
		case m.GetKindStore() != nil:
			stores = append(stores, name)
		default:
			indexes = append(indexes, name)
		}
	}
	return mods
}

func modCount(r *rand.Rand) int {
	switch x := r.Intn(20); {
	case x < 12:
		return 1 + r.Intn(5)
	case x < 18:
		return 3 + r.Intn(10)
	default:
		return 10 + r.Intn(60)
	}
}

func validTier1(r *rand.Rand) *pbsubstreamsrpc.Request {
	mods := validModules(r, modCount(r))
	// output: a map module
	var mapsIdx []int
	for i, m := range mods.Modules {
		if m.GetKindMap() != nil {
			mapsIdx = append(mapsIdx, i)
		}
	}
	out := mods.Modules[mapsIdx[len(mapsIdx)-1]]
	if r.Intn(3) == 0 {
		out = mods.Modules[mapsIdx[r.Intn(len(mapsIdx))]]
	}
	req := &pbsubstreamsrpc.Request{Modules: mods, OutputModule: out.Name, ProductionMode: r.Intn(2) == 0}
	req.StartBlockNum = int64(out.InitialBlock) + int64(r.Intn(3))*int64(r.Intn(500))
	switch r.Intn(4) {
	case 0:
		req.StopBlockNum = 0
	default:
		req.StopBlockNum = uint64(req.StartBlockNum) + 1 + uint64(r.Intn(3000))
	}
	req.FinalBlocksOnly = r.Intn(4) == 0
	req.NoopMode = r.Intn(10) == 0
	if !req.ProductionMode && r.Intn(4) == 0 {
		for _, m := range mods.Modules {
			if m.GetKindStore() != nil && r.Intn(2) == 0 {
				req.DebugInitialStoreSnapshotForModules = append(req.DebugInitialStoreSnapshotForModules, m.Name)
			}
		}
	}
	if r.Intn(5) == 0 {
		req.StartCursor = genCursor(r, true)
	}
	return req
}

func validTier2(r *rand.Rand) *pbssinternal.ProcessRangeRequest {
	mods := validModules(r, modCount(r))
	out := mods.Modules[len(mods.Modules)-1]
	if r.Intn(2) == 0 {
		out = mods.Modules[r.Intn(len(mods.Modules))]
	}
	req := &pbssinternal.ProcessRangeRequest{
		Modules:              mods,
		OutputModule:         out.Name,
		MeteringConfig:       "null://",
		BlockType:            testBlockType,
		StateStore:           "memory://state",
		MergedBlocksStore:    "memory://blocks",
		StateStoreDefaultTag: "v1",
		SegmentSize:          []uint64{1, 10, 100, 1000}[r.Intn(4)],
		SegmentNumber:        uint64(r.Intn(30)),
	}
	if r.Intn(4) == 0 {
		req.FirstStreamableBlock = uint64(r.Intn(3))
	}
	if r.Intn(3) == 0 {
		req.Stage = uint32(r.Intn(3)) // may or may not exist in the graph: the service must cope either way
		if req.Stage > 0 && r.Intn(10) != 0 {
			req.SegmentNumber = 0 // later segments of a higher stage need the stores of the lower stages on disk (retry back-off when absent)
		}
	}
	if r.Intn(6) == 0 {
		req.WasmExtensionConfigs = map[string]string{"ext": "cfg"}
	}
	return req
}

// ---------------------------------------------------------------- cursors

func genCursor(r *rand.Rand, valid bool) string {
	num := uint64(r.Intn(5000))
	lib := num
	if r.Intn(2) == 0 && num > 0 {
		lib = num - uint64(r.Intn(int(min64(num, 300))+1))
	}
	head := num + uint64(r.Intn(3))
	steps := []bstream.StepType{bstream.StepNew, bstream.StepUndo, bstream.StepIrreversible, bstream.StepNewIrreversible}
	cur := &bstream.Cursor{
		Step:      steps[r.Intn(len(steps))],
		Block:     bstream.NewBlockRef(fmt.Sprintf("%da", num), num),
		LIB:       bstream.NewBlockRef(fmt.Sprintf("%da", lib), lib),
		HeadBlock: bstream.NewBlockRef(fmt.Sprintf("%da", head), head),
	}
	good := cur.ToOpaque()
	if valid {
		return good
	}
	switch r.Intn(12) {
	case 0:
		return good[:r.Intn(len(good))] // truncated valid cursor
	case 1:
		return good + good
	case 2:
		return randomString(r, 1+r.Intn(40))
	case 3: // LIB above block
		cur.LIB = bstream.NewBlockRef("ff", num+10)
		return cur.ToOpaque()
	case 4:
		return opaque.EncodeString("c1:1:5:a")
	case 5:
		return opaque.EncodeString("c1:x:5:a:4:b")
	case 6:
		return opaque.EncodeString("c3:1:5:a:5:a:-1:z")
	case 7:
		return opaque.EncodeString(fmt.Sprintf("c2:%d:%d:aa:%d:bb", []int{1, 2, 16, 32, 99, 0}[r.Intn(6)], uint64(math.MaxUint64), uint64(math.MaxUint64)))
	case 8:
		return opaque.EncodeString("c9:1:2:3:4:5")
	case 9:
		return opaque.EncodeString(strings.Repeat(":", r.Intn(12)))
	case 10:
		return opaque.EncodeString(fmt.Sprintf("c1:1:%d::%d:", uint64(math.MaxUint64), uint64(math.MaxUint64)))
	default:
		b := []byte(good)
		b[r.Intn(len(b))] ^= byte(1 << uint(r.Intn(7)))
		return string(b)
	}
}

func min64(a, b uint64) uint64 {
	if a < b {
		return a
	}
	return b
}

func randomString(r *rand.Rand, n int) string {
	const al = "abcXYZ019_-:=/+. \t%"
	var b strings.Builder
	for i := 0; i < n; i++ {
		b.WriteByte(al[r.Intn(len(al))])
	}
	return b.String()
}

// ---------------------------------------------------------------- structural mutations of a valid request

var badNames = []string{"", "1abc", "a b", "a::b", ":", "é", "a-b", strings.Repeat("x", 64), strings.Repeat("x", 65), "sf.substreams.v1.Clock", testBlockType, "some params", "map", "_a", "A9_"}
var bigNums = []uint64{0, 1, 2, 99, 1 << 31, 1 << 32, math.MaxInt64, math.MaxInt64 + 1, math.MaxUint64 - 1, math.MaxUint64}

func pickMod(r *rand.Rand, ms *pbsubstreams.Modules) *pbsubstreams.Module {
	if ms == nil || len(ms.Modules) == 0 {
		return nil
	}
	// bias to the tail: the output module and its close ancestors
	if r.Intn(2) == 0 {
		return ms.Modules[len(ms.Modules)-1-r.Intn(min(len(ms.Modules), 3))]
	}
	return ms.Modules[r.Intn(len(ms.Modules))]
}

func anyName(r *rand.Rand, ms *pbsubstreams.Modules) string {
	if ms != nil && len(ms.Modules) > 0 && r.Intn(4) != 0 {
		return ms.Modules[r.Intn(len(ms.Modules))].Name
	}
	if r.Intn(2) == 0 {
		return badNames[r.Intn(len(badNames))]
	}
	return "ghost"
}

// mutateModules applies one structural mutation; it returns its name.
func mutateModules(r *rand.Rand, ms *pbsubstreams.Modules, outputName string) string {
	m := pickMod(r, ms)
	if m == nil {
		ms.Modules = append(ms.Modules, &pbsubstreams.Module{Name: "lonely"})
		return "add-bare-module"
	}
	switch r.Intn(40) {
	case 36, 37, 38, 39:
		// the manifest loader's UNSET initial block (2^64-1) on every store, sometimes on every module
		all := r.Intn(2) == 0
		for _, mm := range ms.Modules {
			if all || mm.GetKindStore() != nil {
				mm.InitialBlock = ^uint64(0)
			}
		}
		return "stores-with-unset-initial-block-value"
	case 34:
		// a block_filter message that is present but names no module (with or without a query)
		m.BlockFilter = &pbsubstreams.Module_BlockFilter{}
		if r.Intn(2) == 0 {
			m.BlockFilter.Query = &pbsubstreams.Module_BlockFilter_QueryString{QueryString: "a"}
		}
		return "block-filter-without-module-name"
	case 35:
		// the same on the output module or one of its ancestors, where it cannot be ignored
		for _, mm := range ms.Modules {
			if mm.Name == outputName {
				mm.BlockFilter = &pbsubstreams.Module_BlockFilter{Query: &pbsubstreams.Module_BlockFilter_QueryString{QueryString: "a || b"}}
			}
		}
		return "output-block-filter-without-module-name"
	case 0:
		m.Kind = nil
		return "kind-absent"
	case 1:
		if len(m.Inputs) > 0 {
			m.Inputs[r.Intn(len(m.Inputs))].Input = nil
		} else {
			m.Inputs = append(m.Inputs, &pbsubstreams.Module_Input{})
		}
		return "input-oneof-absent"
	case 2:
		m.BinaryIndex = uint32(len(ms.Binaries)) + uint32(r.Intn(2))*uint32(bigNums[r.Intn(len(bigNums))])
		return "binary-index-out-of-range"
	case 3:
		ms.Binaries = nil
		return "no-binaries"
	case 4:
		m.Inputs = append(m.Inputs, mapInput("ghost"))
		return "dangling-map-input"
	case 5:
		m.Inputs = append(m.Inputs, storeInput("ghost", pbsubstreams.Module_Input_Store_GET))
		return "dangling-store-input"
	case 6:
		m.BlockFilter = &pbsubstreams.Module_BlockFilter{Module: anyName(r, ms), Query: &pbsubstreams.Module_BlockFilter_QueryString{QueryString: "x"}}
		return "block-filter-arbitrary-target"
	case 7:
		if m.GetKindStore() != nil {
			m.Inputs = append(m.Inputs, storeInput(m.Name, pbsubstreams.Module_Input_Store_GET))
		} else {
			m.Inputs = append(m.Inputs, mapInput(m.Name))
		}
		return "self-reference"
	case 8:
		// cycle: an early module takes a later one as input
		a, b := ms.Modules[0], ms.Modules[len(ms.Modules)-1]
		if b.GetKindStore() != nil {
			a.Inputs = append(a.Inputs, storeInput(b.Name, pbsubstreams.Module_Input_Store_DELTAS))
		} else {
			a.Inputs = append(a.Inputs, mapInput(b.Name))
		}
		return "cycle"
	case 9:
		ms.Modules = append(ms.Modules, proto.Clone(m).(*pbsubstreams.Module))
		return "duplicate-name"
	case 10:
		old := m.Name
		m.Name = badNames[r.Intn(len(badNames))]
		if r.Intn(2) == 0 {
			renameRefs(ms, old, m.Name)
		}
		return "bad-name"
	case 11:
		m.InitialBlock = bigNums[r.Intn(len(bigNums))]
		return "initial-block-extreme"
	case 12:
		if ks := m.GetKindStore(); ks != nil {
			ks.UpdatePolicy = pbsubstreams.Module_KindStore_UpdatePolicy([]int32{-1, 0, 7, 99, math.MaxInt32}[r.Intn(5)])
			ks.ValueType = []string{"", "garbage", "proto:", "int64 ", strings.Repeat("v", 300)}[r.Intn(5)]
		} else {
			m.Kind = &pbsubstreams.Module_KindStore_{KindStore: &pbsubstreams.Module_KindStore{}}
		}
		return "store-bogus-policy-or-type"
	case 13:
		for _, in := range m.Inputs {
			if s := in.GetStore(); s != nil {
				s.Mode = pbsubstreams.Module_Input_Store_Mode([]int32{0, 3, -1, 77}[r.Intn(4)])
			}
		}
		return "store-input-mode-bogus"
	case 14:
		// filter on a module that is not a block_index
		for _, o := range ms.Modules {
			if o.GetKindBlockIndex() == nil && o != m {
				m.BlockFilter = &pbsubstreams.Module_BlockFilter{Module: o.Name, Query: &pbsubstreams.Module_BlockFilter_QueryString{QueryString: "k"}}
				break
			}
		}
		return "filter-on-non-index"
	case 15:
		if m.GetKindBlockIndex() == nil {
			m.Kind = kindIndex()
		}
		m.Inputs = append([]*pbsubstreams.Module_Input{paramsInput("p")}, m.Inputs...)
		return "index-module-with-params"
	case 16:
		if m.BlockFilter == nil {
			m.BlockFilter = &pbsubstreams.Module_BlockFilter{Module: anyIndexName(ms)}
		}
		switch r.Intn(3) {
		case 0:
			m.BlockFilter.Query = nil
		case 1:
			m.BlockFilter.Query = &pbsubstreams.Module_BlockFilter_QueryFromParams{QueryFromParams: &pbsubstreams.Module_QueryFromParams{}}
		default:
			m.BlockFilter.Query = &pbsubstreams.Module_BlockFilter_QueryString{QueryString: []string{"", "-a", "((", "a ||", strings.Repeat("a || ", 3000) + "a"}[r.Intn(5)]}
		}
		return "block-filter-query-odd"
	case 17:
		m.Inputs = append(m.Inputs, paramsInput(anyName(r, ms)))
		return "params-not-first-or-naming-a-module"
	case 18:
		m.Inputs = append(m.Inputs, srcInput([]string{"", "sf.ethereum.type.v2.Block", anyName(r, ms)}[r.Intn(3)]))
		return "source-odd"
	case 19:
		m.Inputs = nil
		return "no-inputs"
	case 20:
		// kind flipped while references stay
		switch {
		case m.GetKindMap() != nil:
			m.Kind = kindStore(r)
		case m.GetKindStore() != nil:
			m.Kind = kindMap()
		default:
			m.Kind = kindMap()
		}
		return "kind-flipped"
	case 21:
		m.Output = nil
		return "output-absent"
	case 22:
		// more than 100 modules
		n := 101 - len(ms.Modules) + r.Intn(20)
		for i := 0; i < n; i++ {
			ms.Modules = append(ms.Modules, &pbsubstreams.Module{Name: fmt.Sprintf("extra%d", i), Kind: kindMap(), Inputs: []*pbsubstreams.Module_Input{srcInput(testBlockType)}, Output: &pbsubstreams.Module_Output{Type: "proto:x"}})
		}
		return "too-many-modules"
	case 23:
		for i := 0; i < 31; i++ {
			m.Inputs = append(m.Inputs, srcInput(testBlockType))
		}
		return "too-many-inputs"
	case 24:
		if len(ms.Binaries) > 0 {
			ms.Binaries[r.Intn(len(ms.Binaries))].Type = []string{"", "wasm/rust-v2", "wasm/rust-v1+", "wasm/rust-v1+a=b", "wasip1/tinygo-v1", "wasm/rust-v1+=", "+"}[r.Intn(7)]
		}
		return "binary-type-odd"
	case 25:
		// a map that reads a store as a map, or the reverse
		for _, o := range ms.Modules {
			if o.GetKindStore() != nil {
				m.Inputs = append(m.Inputs, mapInput(o.Name))
				return "map-input-naming-a-store"
			}
		}
		for _, o := range ms.Modules {
			if o.GetKindMap() != nil {
				m.Inputs = append(m.Inputs, storeInput(o.Name, pbsubstreams.Module_Input_Store_GET))
				return "store-input-naming-a-map"
			}
		}
		return "noop"
	case 26:
		// dependency with a later initial block than the dependent
		ms.Modules[0].InitialBlock = m.InitialBlock + 1 + uint64(r.Intn(1000))
		return "dependency-starts-later"
	case 27:
		ms.Modules = ms.Modules[:r.Intn(len(ms.Modules))]
		return "modules-truncated"
	case 28:
		r.Shuffle(len(ms.Modules), func(i, j int) { ms.Modules[i], ms.Modules[j] = ms.Modules[j], ms.Modules[i] })
		return "modules-shuffled"
	case 29:
		m.BlockFilter = &pbsubstreams.Module_BlockFilter{Module: m.Name, Query: &pbsubstreams.Module_BlockFilter_QueryString{QueryString: "x"}}
		return "block-filter-on-self"
	case 30:
		// index module that itself has a block filter on another index / on itself
		m.Kind = kindIndex()
		m.BlockFilter = &pbsubstreams.Module_BlockFilter{Module: anyIndexName(ms), Query: &pbsubstreams.Module_BlockFilter_QueryString{QueryString: "x"}}
		return "index-module-with-filter"
	case 31:
		m.Inputs = []*pbsubstreams.Module_Input{paramsInput("only")}
		return "only-params"
	case 32:
		m.BinaryEntrypoint = ""
		m.Name = outputName
		return "renamed-to-output"
	default:
		ms.Modules = append(ms.Modules, &pbsubstreams.Module{})
		return "empty-module-appended"
	}
}

func anyIndexName(ms *pbsubstreams.Modules) string {
	for _, o := range ms.Modules {
		if o.GetKindBlockIndex() != nil {
			return o.Name
		}
	}
	return "ghost_index"
}

func renameRefs(ms *pbsubstreams.Modules, old, nu string) {
	for _, m := range ms.Modules {
		for _, in := range m.Inputs {
			if x := in.GetMap(); x != nil && x.ModuleName == old {
				x.ModuleName = nu
			}
			if x := in.GetStore(); x != nil && x.ModuleName == old {
				x.ModuleName = nu
			}
		}
		if m.BlockFilter != nil && m.BlockFilter.Module == old {
			m.BlockFilter.Module = nu
		}
	}
}

func mutateTier1(r *rand.Rand, req *pbsubstreamsrpc.Request) string {
	switch r.Intn(16) {
	case 0:
		req.Modules = nil
		return "modules-nil"
	case 1:
		req.OutputModule = []string{"", "ghost", " ", testBlockType}[r.Intn(4)]
		return "output-unknown"
	case 2:
		for _, m := range req.Modules.GetModules() {
			if m.GetKindStore() != nil || m.GetKindBlockIndex() != nil {
				req.OutputModule = m.Name
				if r.Intn(2) == 0 {
					break
				}
			}
		}
		return "output-not-a-map"
	case 3:
		req.StartBlockNum = []int64{-1, -10, -5000, math.MinInt64, math.MinInt64 + 1, -int64(req.StopBlockNum)}[r.Intn(6)]
		return "start-negative"
	case 4:
		req.StartBlockNum = int64(req.StopBlockNum) + int64(r.Intn(100))
		return "start-at-or-after-stop"
	case 5:
		req.StopBlockNum = bigNums[r.Intn(len(bigNums))]
		return "stop-extreme"
	case 6:
		req.StartBlockNum = []int64{0, 1, math.MaxInt64, math.MaxInt64 - 1, 1 << 40}[r.Intn(5)]
		return "start-extreme"
	case 7, 8, 9:
		req.StartCursor = genCursor(r, false)
		return "cursor-bad"
	case 10:
		req.StartCursor = genCursor(r, true)
		return "cursor-valid"
	case 11:
		req.DebugInitialStoreSnapshotForModules = append(req.DebugInitialStoreSnapshotForModules, anyName(r, req.Modules))
		req.ProductionMode = r.Intn(2) == 0
		return "debug-snapshot-odd"
	case 12:
		req.ProductionMode = !req.ProductionMode
		return "mode-flipped"
	case 13:
		req.StopBlockNum = 0
		return "stop-zero"
	default:
		if req.Modules == nil {
			return "noop"
		}
		return "mod/" + mutateModules(r, req.Modules, req.OutputModule)
	}
}

func mutateTier2(r *rand.Rand, req *pbssinternal.ProcessRangeRequest) string {
	switch r.Intn(18) {
	case 0:
		req.Modules = nil
		return "modules-nil"
	case 1:
		req.OutputModule = []string{"", "ghost"}[r.Intn(2)]
		return "output-unknown"
	case 2, 3:
		req.Stage = []uint32{1, 2, 3, 5, 100, math.MaxUint32, 1 << 31}[r.Intn(7)]
		if r.Intn(5) != 0 {
			req.SegmentNumber = 0
		}
		return "stage-odd"
	case 4:
		req.SegmentSize = []uint64{0, 1, math.MaxUint64, 1 << 63, 3}[r.Intn(5)]
		return "segment-size-odd"
	case 5:
		req.SegmentNumber = bigNums[r.Intn(len(bigNums))]
		return "segment-number-extreme"
	case 6:
		req.FirstStreamableBlock = bigNums[r.Intn(len(bigNums))]
		return "first-streamable-extreme"
	case 7:
		req.StopBlockNum = 1 + uint64(r.Intn(100))
		return "deprecated-stop-set"
	case 8:
		switch r.Intn(5) {
		case 0:
			req.MeteringConfig = ""
		case 1:
			req.BlockType = ""
		case 2:
			req.StateStore = ""
		case 3:
			req.MergedBlocksStore = ""
		default:
			req.BlockType = "other.Block"
		}
		return "config-string-odd"
	case 9:
		// first streamable block inside / above the segment
		req.FirstStreamableBlock = req.SegmentNumber*req.SegmentSize + uint64(r.Intn(int(min64(req.SegmentSize, 1000))+2))
		return "first-streamable-in-segment"
	default:
		if req.Modules == nil {
			return "noop"
		}
		return "mod/" + mutateModules(r, req.Modules, req.OutputModule)
	}
}

// ---------------------------------------------------------------- structurally arbitrary messages

var namePool = []string{"a", "b", "c", "d", "e", "m1", "m2", "store_x", "idx", "pkg:a", "", "a", "b", "9", "a b"}

func arbName(r *rand.Rand) string {
	if r.Intn(12) == 0 {
		return badNames[r.Intn(len(badNames))]
	}
	return namePool[r.Intn(len(namePool))]
}

func arbU64(r *rand.Rand) uint64 {
	switch r.Intn(6) {
	case 0:
		return bigNums[r.Intn(len(bigNums))]
	case 1:
		return uint64(r.Intn(100000))
	default:
		return uint64(r.Intn(4)) * uint64(r.Intn(20))
	}
}

func arbInput(r *rand.Rand) *pbsubstreams.Module_Input {
	switch r.Intn(10) {
	case 0:
		return &pbsubstreams.Module_Input{}
	case 1, 2:
		return srcInput([]string{testBlockType, "sf.substreams.v1.Clock", "", "x.Y", arbName(r)}[r.Intn(5)])
	case 3, 4, 5:
		return mapInput(arbName(r))
	case 6, 7, 8:
		return storeInput(arbName(r), pbsubstreams.Module_Input_Store_Mode(r.Intn(4)))
	default:
		return paramsInput([]string{"", "p", arbName(r)}[r.Intn(3)])
	}
}

func arbModule(r *rand.Rand, nBin int) *pbsubstreams.Module {
	m := &pbsubstreams.Module{Name: arbName(r), BinaryEntrypoint: arbName(r)}
	switch r.Intn(8) {
	case 0: // kind absent
	case 1, 2, 3:
		m.Kind = kindMap()
	case 4, 5:
		m.Kind = kindStore(r)
		if r.Intn(4) == 0 {
			m.GetKindStore().UpdatePolicy = pbsubstreams.Module_KindStore_UpdatePolicy(r.Intn(12) - 2)
			m.GetKindStore().ValueType = randomString(r, r.Intn(6))
		}
	default:
		m.Kind = kindIndex()
	}
	switch r.Intn(5) {
	case 0:
		m.BinaryIndex = uint32(arbU64(r))
	default:
		if nBin > 0 {
			m.BinaryIndex = uint32(r.Intn(nBin + 1))
		}
	}
	nin := r.Intn(4)
	if r.Intn(30) == 0 {
		nin = 28 + r.Intn(6)
	}
	for i := 0; i < nin; i++ {
		m.Inputs = append(m.Inputs, arbInput(r))
	}
	if r.Intn(3) != 0 {
		m.Output = &pbsubstreams.Module_Output{Type: []string{"proto:x", "", "x"}[r.Intn(3)]}
	}
	if r.Intn(3) == 0 {
		m.InitialBlock = arbU64(r)
	}
	if r.Intn(4) == 0 {
		bf := &pbsubstreams.Module_BlockFilter{Module: arbName(r)}
		switch r.Intn(3) {
		case 0:
		case 1:
			bf.Query = &pbsubstreams.Module_BlockFilter_QueryString{QueryString: []string{"", "a", "a || b", "-a", "(("}[r.Intn(5)]}
		default:
			bf.Query = &pbsubstreams.Module_BlockFilter_QueryFromParams{QueryFromParams: &pbsubstreams.Module_QueryFromParams{}}
		}
		m.BlockFilter = bf
	}
	return m
}

func arbModules(r *rand.Rand) *pbsubstreams.Modules {
	if r.Intn(25) == 0 {
		return nil
	}
	ms := &pbsubstreams.Modules{}
	nb := r.Intn(3)
	for i := 0; i < nb; i++ {
		ms.Binaries = append(ms.Binaries, &pbsubstreams.Binary{Type: []string{"wasm/rust-v1", "wasm/rust-v1", "wasip1/tinygo-v1", "", "foo", "wasm/rust-v1+x"}[r.Intn(6)], Content: []byte(randomString(r, r.Intn(5)))})
	}
	var n int
	switch x := r.Intn(20); {
	case x < 14:
		n = r.Intn(6)
	case x < 18:
		n = 6 + r.Intn(20)
	default:
		n = 90 + r.Intn(31)
	}
	for i := 0; i < n; i++ {
		m := arbModule(r, nb)
		if n > 15 && r.Intn(3) != 0 {
			m.Name = fmt.Sprintf("u%d", i) // avoid every large list dying on a duplicate name
		}
		ms.Modules = append(ms.Modules, m)
	}
	return ms
}

func arbTier1(r *rand.Rand) *pbsubstreamsrpc.Request {
	req := &pbsubstreamsrpc.Request{Modules: arbModules(r), ProductionMode: r.Intn(2) == 0, FinalBlocksOnly: r.Intn(2) == 0, NoopMode: r.Intn(5) == 0}
	req.OutputModule = arbName(r)
	if ms := req.Modules.GetModules(); len(ms) > 0 && r.Intn(3) != 0 {
		req.OutputModule = ms[r.Intn(len(ms))].Name
	}
	switch r.Intn(5) {
	case 0:
		req.StartBlockNum = -int64(arbU64(r) >> 1)
	default:
		req.StartBlockNum = int64(arbU64(r) >> 1)
	}
	if r.Intn(3) != 0 {
		req.StopBlockNum = arbU64(r)
	}
	switch r.Intn(6) {
	case 0:
		req.StartCursor = genCursor(r, true)
	case 1:
		req.StartCursor = genCursor(r, false)
	}
	if r.Intn(6) == 0 {
		req.DebugInitialStoreSnapshotForModules = []string{arbName(r)}
	}
	return req
}

func arbTier2(r *rand.Rand) *pbssinternal.ProcessRangeRequest {
	req := &pbssinternal.ProcessRangeRequest{Modules: arbModules(r)}
	req.OutputModule = arbName(r)
	if ms := req.Modules.GetModules(); len(ms) > 0 && r.Intn(3) != 0 {
		req.OutputModule = ms[r.Intn(len(ms))].Name
	}
	str := func(v string) string {
		if r.Intn(12) == 0 {
			return ""
		}
		return v
	}
	req.MeteringConfig = str("null://")
	req.BlockType = str(testBlockType)
	req.StateStore = str("memory://s")
	req.MergedBlocksStore = str("memory://b")
	req.SegmentSize = arbU64(r)
	if r.Intn(3) != 0 {
		req.SegmentSize = []uint64{1, 10, 100, 1000}[r.Intn(4)]
	}
	req.SegmentNumber = arbU64(r)
	if r.Intn(3) == 0 {
		req.FirstStreamableBlock = arbU64(r)
	}
	if r.Intn(2) == 0 {
		req.Stage = uint32(arbU64(r))
	}
	if r.Intn(15) == 0 {
		req.StopBlockNum = arbU64(r)
	}
	return req
}

// ---------------------------------------------------------------- wire-level mutations

// mutateBytes applies 1..3 byte-level mutations to an encoded message.
func mutateBytes(r *rand.Rand, b []byte) []byte {
	b = append([]byte(nil), b...)
	n := 1 + r.Intn(3)
	for k := 0; k < n && len(b) > 0; k++ {
		switch r.Intn(7) {
		case 0: // bit flip
			b[r.Intn(len(b))] ^= byte(1 << uint(r.Intn(8)))
		case 1: // truncate
			b = b[:r.Intn(len(b))]
		case 2: // splice a chunk elsewhere
			i, j := r.Intn(len(b)), r.Intn(len(b))
			if i > j {
				i, j = j, i
			}
			chunk := append([]byte(nil), b[i:j]...)
			at := r.Intn(len(b))
			b = append(b[:at], append(chunk, b[at:]...)...)
		case 3: // duplicate the whole message (every field twice: proto3 merges / overrides)
			b = append(b, b...)
		case 4: // delete a chunk
			i := r.Intn(len(b))
			j := i + r.Intn(min(len(b)-i, 16))
			b = append(b[:i], b[j:]...)
		case 5: // set a byte
			b[r.Intn(len(b))] = []byte{0, 1, 0x7f, 0x80, 0xff, 0x0a, 0x12, 0x32}[r.Intn(8)]
		default: // append a random top-level varint field
			b = append(b, byte((1+r.Intn(15))<<3), byte(r.Intn(128)))
		}
	}
	return b
}
