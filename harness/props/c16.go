package props

import (
	"fmt"
	"os"
	"sort"
	"strings"
	"sync"
	"sync/atomic"
	"time"

	"connectrpc.com/connect"

	"context"

	pbssinternal "github.com/streamingfast/substreams/pb/sf/substreams/intern/v2"
	pbsubstreams "github.com/streamingfast/substreams/pb/sf/substreams/v1"
	"github.com/streamingfast/substreams/service"
	"google.golang.org/grpc/status"
	"google.golang.org/protobuf/proto"

	"verif/harness/fw"
	"verif/harness/gen"
	"verif/harness/native"
	"verif/harness/sim"
)

// C16: worker failures never corrupt the stream or truncate it silently.

func init() {
	fw.Register(&fw.Spec{
		ID:    "C16",
		Level: "fault_enumeration",
		Rule: "wiring: tier1 with the REAL work.RemoteWorker -> real gRPC client -> in-memory listener (bufconn) -> real grpc.Server -> real Tier2Service.ProcessRange (real error mapping, overload handling, retry classification). " +
			"case = one generated (package, production/development request with >=2 tier2 jobs); fault-free run gives the job list J. Transient part: EVERY single placement (job x first attempt x kind in {refuse before the call, drop after k=0/1 received messages with and without cancelling the server side (zombie job), completion lost after the job wrote its files}) is run, plus PRNG pairs and triples of faults (also on retries of the same job) and one run against a tier2 limited to 1 concurrent request with 3 workers (real overload path); each must complete with outputs == sequential reference and a clean cache audit, and once every server-side handler has returned (GracefulStop) a limited tier2 must signal ready again. " +
			"Admission bursts: a tier2 limited to 1..2 concurrent requests receives 12 bursts of 4..11 simultaneous ProcessRange calls over real gRPC (refused as invalid right after admission); afterwards a single call must be admitted (not 'overloaded') and the service must signal ready. " +
			"Deterministic part: one module is made to fail at block b for b in the request range (quick: 3 values, thorough: every b), both modes, for half of them after a transient fault on the first attempt of the failing segment's jobs: the request must end with an error that the real tier1 mapping turns into InvalidArgument, every delivered block is a correct prefix strictly below b, nothing is delivered after the error. " +
			"non-trivial = transient scenario in which at least one injected fault actually triggered and the job was retried; deterministic scenario in which the failure surfaced; distinct by (package, request, fault list)",
		Assumptions: []string{
			"the retry back-off of the remote worker (>= 1 s per retry, external library) is real time: scenarios of one case run concurrently in one process",
			"transient faults are injected at the gRPC client stream boundary (SendMsg/RecvMsg) of the real client; the server side is the unmodified service",
			"reference outputs for the deterministic part come from the same package without the failure (programs are pure, so blocks below b are unaffected)",
		},
		Cases: func(tier, mode string) int {
			if mode == "race" {
				return 12
			}
			if tier == "thorough" {
				return 320
			}
			return 16
		},
		Modes: func(tier string) []string {
			if tier == "thorough" {
				return []string{"plain", "race"}
			}
			return []string{"plain"}
		},
		CaseTimeout:   600e9,
		MinNontrivial: 20,
		Run:           runC16,
	})
}

type c16Outcome struct {
	label      string
	faults     []sim.Fault
	res        *sim.Result
	triggered  []sim.Fault
	calls      int
	findings   []sim.Finding
	nontrivial bool
	err        string
}

func runC16(c *fw.Case) {
	// ---- a scenario with at least two tier2 jobs
	var s *scen
	var out string
	var req sim.RequestSpec
	var base *sim.Result
	var rt *sim.RemoteTier2
	for attempt := 0; attempt < 80 && s == nil; attempt++ {
		cand := newScen(c, gen.PkgOpts{MaxMods: 6})
		outs := cand.outputs()
		if len(outs) == 0 {
			cand.close()
			continue
		}
		o := outs[c.R.Intn(len(outs))]
		rq := cand.genRequest(o)
		if rq.Stop == 0 { // the fault placements are enumerated over a bounded request
			rq.Stop = cand.H
		}
		rq.Final = cand.cl.Head
		rq.Workers = 1 + c.R.Intn(3)
		rq.OrderSeed = 0
		rq.NoExecLog = true
		rq.StuckAfter = 120 * time.Second
		pl, err := cand.cl.PlanFor(rq)
		if err != nil || pl.KnownHangShape() || !pl.Plan.RequiresParallelProcessing() {
			cand.close()
			continue
		}
		if c.Index%2 == 0 && attempt < 60 {
			// every other case wants a graph in which some layer holds several modules: they are executed concurrently, and a
			// module failure there takes another error path than in a one-module layer
			wide := false
			for _, st := range pl.Graph.StagedUsedModules() {
				for _, layer := range st {
					if len(layer) >= 2 {
						wide = true
					}
				}
			}
			if !wide {
				cand.close()
				continue
			}
		}
		r2, err := cand.cl.NewRemoteTier2(0)
		if err != nil {
			cand.close()
			continue
		}
		rq.Remote = r2
		res := cand.cl.Run(rq)
		if res.Err != nil || res.Stuck || r2.Calls < 2 {
			r2.Close()
			cand.close()
			if res.Err != nil {
				c.Violation("C16/fault-free-run-failed/"+fw.NormalizeMsg(res.Err.Error()), "fault-free run through the real remote worker failed: "+res.Err.Error(), cand.witness(map[string]any{"request": rq}))
				return
			}
			continue
		}
		s, out, req, base, rt = cand, o, rq, res, r2
	}
	if s == nil {
		c.Count("scenario_generation_gave_up", 1)
		return
	}
	defer s.close()
	defer rt.Close()
	ref := s.ref(out)
	if ref == nil {
		return
	}
	// job list of the fault-free run
	rtJobs := map[string]int{}
	for k, v := range rt.Attempts {
		rtJobs[k] = v
	}
	var jobs [][2]uint64
	for k := range rtJobs {
		var st, sg uint64
		fmt.Sscanf(k, "%d/%d", &st, &sg)
		jobs = append(jobs, [2]uint64{st, sg})
	}
	sort.Slice(jobs, func(i, j int) bool { return jobs[i][0]*1000+jobs[i][1] < jobs[j][0]*1000+jobs[j][1] })
	if fs, _ := sim.CheckStream(base, ref, false); len(fs) > 0 {
		s.report("C16/fault-free", fs, map[string]any{"request": req})
		return
	}
	c.Count("jobs_in_fault_free_runs", int64(len(jobs)))

	// ---- transient scenarios
	var plans [][]sim.Fault
	var labels []string
	kinds := []sim.Fault{{Kind: "refuse"}, {Kind: "drop", K: 0, Cancel: true}, {Kind: "drop", K: 0, Cancel: false}, {Kind: "drop", K: 1, Cancel: true}, {Kind: "drop-after-complete"}}
	for _, j := range jobs {
		for _, k := range kinds {
			f := k
			f.Stage, f.Segment, f.Attempt = uint32(j[0]), j[1], 1
			plans = append(plans, []sim.Fault{f})
			labels = append(labels, "single")
		}
	}
	codes := []string{"", "", "canceled", "internal", "unknown", "aborted", "resource_exhausted"}
	for i := range plans { // the status code the client sees varies too
		plans[i][0].Code = codes[c.R.Intn(len(codes))]
	}
	// a job that fails transiently four times in a row must still be retried ("any bounded number of times")
	{
		j := jobs[c.R.Intn(len(jobs))]
		var fl []sim.Fault
		for a := 1; a <= 4; a++ {
			f := kinds[c.R.Intn(len(kinds))]
			f.Stage, f.Segment, f.Attempt, f.Code = uint32(j[0]), j[1], a, codes[c.R.Intn(len(codes))]
			fl = append(fl, f)
		}
		plans = append(plans, fl)
		labels = append(labels, "four-in-a-row")
	}
	multi := 6
	if c.Tier == "thorough" {
		multi = 30
	}
	for i := 0; i < multi; i++ {
		n := 2 + c.R.Intn(2)
		var fl []sim.Fault
		for x := 0; x < n; x++ {
			j := jobs[c.R.Intn(len(jobs))]
			f := kinds[c.R.Intn(len(kinds))]
			f.Stage, f.Segment, f.Attempt, f.Code = uint32(j[0]), j[1], 1+c.R.Intn(2), codes[c.R.Intn(len(codes))]
			fl = append(fl, f)
		}
		plans = append(plans, fl)
		labels = append(labels, "multi")
	}
	if c.Tier != "thorough" && len(plans) > 26 { // keep the quick tier short: PRNG sample of the single placements
		c.R.Shuffle(len(plans), func(i, j int) { plans[i], plans[j] = plans[j], plans[i]; labels[i], labels[j] = labels[j], labels[i] })
		for i := range labels { // always keep the four-in-a-row plan
			if labels[i] == "four-in-a-row" {
				plans[0], plans[i] = plans[i], plans[0]
				labels[0], labels[i] = labels[i], labels[0]
			}
		}
		plans, labels = plans[:26], labels[:26]
	}
	outcomes := make([]*c16Outcome, len(plans)+1)
	var wg sync.WaitGroup
	sem := make(chan struct{}, 8)
	for i := range plans {
		wg.Add(1)
		go func(i int) {
			defer wg.Done()
			sem <- struct{}{}
			defer func() { <-sem }()
			outcomes[i] = c16Transient(s, req, plans[i], labels[i], 0, ref)
		}(i)
	}
	wg.Add(1)
	go func() { // real overload path
		defer wg.Done()
		rq := req
		rq.Workers = 3
		outcomes[len(plans)] = c16Transient(s, rq, nil, "overload", 1, ref)
	}()
	wg.Wait()
	for _, o := range outcomes {
		if o == nil {
			continue
		}
		c.Count("transient_scenarios", 1)
		c.Count("faults_triggered", int64(len(o.triggered)))
		c.Count("processrange_calls", int64(o.calls))
		ex := map[string]any{"request": req, "kind": o.label, "faults": o.faults, "faults_triggered": o.triggered, "jobs": jobs}
		if o.err != "" {
			c.Violation("C16/transient/request-failed/"+fw.NormalizeMsg(o.err), "request failed although only transient faults were injected: "+o.err, s.witness(ex))
			continue
		}
		for _, f := range o.findings {
			c.Violation("C16/transient/"+f.Sig, f.What, s.witness(ex))
		}
		if o.nontrivial {
			c.Nontrivial(fmt.Sprintf("%v|%+v|%+v", s.pkg.Describe(), req, o.faults))
		}
		if o.label == "overload" && o.calls > len(jobs) {
			c.Count("overload_rejections_retried", int64(o.calls-len(jobs)))
		}
	}
	if c.Violated() {
		return
	}

	// ---- admission bursts against a tier2 with a concurrent-request limit
	if f := c16AdmissionBursts(c, s); f != nil {
		c.Violation("C16/"+f.Sig, f.What, s.witness(map[string]any{"kind": "admission bursts"}))
		return
	}

	// ---- deterministic failure at block b
	lo, hi := uint64(req.Start), req.Stop
	var bs []uint64
	for b := lo; b < hi; b++ {
		bs = append(bs, b)
	}
	if c.Tier != "thorough" && len(bs) > 3 {
		c.R.Shuffle(len(bs), func(i, j int) { bs[i], bs[j] = bs[j], bs[i] })
		bs = bs[:3]
	}
	// the failing module: the output module or one of its ancestors that executes on b
	var cands []string
	for _, m := range ref.Graph.UsedModules() {
		cands = append(cands, m.Name)
	}
	concurrentLayer := map[string]bool{}
	for _, st := range ref.Graph.StagedUsedModules() {
		for _, layer := range st {
			if len(layer) >= 2 {
				for _, m := range layer {
					concurrentLayer[m.Name] = true
				}
			}
		}
	}
	var dout []*c16Outcome
	var mu sync.Mutex
	for _, b := range bs {
		for _, prod := range []bool{true, false} {
			// pick a module that the reference executes on b
			var execs []string
			if rb := ref.Blocks[b]; rb != nil {
				for _, m := range cands {
					if rb.Executed[m] {
						execs = append(execs, m)
					}
				}
			}
			if len(execs) == 0 {
				continue
			}
			sort.Strings(execs)
			// modules of a layer with several modules run concurrently (another error path than the sequential one): prefer them
			var conc []string
			for _, m := range execs {
				if concurrentLayer[m] {
					conc = append(conc, m)
				}
			}
			failing := execs[c.R.Intn(len(execs))]
			if len(conc) > 0 && c.R.Intn(3) != 0 {
				failing = conc[c.R.Intn(len(conc))]
			}
			if concurrentLayer[failing] {
				c.Count("deterministic_failures_in_a_concurrently_executed_layer", 1)
			}
			wg.Add(1)
			go func(b uint64, prod bool, failing string) {
				defer wg.Done()
				sem <- struct{}{}
				defer func() { <-sem }()
				o := c16Deterministic(s, req, out, failing, b, prod, ref)
				mu.Lock()
				dout = append(dout, o)
				mu.Unlock()
			}(b, prod, failing)
		}
	}
	wg.Wait()
	for _, o := range dout {
		c.Count("deterministic_scenarios", 1)
		for _, f := range o.findings {
			c.Violation("C16/deterministic/"+f.Sig, f.What, s.witness(map[string]any{"request": req, "scenario": o.label}))
		}
		if o.nontrivial {
			c.Nontrivial(fmt.Sprintf("%v|%+v|%s", s.pkg.Describe(), req, o.label))
		}
	}
	if c.WantSample() {
		c.Sample(s.witness(map[string]any{"request": req, "jobs": jobs, "transient_scenarios": len(plans) + 1, "deterministic_scenarios": len(dout)}))
	}
}

func c16Transient(s *scen, req sim.RequestSpec, faults []sim.Fault, label string, maxConcurrent uint64, ref *sim.Ref) *c16Outcome {
	o := &c16Outcome{label: label, faults: faults}
	dir, _ := os.MkdirTemp(os.Getenv("VH_SCRATCH"), "c16-")
	defer os.RemoveAll(dir)
	cl := sim.NewCluster(dir, s.seg, s.cl.Head)
	rt, err := cl.NewRemoteTier2(maxConcurrent)
	if err != nil {
		o.err = err.Error()
		return o
	}
	defer rt.Close()
	rt.SetFaults(faults)
	req.Remote = rt
	res := cl.Run(req)
	o.res = res
	o.triggered = append([]sim.Fault(nil), rt.Triggered...)
	o.calls = rt.Calls
	if res.Stuck {
		o.err = "request stuck: no data message for 120 s"
		return o
	}
	if res.Err != nil {
		o.err = res.Err.Error()
		return o
	}
	fs, _ := sim.CheckStream(res, ref, false)
	o.findings = append(o.findings, fs...)
	hf, _ := sim.CheckHandoffStores(res, ref, s.pkg)
	o.findings = append(o.findings, hf...)
	// let zombie jobs finish their writes before auditing: wait for every server-side handler to return
	ready, ok := rt.Quiesce()
	if ok && maxConcurrent > 0 {
		if !ready {
			o.findings = append(o.findings, sim.Finding{Sig: "overload/tier2-not-ready-after-all-jobs-ended", What: fmt.Sprintf("tier2 limited to %d concurrent request(s): after the request completed and every ProcessRange handler returned, the service still signals not-ready (a request slot was never released); it had signalled not-ready %d times", maxConcurrent, rt.NotReadySignals.Load())})
		}
	}
	af, _ := cl.AuditCache(ref, s.pkg)
	o.findings = append(o.findings, af...)
	o.nontrivial = len(o.triggered) > 0 || (label == "overload" && rt.Calls > 0)
	return o
}

func c16Deterministic(s *scen, req sim.RequestSpec, out, failing string, b uint64, prod bool, ref *sim.Ref) *c16Outcome {
	o := &c16Outcome{label: fmt.Sprintf("module %s fails at block %d, production=%v", failing, b, prod)}
	// twin package with the failure
	twin := *s.pkg
	twin.Progs = map[string]*nativeProgram{}
	for k, v := range s.pkg.Progs {
		cp := *v
		twin.Progs[k] = &cp
	}
	twin.Progs[failing].FailAt = int64(b)
	twin.Modules = cloneModules(s.pkg.Modules)
	twin.Rebuild()
	dir, _ := os.MkdirTemp(os.Getenv("VH_SCRATCH"), "c16d-")
	defer os.RemoveAll(dir)
	cl := sim.NewCluster(dir, s.seg, s.cl.Head)
	rt, err := cl.NewRemoteTier2(0)
	if err != nil {
		o.findings = append(o.findings, sim.Finding{Sig: "setup", What: err.Error()})
		return o
	}
	defer rt.Close()
	rq := req
	rq.Modules = twin.Modules
	rq.Prod = prod
	rq.Remote = rt
	if b%2 == 0 { // a transient fault first: the deterministic failure then surfaces on a RETRY of the job
		var fl []sim.Fault
		for st := uint32(0); st < 6; st++ {
			fl = append(fl, sim.Fault{Stage: st, Segment: b / s.seg, Attempt: 1, Kind: "refuse"})
		}
		rt.SetFaults(fl)
		o.label += " (after a transient fault on the first attempt of the segment's jobs)"
	}
	res := cl.Run(rq)
	if res.Stuck {
		o.findings = append(o.findings, sim.Finding{Sig: "request-stuck", What: "request with a deterministically failing module never ended"})
		return o
	}
	if res.Err == nil {
		// legitimate only if the failing block was never executed (cannot happen: b is in range and the reference executes the module there)
		o.findings = append(o.findings, sim.Finding{Sig: "failure-swallowed", What: fmt.Sprintf("%s: the request completed without error (%d data messages)", o.label, len(res.Data()))})
		return o
	}
	ce := service.VerifToConnectError(context.Background(), res.Err)
	if connect.CodeOf(ce) != connect.CodeInvalidArgument {
		o.findings = append(o.findings, sim.Finding{Sig: "wrong-error-code/" + connect.CodeOf(ce).String(), What: fmt.Sprintf("%s: request ended with code %s, expected invalid_argument: %v", o.label, connect.CodeOf(ce), res.Err)})
	}
	fs, _ := sim.CheckStream(res, ref, true)
	o.findings = append(o.findings, fs...)
	for _, d := range res.Data() {
		if d.Num >= b {
			o.findings = append(o.findings, sim.Finding{Sig: "block-at-or-after-failure-delivered", What: fmt.Sprintf("%s: block %d was delivered", o.label, d.Num)})
			break
		}
	}
	o.nontrivial = true
	return o
}

type nativeProgram = native.Program

func cloneModules(m *pbsubstreams.Modules) *pbsubstreams.Modules {
	return proto.Clone(m).(*pbsubstreams.Modules)
}


// c16AdmissionBursts: a tier2 limited to L concurrent requests receives bursts of simultaneous ProcessRange calls over real
// gRPC (calls that are admitted end at once: they carry no modules and are refused as invalid AFTER admission). Whatever the
// interleaving of admission checks, once every handler has returned the service must signal "ready" and admit a call again:
// a burst of overload rejections is a transient condition, not a permanent one.
func c16AdmissionBursts(c *fw.Case, s *scen) *sim.Finding {
	dir, _ := os.MkdirTemp(os.Getenv("VH_SCRATCH"), "c16a-")
	defer os.RemoveAll(dir)
	cl := sim.NewCluster(dir, s.seg, s.cl.Head)
	limit := uint64(1 + c.R.Intn(2))
	rt, err := cl.NewRemoteTier2(limit)
	if err != nil {
		return nil
	}
	defer rt.Close()
	cli, closeFn, _, _, err := rt.ClientFactory()()
	if err != nil {
		return nil
	}
	defer closeFn()
	call := func() string {
		ctx, cancel := context.WithTimeout(context.Background(), 30*time.Second)
		defer cancel()
		st, err := cli.ProcessRange(ctx, &pbssinternal.ProcessRangeRequest{OutputModule: "x", SegmentSize: 10})
		if err == nil {
			for err == nil {
				_, err = st.Recv()
			}
		}
		// the service answers with connect errors; through a plain gRPC server they arrive with their text only
		msg := status.Convert(err).Message()
		switch {
		case strings.Contains(msg, "overloaded"):
			return "overloaded"
		case strings.Contains(msg, "missing modules"):
			return "admitted"
		}
		return "other: " + msg
	}
	var admitted, rejected, other int64
	for burst := 0; burst < 12; burst++ {
		n := 4 + c.R.Intn(8)
		start := make(chan struct{})
		var wg sync.WaitGroup
		for i := 0; i < n; i++ {
			wg.Add(1)
			go func() {
				defer wg.Done()
				<-start
				switch r := call(); r {
				case "admitted":
					atomic.AddInt64(&admitted, 1)
				case "overloaded":
					atomic.AddInt64(&rejected, 1)
				default:
					atomic.AddInt64(&other, 1)
					c.Distinct("admission_burst_other_outcomes", fw.NormalizeMsg(r))
				}
			}()
		}
		close(start)
		wg.Wait()
	}
	c.Count("admission_burst_calls_admitted", admitted)
	c.Count("admission_burst_calls_rejected_as_overloaded", rejected)
	c.Count("admission_burst_calls_other_outcome", other)
	// every call has returned to its client; one more call, alone, must be admitted
	code := call()
	ready, ok := rt.Quiesce()
	if code == "overloaded" {
		return &sim.Finding{Sig: "overload/permanently-overloaded-after-a-burst", What: fmt.Sprintf("tier2 limited to %d concurrent request(s): after bursts of simultaneous calls (%d admitted, %d rejected) had all returned, a single call is still rejected as overloaded although nothing runs", limit, admitted, rejected)}
	}
	if ok && !ready {
		return &sim.Finding{Sig: "overload/tier2-not-ready-after-all-jobs-ended", What: fmt.Sprintf("tier2 limited to %d concurrent request(s): every handler has returned but the service signals not-ready", limit)}
	}
	return nil
}
