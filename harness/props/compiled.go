package props

import (
	"fmt"
	"os"
	"strings"

	"github.com/streamingfast/substreams/manifest"
	pbsubstreams "github.com/streamingfast/substreams/pb/sf/substreams/v1"
	_ "github.com/streamingfast/substreams/wasm/wazero"

	"verif/harness/fw"
	"verif/harness/gen"
	"verif/harness/native"
	"verif/harness/sim"
)

// Second program family: the repository's compiled test packages, executed by the real wazero VM.

var compiledPkgs = []string{
	"/repo/test/testdata/complex_substreams/complex-substreams-v0.1.0.spkg",
	"/repo/test/testdata/simple_substreams/substreams-test-v0.1.0.spkg",
}

func loadCompiled(path string) (*gen.Pkg, error) {
	rd, err := manifest.NewReader(path)
	if err != nil {
		return nil, err
	}
	b, err := rd.Read()
	if err != nil {
		return nil, err
	}
	mods := b.Package.Modules
	p := &gen.Pkg{Modules: mods, Progs: map[string]*native.Program{}, Kind: map[string]string{}, Init: map[string]uint64{}}
	for _, m := range mods.Modules {
		p.Names = append(p.Names, m.Name)
		p.Init[m.Name] = m.InitialBlock
		switch k := m.Kind.(type) {
		case *pbsubstreams.Module_KindMap_:
			p.Kind[m.Name] = "map"
			p.Maps = append(p.Maps, m.Name)
			p.Progs[m.Name] = &native.Program{Kind: "map", SkipEmpty: true}
		case *pbsubstreams.Module_KindStore_:
			p.Kind[m.Name] = "store"
			pol := map[pbsubstreams.Module_KindStore_UpdatePolicy]string{
				pbsubstreams.Module_KindStore_UPDATE_POLICY_SET: "set", pbsubstreams.Module_KindStore_UPDATE_POLICY_SET_IF_NOT_EXISTS: "set_if_not_exists",
				pbsubstreams.Module_KindStore_UPDATE_POLICY_ADD: "add", pbsubstreams.Module_KindStore_UPDATE_POLICY_MIN: "min", pbsubstreams.Module_KindStore_UPDATE_POLICY_MAX: "max",
				pbsubstreams.Module_KindStore_UPDATE_POLICY_APPEND: "append", pbsubstreams.Module_KindStore_UPDATE_POLICY_SET_SUM: "set_sum"}[k.KindStore.UpdatePolicy]
			vt := k.KindStore.ValueType
			if pol == "set" || pol == "set_if_not_exists" || pol == "append" {
				vt = "bytes" // compared as raw bytes
			}
			p.Progs[m.Name] = &native.Program{Kind: "store", Policy: pol, VT: vt}
		default:
			p.Kind[m.Name] = "index"
			p.Progs[m.Name] = &native.Program{Kind: "index"}
		}
	}
	return p, nil
}

// runCompiledScenario: request sequences on a compiled package under wazero, judged by REF-LINEAR
// (stream payloads, stores at the hand-off, decoded snapshot and output files).
func runCompiledScenario(c *fw.Case, prop string) {
	sim.Init()
	os.Setenv("SUBSTREAMS_WASM_RUNTIME", "wazero")
	defer os.Setenv("SUBSTREAMS_WASM_RUNTIME", native.RuntimeName)
	path := compiledPkgs[c.R.Intn(len(compiledPkgs))]
	pkg, err := loadCompiled(path)
	if err != nil {
		c.Inconclusive("cannot load compiled package " + path + ": " + err.Error())
		return
	}
	s := &scen{c: c, r: c.R, refs: map[string]*sim.Ref{}, pkg: pkg}
	s.seg = uint64(3 + c.R.Intn(10))
	s.H = 78
	dir, _ := os.MkdirTemp(os.Getenv("VH_SCRATCH"), "stw-")
	s.dir = dir
	s.cl = sim.NewCluster(dir, s.seg, s.H+2*s.seg+2)
	s.cl.FirstStreamable = 0
	defer s.close()
	// candidate outputs: maps whose reference produces something
	var outs []string
	for _, m := range c.R.Perm(len(pkg.Maps)) {
		name := pkg.Maps[m]
		ref, err := sim.BuildRef(pkg.Modules, name, s.cl.Head+1, s.seg)
		if err != nil {
			c.Count("compiled_outputs_whose_reference_fails", 1) // assertion modules may legitimately panic on some ranges
			continue
		}
		ref.NoExecInfo = true
		s.refs[name] = ref
		n := 0
		for b := pkg.Init[name]; b < s.H; b++ {
			if rb := ref.Blocks[b]; rb != nil && len(rb.Payload) > 0 {
				n++
			}
		}
		if n >= 2 {
			outs = append(outs, name)
		}
		if len(outs) >= 2 {
			break
		}
	}
	if len(outs) == 0 {
		c.Count("packages_without_visible_output", 1)
		return
	}
	var history []any
	for i := 0; i < 1+c.R.Intn(3); i++ {
		out := outs[c.R.Intn(len(outs))]
		ref := s.refs[out]
		spec := s.genRequest(out)
		if pl, err := s.cl.PlanFor(spec); err != nil || pl.KnownHangShape() {
			continue
		}
		before := len(s.cl.ListCache())
		res := s.cl.Run(spec)
		step := map[string]any{"package": path, "request": spec, "cache_before": before, "jobs": res.Jobs}
		history = append(history, step)
		extra := map[string]any{"history": history}
		c.Count("compiled_requests", 1)
		if res.Stuck {
			c.Violation(prop+"/liveness/request-stuck-no-job-in-flight", "compiled package: request made no progress", s.witnessCompiled(extra))
			return
		}
		if res.Err != nil {
			if msg := res.Err.Error(); strings.Contains(msg, "assert_set_sum_store_deltas_0") && strings.Contains(msg, `left: \"sum\"`) && strings.Contains(msg, `right: \"set\"`) {
				// recorded known finding, with its own signature: merging a partial set_sum value tagged "set:" rewrites the tag
				// to "sum:" in the full store, while a sequential execution keeps "set:" once a key was set; a deltas-mode reader of
				// the raw value (this test module of the repository) sees another prefix right after a segment boundary
				c.Violation(prop+"/compiled/set-sum-tag-lost-on-merge", "compiled package: the repository's own assertion module on set_sum deltas fails in a segment job although the sequential run succeeds: "+msg, s.witnessCompiled(extra))
				return
			}
			c.Violation(prop+"/compiled/request-failed/"+fw.NormalizeMsg(res.Err.Error()), "compiled package: a request failed although the sequential reference run succeeds: "+res.Err.Error(), s.witnessCompiled(extra))
			return
		}
		fs, facts := sim.CheckStream(res, ref, false)
		for _, f := range fs {
			c.Violation(prop+"/compiled/"+f.Sig, f.What, s.witnessCompiled(extra))
		}
		hf, hc := sim.CheckHandoffStores(res, ref, s.pkg)
		for _, f := range hf {
			c.Violation(prop+"/compiled/"+f.Sig, f.What, s.witnessCompiled(extra))
		}
		c.Count("compiled_nonempty_payloads_compared", int64(facts.NonEmpty))
		c.Count("compiled_handoff_stores_compared", int64(hc))
		if c.Violated() {
			return
		}
		if (len(res.Jobs) > 0 || before > 1) && facts.NonEmpty > 0 {
			c.Nontrivial(fmt.Sprintf("%s|%d|%+v|%d", path, s.seg, spec, before))
		}
		if c.R.Intn(3) == 0 {
			s.deleteRandomFiles(0.3)
		}
	}
	for out, ref := range s.refs {
		af, afacts := s.cl.AuditCache(ref, s.pkg)
		for _, f := range af {
			c.Violation(prop+"/compiled/"+f.Sig, f.What, s.witnessCompiled(map[string]any{"history": history, "audited_against_output": out}))
		}
		c.Count("compiled_files_audited", int64(afacts.KV+afacts.Output+afacts.StoreOutput+afacts.Index))
	}
}

func (s *scen) witnessCompiled(extra map[string]any) map[string]any {
	w := map[string]any{"segment_size": s.seg, "head": s.cl.Head, "runtime": "wazero (compiled test package)"}
	for k, v := range extra {
		w[k] = v
	}
	return w
}
