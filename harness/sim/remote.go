package sim

import (
	"context"
	"fmt"
	"io"
	"net"
	"sync"
	"sync/atomic"
	"time"

	"github.com/streamingfast/bstream"
	"github.com/streamingfast/bstream/stream"
	"github.com/streamingfast/substreams/client"
	"github.com/streamingfast/substreams/orchestrator/work"
	pbssinternal "github.com/streamingfast/substreams/pb/sf/substreams/intern/v2"
	"github.com/streamingfast/substreams/service"
	"go.uber.org/zap"
	"google.golang.org/grpc"
	"google.golang.org/grpc/codes"
	"google.golang.org/grpc/credentials/insecure"
	"google.golang.org/grpc/status"
	"google.golang.org/grpc/test/bufconn"
)

// Fault is one injected transport fault for a given (stage, segment, attempt).
type Fault struct {
	Stage   uint32 `json:"stage"`
	Segment uint64 `json:"segment"`
	Attempt int    `json:"attempt"` // 1 = first attempt of the job
	// Kind: refuse (fail before the request reaches the server), drop (fail the stream after K
	// received messages, Cancel tells whether the server side is cancelled too or left running as a
	// zombie), drop-after-complete (the job finished and wrote its files but the completion is lost)
	Kind   string `json:"kind"`
	K      int    `json:"k,omitempty"`
	Cancel bool   `json:"cancel,omitempty"`
	// Code is the gRPC status code the client sees (default Unavailable). A tier2 whose own context
	// is cancelled or whose send fails answers Canceled; proxies answer Unavailable / Internal / Unknown.
	Code string `json:"code,omitempty"`
}

func (f *Fault) status(msg string) error {
	c := codes.Unavailable
	switch f.Code {
	case "canceled":
		c = codes.Canceled
	case "internal":
		c = codes.Internal
	case "unknown":
		c = codes.Unknown
	case "aborted":
		c = codes.Aborted
	case "resource_exhausted":
		c = codes.ResourceExhausted
	}
	return status.Error(c, msg)
}

// RemoteTier2 is a real Tier2Service behind a real gRPC server on an in-memory listener,
// reached through the real work.RemoteWorker.
type RemoteTier2 struct {
	cl     *Cluster
	lis    *bufconn.Listener
	srv    *grpc.Server
	Tier2  *service.Tier2Service
	mu     sync.Mutex
	faults []Fault
	// observations
	Attempts  map[string]int // "stage/segment" -> attempts seen by the client interceptor
	Triggered []Fault
	Calls     int
	// readiness as last signalled by the service through its ready callback (overload handling)
	ready           atomic.Int32
	NotReadySignals atomic.Int64
}

// Quiesce waits until every server-side handler has returned (zombie jobs included) and reports whether the service
// then signals "ready". ok=false means handlers were still running after the generous bound (inconclusive).
func (rt *RemoteTier2) Quiesce() (ready bool, ok bool) {
	done := make(chan struct{})
	go func() { rt.srv.GracefulStop(); close(done) }()
	select {
	case <-done:
		return rt.ready.Load() == 1, true
	case <-time.After(60 * time.Second):
		return false, false
	}
}

// NewRemoteTier2 starts the server. maxConcurrent > 0 enables the real overload path.
func (c *Cluster) NewRemoteTier2(maxConcurrent uint64) (*RemoteTier2, error) {
	Init()
	rt := &RemoteTier2{cl: c, lis: bufconn.Listen(1 << 20), Attempts: map[string]int{}}
	var opts []service.Option
	if maxConcurrent > 0 {
		opts = append(opts, service.WithMaxConcurrentRequests(maxConcurrent))
	}
	t2, err := service.NewTier2(zap.NewNop(), opts...)
	if err != nil {
		return nil, err
	}
	rt.ready.Store(1)
	t2.VerifSetReadyFunc(func(r bool) {
		if r {
			rt.ready.Store(1)
		} else {
			rt.ready.Store(0)
			rt.NotReadySignals.Add(1)
		}
	})
	rs := &runState{cl: c, res: &Result{}}
	t2.VerifSetStreamFactory(func(ctx context.Context, h bstream.Handler, startBlockNum int64, stopBlockNum uint64, cursor string, finalBlocksOnly bool, cursorIsTarget bool, logger *zap.Logger, extraOpts ...stream.Option) (service.Streamable, error) {
		return rs.tier2StreamFactory(ctx, h, startBlockNum, stopBlockNum, cursor, finalBlocksOnly, cursorIsTarget, logger, extraOpts...)
	})
	rt.Tier2 = t2
	rt.srv = grpc.NewServer()
	pbssinternal.RegisterSubstreamsServer(rt.srv, t2)
	go rt.srv.Serve(rt.lis)
	return rt, nil
}

func (rt *RemoteTier2) Close() {
	rt.srv.Stop()
	rt.lis.Close()
}

func (rt *RemoteTier2) SetFaults(f []Fault) {
	rt.mu.Lock()
	rt.faults = append([]Fault(nil), f...)
	rt.Attempts = map[string]int{}
	rt.Triggered = nil
	rt.mu.Unlock()
}

// ClientFactory is what tier1 hands to work.NewRemoteWorker.
func (rt *RemoteTier2) ClientFactory() client.InternalClientFactory {
	return func() (pbssinternal.SubstreamsClient, func() error, []grpc.CallOption, client.Headers, error) {
		conn, err := grpc.Dial("bufnet",
			grpc.WithContextDialer(func(ctx context.Context, _ string) (net.Conn, error) { return rt.lis.DialContext(ctx) }),
			grpc.WithTransportCredentials(insecure.NewCredentials()),
			grpc.WithChainStreamInterceptor(rt.intercept))
		if err != nil {
			return nil, nil, nil, nil, err
		}
		return pbssinternal.NewSubstreamsClient(conn), conn.Close, nil, nil, nil
	}
}

// WorkerFactory builds real remote workers.
func (rt *RemoteTier2) WorkerFactory() work.WorkerFactory {
	cf := rt.ClientFactory()
	return func(logger *zap.Logger) work.Worker { return work.NewRemoteWorker(cf, zap.NewNop()) }
}

func (rt *RemoteTier2) intercept(ctx context.Context, desc *grpc.StreamDesc, cc *grpc.ClientConn, method string, streamer grpc.Streamer, opts ...grpc.CallOption) (grpc.ClientStream, error) {
	sctx, cancel := context.WithCancel(ctx)
	cs, err := streamer(sctx, desc, cc, method, opts...)
	if err != nil {
		cancel()
		return nil, err
	}
	return &faultStream{ClientStream: cs, rt: rt, cancel: cancel}, nil
}

type faultStream struct {
	grpc.ClientStream
	rt     *RemoteTier2
	cancel context.CancelFunc
	fault  *Fault
	recvd  int
	failed bool
}

func (f *faultStream) SendMsg(m any) error {
	if req, ok := m.(*pbssinternal.ProcessRangeRequest); ok {
		rt := f.rt
		rt.mu.Lock()
		key := fmt.Sprintf("%d/%d", req.Stage, req.SegmentNumber)
		rt.Attempts[key]++
		rt.Calls++
		att := rt.Attempts[key]
		for i := range rt.faults {
			ft := rt.faults[i]
			if ft.Stage == req.Stage && ft.Segment == req.SegmentNumber && ft.Attempt == att {
				f.fault = &ft
				rt.Triggered = append(rt.Triggered, ft)
			}
		}
		rt.mu.Unlock()
		if f.fault != nil && f.fault.Kind == "refuse" {
			f.cancel()
			return f.fault.status("injected fault: worker unavailable")
		}
	}
	return f.ClientStream.SendMsg(m)
}

func (f *faultStream) RecvMsg(m any) error {
	if f.failed {
		return f.fault.status("injected fault: stream dropped")
	}
	if f.fault != nil && f.fault.Kind == "drop" && f.recvd >= f.fault.K {
		f.failed = true
		if f.fault.Cancel {
			f.cancel()
		}
		return f.fault.status("injected fault: stream dropped")
	}
	err := f.ClientStream.RecvMsg(m)
	if err == nil {
		f.recvd++
		return nil
	}
	if err == io.EOF && f.fault != nil && (f.fault.Kind == "drop-after-complete" || f.fault.Kind == "drop") {
		// the job ran to completion on the server but the client never learns it
		f.failed = true
		return f.fault.status("injected fault: completion lost")
	}
	return err
}
