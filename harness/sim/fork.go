package sim

import (
	"fmt"
	"math/rand"
	"sort"
)

// ForkNode is one block of a generated fork tree above a final base block.
type ForkNode struct {
	ID     string `json:"id"`
	Num    uint64 `json:"num"`
	Parent string `json:"parent"`
	Lib    uint64 `json:"lib"`
}

// ForkTree is a fork tree plus an arrival order.
type ForkTree struct {
	Base    uint64     `json:"base"` // final base block (canonical id BlockID(Base))
	Nodes   []ForkNode `json:"nodes"`
	Arrival []string   `json:"arrival"` // ids in arrival order
	Last    string     `json:"last"`    // the terminating block (highest number)
	byID    map[string]*ForkNode
}

func (t *ForkTree) Node(id string) *ForkNode {
	if t.byID == nil {
		t.byID = map[string]*ForkNode{}
		for i := range t.Nodes {
			t.byID[t.Nodes[i].ID] = &t.Nodes[i]
		}
	}
	return t.byID[id]
}

// Path returns the ids from just above the base down to id.
func (t *ForkTree) Path(id string) []string {
	var rev []string
	for id != BlockID(t.Base) && id != "" {
		rev = append(rev, id)
		n := t.Node(id)
		if n == nil {
			break
		}
		id = n.Parent
	}
	out := make([]string, len(rev))
	for i := range rev {
		out[len(rev)-1-i] = rev[i]
	}
	return out
}

// GenForkTree generates a fork tree of H heights above base with up to 3
// siblings per height, flip-flop prone, and an arrival order which is a linear
// extension of parent-before-child with occasional child-before-parent.
func GenForkTree(r *rand.Rand, base uint64, H int) *ForkTree {
	t := &ForkTree{Base: base}
	perHeight := map[uint64]int{}
	newID := func(num uint64) string {
		l := perHeight[num]
		perHeight[num]++
		return fmt.Sprintf("f%d%c", num, 'a'+l)
	}
	add := func(num uint64, parent string) string {
		id := newID(num)
		t.Nodes = append(t.Nodes, ForkNode{ID: id, Num: num, Parent: parent})
		return id
	}
	// main path
	parent := BlockID(base)
	for h := 1; h <= H; h++ {
		parent = add(base+uint64(h), parent)
	}
	// forks
	nforks := 1 + r.Intn(4)
	for f := 0; f < nforks; f++ {
		// fork point: base or any node with height < H
		// fork points are blocks of the tree, never the base itself: a fresh fork resolver does
		// not hold its initial LIB block, so it cannot name it as the junction of a reorg (in a
		// deployment the resolver has long moved past its initial LIB)
		var cands []string
		for _, n := range t.Nodes {
			if n.Num < base+uint64(H) {
				cands = append(cands, n.ID)
			}
		}
		fp := cands[r.Intn(len(cands))]
		fpNum := base
		if n := t.Node(fp); n != nil {
			fpNum = n.Num
		}
		t.byID = nil
		maxLen := int(base) + H - int(fpNum)
		l := 1 + r.Intn(maxLen)
		p := fp
		for i := 1; i <= l; i++ {
			num := fpNum + uint64(i)
			if perHeight[num] >= 3 {
				break
			}
			p = add(num, p)
			t.byID = nil
		}
	}
	t.byID = nil
	// terminator: child of a deepest leaf
	var deepest []string
	for _, n := range t.Nodes {
		if n.Num == base+uint64(H) {
			deepest = append(deepest, n.ID)
		}
	}
	sort.Strings(deepest)
	t.Last = add(base+uint64(H)+1, deepest[r.Intn(len(deepest))])
	t.byID = nil
	// LIB numbers: monotone along each branch, lagging behind by a random amount
	lag := 2 + r.Intn(H)
	for i := range t.Nodes {
		n := &t.Nodes[i]
		lib := base
		if p := t.Node(n.Parent); p != nil {
			lib = p.Lib
		}
		if n.Num > base+uint64(lag) && r.Intn(2) == 0 {
			cand := n.Num - uint64(lag)
			if cand > lib {
				lib = cand
			}
		}
		n.Lib = lib
	}
	// arrival order
	lockstep := r.Intn(2) == 0
	arrived := map[string]bool{BlockID(base): true}
	var pending []string
	for _, n := range t.Nodes {
		if n.ID != t.Last {
			pending = append(pending, n.ID)
		}
	}
	for len(pending) > 0 {
		var ready, notReady []int
		for i, id := range pending {
			if arrived[t.Node(id).Parent] {
				ready = append(ready, i)
			} else {
				notReady = append(notReady, i)
			}
		}
		var pick int
		if len(notReady) > 0 && (len(ready) == 0 || r.Intn(8) == 0) {
			pick = notReady[r.Intn(len(notReady))]
		} else if lockstep && r.Intn(4) != 0 {
			// grow all branches in lockstep: they overtake each other, the chain flips back and forth
			best := []int{}
			for _, i := range ready {
				if len(best) == 0 || t.Node(pending[i]).Num < t.Node(pending[best[0]]).Num {
					best = []int{i}
				} else if t.Node(pending[i]).Num == t.Node(pending[best[0]]).Num {
					best = append(best, i)
				}
			}
			pick = best[r.Intn(len(best))]
		} else {
			pick = ready[r.Intn(len(ready))]
		}
		id := pending[pick]
		pending = append(pending[:pick], pending[pick+1:]...)
		arrived[id] = true
		t.Arrival = append(t.Arrival, id)
	}
	t.Arrival = append(t.Arrival, t.Last)
	return t
}

// Extend appends a fresh block on top of parent (used to drive the stream to its stop block).
func (t *ForkTree) Extend(parentID string, parentNum uint64, lib uint64) *ForkNode {
	id := fmt.Sprintf("x%d", parentNum+1)
	t.Nodes = append(t.Nodes, ForkNode{ID: id, Num: parentNum + 1, Parent: parentID, Lib: lib})
	t.byID = nil
	t.Arrival = append(t.Arrival, id)
	return t.Node(id)
}
