package sim

import (
	"context"
	"fmt"
	"io"
	"sync"
	"time"

	"github.com/streamingfast/bstream"
	pbbstream "github.com/streamingfast/bstream/pb/sf/bstream/v1"
	"github.com/streamingfast/dmetering"
	"github.com/streamingfast/dstore"
	"github.com/streamingfast/substreams"
	"github.com/streamingfast/substreams/block"
	"github.com/streamingfast/substreams/metrics"
	"github.com/streamingfast/substreams/orchestrator/plan"
	pbsubstreamsrpc "github.com/streamingfast/substreams/pb/sf/substreams/rpc/v2"
	pbsubstreams "github.com/streamingfast/substreams/pb/sf/substreams/v1"
	"github.com/streamingfast/substreams/pipeline"
	"github.com/streamingfast/substreams/pipeline/cache"
	"github.com/streamingfast/substreams/pipeline/exec"
	"github.com/streamingfast/substreams/reqctx"
	"github.com/streamingfast/substreams/storage/execout"
	"github.com/streamingfast/substreams/storage/store"
	"github.com/streamingfast/substreams/wasm"
	"go.uber.org/zap"

	"verif/harness/native"
)

// RefPipe is REF-LINEAR: ONE real pipeline.Pipeline, assembled from exported
// constructors in development mode on an empty in-memory store, whose plan has
// only a linear range starting at the lowest initial block of the used modules.
// Nothing is scheduled, cached, merged or resolved.
type RefPipe struct {
	Graph  *exec.Graph
	Pipe   *pipeline.Pipeline
	L      uint64
	Stop   uint64
	ctx    context.Context
	mu     sync.Mutex
	resps  []*pbsubstreamsrpc.Response
	closed bool
}

var refIDs uint64 = 1 << 40

func NewRefPipe(mods *pbsubstreams.Modules, output string, stop uint64, segSize uint64, firstStreamable uint64) (*RefPipe, error) {
	Init()
	g, err := exec.NewOutputModuleGraph(output, false, mods, firstStreamable)
	if err != nil {
		return nil, fmt.Errorf("ref graph: %w", err)
	}
	// lowest initial block over ALL used modules (Graph.LowestInitBlock ignores block-index modules)
	L := g.LowestInitBlock()
	for _, b := range g.ModulesInitBlocks() {
		if b < L {
			L = b
		}
	}
	rp := &RefPipe{Graph: g, L: L, Stop: stop}
	refIDs++
	details := &reqctx.RequestDetails{
		Modules: mods, OutputModule: output, ProductionMode: false, StopBlockNum: stop,
		ResolvedStartBlockNum: L, LinearHandoffBlockNum: L, LinearGateBlockNum: L, MaxParallelJobs: 1, UniqueID: refIDs,
	}
	ctx := context.Background()
	ctx = dmetering.WithBytesMeter(ctx)
	ctx = native.WithTag(ctx, "ref")
	ctx = reqctx.WithRequest(ctx, details)
	stats := metrics.NewReqStats(&metrics.Config{OutputModule: output}, zap.NewNop())
	ctx = reqctx.WithReqStats(ctx, stats)
	rp.ctx = ctx
	cacheStore, err := dstore.NewStore("memory://ref", "zst", "zstd", true)
	if err != nil {
		return nil, err
	}
	logger := zap.NewNop()
	eoc, err := execout.NewConfigs(cacheStore, g.UsedModules(), g.ModuleHashes(), segSize, firstStreamable, logger)
	if err != nil {
		return nil, err
	}
	sc, err := store.NewConfigMap(cacheStore, g.Stores(), g.ModuleHashes(), firstStreamable)
	if err != nil {
		return nil, err
	}
	stores := pipeline.NewStores(ctx, sc, segSize, L, stop, false, nil)
	engine, err := cache.NewEngine(ctx, nil, native.BlockType, nil, nil)
	if err != nil {
		return nil, err
	}
	rp.Pipe = pipeline.New(ctx, g, stores, nil, eoc, wasm.NewRegistry(nil), engine, segSize, nil, rp.collect, 3*time.Minute)
	if err := rp.Pipe.Init(ctx); err != nil {
		return nil, err
	}
	if err := rp.Pipe.InitTier1StoresAndBackprocess(ctx, &plan.RequestPlan{LinearPipeline: block.NewRange(L, stop)}); err != nil {
		return nil, err
	}
	return rp, nil
}

func (rp *RefPipe) collect(r substreams.ResponseFromAnyTier) error {
	if resp, ok := r.(*pbsubstreamsrpc.Response); ok {
		rp.mu.Lock()
		rp.resps = append(rp.resps, resp)
		rp.mu.Unlock()
	}
	return nil
}

// Step feeds one block/step and returns the responses it produced.
func (rp *RefPipe) Step(blk *pbbstream.Block, obj interface{}) ([]*pbsubstreamsrpc.Response, error) {
	rp.mu.Lock()
	rp.resps = nil
	rp.mu.Unlock()
	err := rp.Pipe.ProcessBlock(blk, obj)
	rp.mu.Lock()
	out := rp.resps
	rp.resps = nil
	rp.mu.Unlock()
	return out, err
}

func (rp *RefPipe) Stores() map[string]StoreSnap { return snapStores(rp.Pipe.GetStoreMap()) }

func (rp *RefPipe) Close() error { return rp.Pipe.OnStreamTerminated(rp.ctx, io.EOF) }

// RefBlock is what the sequential reference produced for one block.
type RefBlock struct {
	Num      uint64
	ID       string
	Payload  []byte                                   // output module payload (nil/empty when none)
	MapOut   map[string][]byte                        // every executed map/index module's output
	Deltas   map[string][]*pbsubstreamsrpc.StoreDelta // every executed store's deltas
	Executed map[string]bool                          // module executed (host program ran) on this block
	Reads    map[string][]string                      // store reads made by each module
	Stores   map[string]StoreSnap                     // store content after the block
}

// Ref is the sequential reference over the fork-free chain [L, Stop).
type Ref struct {
	Graph  *exec.Graph
	Output string
	L      uint64
	Stop   uint64
	Blocks map[uint64]*RefBlock
	// NoExecInfo: the package was not run by the native runtime, so there is no record of which module
	// executed on which block nor of store reads (compiled wasm packages under wazero)
	NoExecInfo bool
	// StoreAt returns content after block n-1 (i.e. "at block n" before executing it)
}

// BuildRef runs REF-LINEAR over blocks L..stop-1 of the canonical chain.
func BuildRef(mods *pbsubstreams.Modules, output string, stop uint64, segSize uint64) (*Ref, error) {
	rp, err := NewRefPipe(mods, output, stop, segSize, bstream.GetProtocolFirstStreamableBlock)
	if err != nil {
		return nil, err
	}
	ref := &Ref{Graph: rp.Graph, Output: output, L: rp.L, Stop: stop, Blocks: map[uint64]*RefBlock{}}
	native.StartLog()
	for n := rp.L; n <= stop; n++ {
		id := BlockID(n)
		parent := ""
		if n > 0 {
			parent = BlockID(n - 1)
		}
		bref := bstream.NewBlockRef(id, n)
		obj := &Obj{Cur: &bstream.Cursor{Step: bstream.StepNewIrreversible, Block: bref, LIB: bref, HeadBlock: bref}, StepType: bstream.StepNewIrreversible}
		resps, err := rp.Step(MakeBlock(n, id, parent, n), obj)
		if err == io.EOF {
			break
		}
		if err != nil {
			return nil, fmt.Errorf("ref: block %d: %w", n, err)
		}
		rb := &RefBlock{Num: n, ID: id, MapOut: map[string][]byte{}, Deltas: map[string][]*pbsubstreamsrpc.StoreDelta{}, Executed: map[string]bool{}, Reads: map[string][]string{}}
		var data *pbsubstreamsrpc.BlockScopedData
		for _, r := range resps {
			if d := r.GetBlockScopedData(); d != nil {
				if data != nil {
					return nil, fmt.Errorf("ref: two data messages for block %d", n)
				}
				data = d
			}
		}
		if data == nil {
			return nil, fmt.Errorf("ref: no data message for block %d", n)
		}
		if data.Output != nil && data.Output.MapOutput != nil {
			rb.Payload = data.Output.MapOutput.Value
			rb.MapOut[output] = rb.Payload
		}
		for _, mo := range data.DebugMapOutputs {
			if mo.MapOutput != nil {
				rb.MapOut[mo.Name] = mo.MapOutput.Value
			}
		}
		for _, so := range data.DebugStoreOutputs {
			rb.Deltas[so.Name] = so.DebugStoreDeltas
		}
		for _, ex := range native.TakeLog() {
			rb.Executed[ex.Module] = true
			rb.Reads[ex.Module] = ex.Reads
		}
		rb.Stores = rp.Stores()
		ref.Blocks[n] = rb
	}
	native.TakeLog()
	if err := rp.Close(); err != nil {
		return nil, fmt.Errorf("ref: close: %w", err)
	}
	return ref, nil
}

// ChainBlock identifies one block of an explicit chain.
type ChainBlock struct {
	Num    uint64
	ID     string
	Parent string
}

// RefChainResult is the sequential reference over an explicit chain.
type RefChainResult struct {
	Payload map[string][]byte    // block id -> output payload
	Stores  map[string]StoreSnap // after the last block
}

// RunRefChain runs REF-LINEAR over canonical blocks L..base followed by the
// given chain suffix (every block fed as new+final, nothing undone).
func RunRefChain(mods *pbsubstreams.Modules, output string, segSize uint64, base uint64, suffix []ChainBlock) (*RefChainResult, error) {
	top := base
	if len(suffix) > 0 {
		top = suffix[len(suffix)-1].Num
	}
	rp, err := NewRefPipe(mods, output, top+1, segSize, bstream.GetProtocolFirstStreamableBlock)
	if err != nil {
		return nil, err
	}
	out := &RefChainResult{Payload: map[string][]byte{}}
	feed := func(num uint64, id, parent string) error {
		bref := bstream.NewBlockRef(id, num)
		obj := &Obj{Cur: &bstream.Cursor{Step: bstream.StepNewIrreversible, Block: bref, LIB: bref, HeadBlock: bref}, StepType: bstream.StepNewIrreversible}
		resps, err := rp.Step(MakeBlock(num, id, parent, num), obj)
		if err != nil {
			return fmt.Errorf("ref chain: block %d %s: %w", num, id, err)
		}
		for _, r := range resps {
			if d := r.GetBlockScopedData(); d != nil && d.Output != nil && d.Output.MapOutput != nil {
				out.Payload[id] = d.Output.MapOutput.Value
			}
		}
		return nil
	}
	for n := rp.L; n <= base; n++ {
		parent := ""
		if n > 0 {
			parent = BlockID(n - 1)
		}
		if err := feed(n, BlockID(n), parent); err != nil {
			return nil, err
		}
	}
	for _, b := range suffix {
		if err := feed(b.Num, b.ID, b.Parent); err != nil {
			return nil, err
		}
	}
	out.Stores = rp.Stores()
	native.TakeLog()
	return out, nil
}
