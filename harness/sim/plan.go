package sim

import (
	"context"
	"fmt"

	"github.com/streamingfast/bstream"
	"github.com/streamingfast/substreams/orchestrator/plan"
	pbsubstreamsrpc "github.com/streamingfast/substreams/pb/sf/substreams/rpc/v2"
	"github.com/streamingfast/substreams/pipeline"
	"github.com/streamingfast/substreams/pipeline/exec"
	"github.com/streamingfast/substreams/reqctx"
)

// Planned is what tier1 derives from a request before doing any work, obtained
// by chaining the same exported functions in the same way as Tier1Service.blocks.
type Planned struct {
	Graph   *exec.Graph
	Details *reqctx.RequestDetails
	Plan    *plan.RequestPlan
	Undo    *pbsubstreamsrpc.BlockUndoSignal
}

// PlanFor resolves and plans a request without running it.
func (c *Cluster) PlanFor(spec RequestSpec) (*Planned, error) {
	req := &pbsubstreamsrpc.Request{StartBlockNum: spec.Start, StopBlockNum: spec.Stop, StartCursor: spec.Cursor, Modules: spec.Modules, OutputModule: spec.Output, ProductionMode: spec.Prod}
	g, err := exec.NewOutputModuleGraph(spec.Output, spec.Prod, spec.Modules, bstream.GetProtocolFirstStreamableBlock)
	if err != nil {
		return nil, err
	}
	if req.StartBlockNum == 0 {
		req.StartBlockNum = int64(bstream.GetProtocolFirstStreamableBlock)
	}
	final := func() (uint64, error) {
		if spec.Final != 0 {
			return spec.Final, nil
		}
		return 0, fmt.Errorf("no live feed")
	}
	resolver := func(ctx context.Context, cur *bstream.Cursor) (bstream.BlockRef, bstream.BlockRef, error) {
		if spec.CursorResolver != nil {
			return spec.CursorResolver(ctx, cur)
		}
		return cur.Block, bstream.NewBlockRef(BlockID(c.Head), c.Head), nil
	}
	details, undo, err := pipeline.BuildRequestDetails(context.Background(), req, final, resolver, func() (uint64, error) { return c.Head, nil }, c.SegSize)
	if err != nil {
		return nil, err
	}
	scheduleStores := g.StagedUsedModules()[0].LastLayer().IsStoreLayer()
	var lowestStores uint64
	if scheduleStores {
		lowestStores = *g.LowestStoresInitBlock()
	}
	p, err := plan.BuildTier1RequestPlan(details.ProductionMode, c.SegSize, g.LowestInitBlock(), lowestStores, details.ResolvedStartBlockNum, details.LinearHandoffBlockNum, details.StopBlockNum, scheduleStores)
	if err != nil {
		return nil, err
	}
	return &Planned{Graph: g, Details: details, Plan: p, Undo: undo}, nil
}

// KnownHangShape tells whether the plan has the shape of the recorded finding
// "C05/stage-index-shift": back-processing of the output mapper is planned
// (WriteExecOut) while no store is built (BuildStores nil) although the graph
// has store stages; Stages then drops the store stages and the remaining stage
// is sent to tier2 under the wrong stage index.
func (p *Planned) KnownHangShape() bool {
	if p.Plan.WriteExecOut == nil || p.Plan.BuildStores != nil {
		return false
	}
	return len(p.Graph.StagedUsedModules()) > 1
}
