package sim

import (
	"fmt"
	"math/rand"
	"os"
	"testing"

	"verif/harness/gen"
)

func TestSmoke(t *testing.T) {
	r := rand.New(rand.NewSource(7))
	pkg := gen.GenPkg(r, gen.PkgOpts{SegSize: 5})
	for _, d := range pkg.Describe() {
		fmt.Println(d)
	}
	out := pkg.Maps[len(pkg.Maps)-1]
	ref, err := BuildRef(pkg.Modules, out, 30, 5)
	if err != nil {
		t.Fatal(err)
	}
	fmt.Println("ref L", ref.L, "blocks", len(ref.Blocks))
	for n := ref.L; n < 30; n++ {
		b := ref.Blocks[n]
		fmt.Printf("  %d payload=%q executed=%v\n", n, b.Payload, b.Executed)
	}
	dir, _ := os.MkdirTemp("", "smoke")
	defer os.RemoveAll(dir)
	cl := NewCluster(dir, 5, 40)
	res := cl.Run(RequestSpec{Modules: pkg.Modules, Output: out, Prod: true, Start: int64(pkg.Init[out]), Stop: 30, Final: 22, Workers: 3, OrderSeed: 5})
	fmt.Println("err", res.Err, "jobs", len(res.Jobs), "wall", res.Wall, "late", res.Late)
	for _, j := range res.Jobs {
		fmt.Printf("  job %+v\n", j)
	}
	fmt.Println("session", res.Session())
	for _, d := range res.Data() {
		fmt.Printf("  %d %s %q\n", d.Num, d.ID, d.Payload)
	}
}
