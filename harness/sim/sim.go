// Package sim runs the real tier1 -> scheduler -> tier2 -> squasher -> walker ->
// linear pipeline path of /repo inside one process, through exported entry
// points, on top of a generated block source, with recorded responses.
package sim

import (
	"context"
	"errors"
	"fmt"
	"io"
	"math/rand"
	"os"
	"path/filepath"
	"sort"
	"strconv"
	"strings"
	"sync"
	"sync/atomic"
	"time"

	"github.com/streamingfast/bstream"
	pbbstream "github.com/streamingfast/bstream/pb/sf/bstream/v1"
	"github.com/streamingfast/bstream/stream"
	"github.com/streamingfast/dmetering"
	"github.com/streamingfast/dstore"
	"github.com/streamingfast/logging"
	"github.com/streamingfast/substreams"
	orchexecout "github.com/streamingfast/substreams/orchestrator/execout"
	"github.com/streamingfast/substreams/orchestrator/loop"
	"github.com/streamingfast/substreams/orchestrator/response"
	"github.com/streamingfast/substreams/orchestrator/stage"
	"github.com/streamingfast/substreams/orchestrator/work"
	pbssinternal "github.com/streamingfast/substreams/pb/sf/substreams/intern/v2"
	pbsubstreamsrpc "github.com/streamingfast/substreams/pb/sf/substreams/rpc/v2"
	pbsubstreams "github.com/streamingfast/substreams/pb/sf/substreams/v1"
	pbsubstreamstest "github.com/streamingfast/substreams/pb/sf/substreams/v1/test"
	"github.com/streamingfast/substreams/pipeline"
	"github.com/streamingfast/substreams/reqctx"
	"github.com/streamingfast/substreams/service"
	"github.com/streamingfast/substreams/service/config"
	"github.com/streamingfast/substreams/storage/store"
	"go.uber.org/zap"
	"google.golang.org/grpc/codes"
	"google.golang.org/grpc/status"
	"google.golang.org/protobuf/types/known/anypb"
	"google.golang.org/protobuf/types/known/timestamppb"

	"verif/harness/native"
)

var initOnce sync.Once

// Init prepares process-wide settings of the real code for in-process runs.
func Init() {
	initOnce.Do(func() {
		os.Setenv("SUBSTREAMS_WASM_RUNTIME", native.RuntimeName)
		work.VerifNoRampup = true
		dmetering.RegisterNull()
		if os.Getenv("VH_LOGS") != "" {
			logging.InstantiateLoggers()
		}
	})
}

// ---------------------------------------------------------------- blocks

// BlockID of the canonical (fork-free) chain.
func BlockID(num uint64) string { return "b" + strconv.FormatUint(num, 10) }

func BlockTime(num uint64) time.Time { return time.Unix(1_600_000_000+int64(num), 0).UTC() }

// MakeBlock builds a bstream block with a test-block payload.
func MakeBlock(num uint64, id, parentID string, libNum uint64) *pbbstream.Block {
	payload, err := anypb.New(&pbsubstreamstest.Block{Id: id, Number: num})
	if err != nil {
		panic(err)
	}
	return &pbbstream.Block{Id: id, Number: num, ParentId: parentID, Timestamp: timestamppb.New(BlockTime(num)), LibNum: libNum, Payload: payload}
}

// Obj is the per-block object the handlers expect (cursor + step).
type Obj struct {
	Cur      *bstream.Cursor
	StepType bstream.StepType
	Junction bstream.BlockRef
}

func (o *Obj) Cursor() *bstream.Cursor              { return o.Cur }
func (o *Obj) Step() bstream.StepType               { return o.StepType }
func (o *Obj) FinalBlockHeight() uint64             { return o.Cur.LIB.Num() }
func (o *Obj) ReorgJunctionBlock() bstream.BlockRef { return o.Junction }

// ---------------------------------------------------------------- cluster

// Cluster is one in-process tier1+tier2 deployment on one state directory.
type Cluster struct {
	Dir             string // state store directory
	SegSize         uint64
	Head            uint64 // highest block of the chain
	Tag             string
	FirstStreamable uint64

	// BlockHook is called after every block processed by a tier1 linear pipeline.
	mu sync.Mutex
}

func NewCluster(dir string, segSize, head uint64) *Cluster {
	Init()
	return &Cluster{Dir: dir, SegSize: segSize, Head: head, Tag: "tag"}
}

// RequestSpec describes one tier1 request.
type RequestSpec struct {
	Modules         *pbsubstreams.Modules `json:"-"`
	Output          string                `json:"output"`
	Prod            bool                  `json:"prod"`
	Start           int64                 `json:"start"`
	Stop            uint64                `json:"stop"`
	Final           uint64                `json:"final"` // most recent final block known to tier1 (0: unknown)
	Cursor          string                `json:"cursor,omitempty"`
	Workers         int                   `json:"workers"`
	OrderSeed       int64                 `json:"order_seed"`             // completion-order controller seed (0: natural order)
	CancelAfter     int                   `json:"cancel_after,omitempty"` // cancel the request after this many data messages (0: never)
	FinalBlocksOnly bool                  `json:"final_only,omitempty"`
	SnapshotStores  bool                  `json:"-"` // record store content after every linear block
	// Remote, when set, makes tier1 use real work.RemoteWorker instances talking gRPC to this tier2.
	Remote *RemoteTier2 `json:"-"`
	// NoExecLog: do not touch the process-wide module execution log (concurrent runs in one process).
	NoExecLog bool `json:"-"`
	// LinearFeed, when set, replaces the fork-free block source of the tier1 linear phase.
	LinearFeed func(ctx context.Context, h bstream.Handler, start, stop uint64, cursor string) error `json:"-"`
	StuckAfter time.Duration                                                                         `json:"-"` // no job in flight and no data message for this long => stuck (default 20s)
	// LiveLag > 0: a live chain - above the finality point known at request time, every block n arrives as "new" with
	// LIB n-LiveLag, followed by the "irreversible" signals of the blocks that became final.
	LiveLag int `json:"live_lag,omitempty"`
	// Tier2Feed, when set, replaces the fork-free block source of every tier2 job of this request.
	Tier2Feed func(ctx context.Context, h bstream.Handler, start, stop uint64) error `json:"-"`
	// CursorResolver overrides the resolver of non-final start cursors (default: fork-free chain).
	CursorResolver func(ctx context.Context, cur *bstream.Cursor) (junction, head bstream.BlockRef, err error) `json:"-"`
	// Preload switches the walker's background preloading of the next cached-output file (hook H8).
	Preload bool     `json:"preload,omitempty"`
	Debug   []string `json:"-"`
}

var (
	preloadMu  sync.Mutex
	preloadCur = func() bool { // what the walker package read at process start
		e := os.Getenv("SUBSTREAMS_DISABLE_PRELOAD_EXEC_FILES")
		return !(e == "" || e == "0" || e == "false")
	}()
	raceMode = os.Getenv("VH_MODE") == "race"
)

// SetPreload sets the process-wide walker preloading switch (hook H8); it writes only when the value changes, so that
// concurrent requests with the same setting never write while a walker reads. Drivers running requests concurrently
// call it once before starting them.
func SetPreload(on bool) {
	if raceMode {
		// the switch is a plain variable of the walker package: writing it while a stray walker goroutine of an earlier
		// request reads it would be a race of the harness's own making. Under the race detector the setting is fixed
		// per worker process by the real environment variable instead (fw sets it for every second worker).
		return
	}
	preloadMu.Lock()
	defer preloadMu.Unlock()
	if preloadCur != on {
		orchexecout.VerifSetPreload(on)
		preloadCur = on
	}
}

// JobRec records one tier2 job.
type JobRec struct {
	Stage    int    `json:"stage"`
	Segment  int    `json:"segment"`
	Start    uint64 `json:"start"`
	Err      string `json:"err,omitempty"`
	Retries  int    `json:"retries,omitempty"` // attempts that failed with a retryable error (job started before its inputs existed)
	RetryErr string `json:"retry_err,omitempty"`
	Seq      int    `json:"seq"`      // start order
	Released int    `json:"released"` // completion (release) order
}

// StoreSnap is a typed-agnostic deep copy of a store's raw content.
type StoreSnap struct {
	KV   map[string][]byte
	Size uint64
}

// Result is everything observed for one request.
type Result struct {
	Spec      RequestSpec
	Responses []*pbsubstreamsrpc.Response
	Err       error
	Late      int // responses delivered after the call returned
	Jobs      []JobRec
	Execs     []native.Exec
	// HandoffStores is pipeline.GetStoreMap() when the linear phase starts (nil if no linear phase).
	HandoffStores map[string]StoreSnap
	HandoffStart  int64
	// PerBlockStores[blockID] is the store content after that block was processed by the linear pipeline (when SnapshotStores).
	PerBlockStores map[string]map[string]StoreSnap
	LinearBlocks   []string // block ids processed by the linear pipeline, in order
	Stuck          bool     // no progress with no job in flight: cancelled by the harness
	Wall           time.Duration
	// EndedAtHead: an open-ended request (stop 0) that ran until the chain's last block (the harness's way to end it)
	EndedAtHead uint64
}

func snapStores(m store.Map) map[string]StoreSnap {
	out := map[string]StoreSnap{}
	for name, st := range m {
		s := StoreSnap{KV: map[string][]byte{}, Size: st.SizeBytes()}
		st.Iter(func(k string, v []byte) error {
			s.KV[k] = append([]byte(nil), v...)
			return nil
		})
		out[name] = s
	}
	return out
}

type runState struct {
	cl        *Cluster
	spec      RequestSpec
	res       *Result
	mu        sync.Mutex
	closed    bool
	dataCount int
	cancel    context.CancelFunc
	ctl       *controller
	jobSeq    int32
	inFlight  int32
	sealed    bool // set under mu when Run starts to finalise the result
	lastAct   int64
}

func (rs *runState) collect(r substreams.ResponseFromAnyTier) error {
	resp, ok := r.(*pbsubstreamsrpc.Response)
	if !ok {
		return nil
	}
	rs.mu.Lock()
	defer rs.mu.Unlock()
	if rs.closed {
		// The real Blocks handler drops anything sent after it returned (cancelled context under
		// a mutex); only data-carrying messages are counted, as an observation.
		if resp.GetBlockScopedData() != nil || resp.GetBlockUndoSignal() != nil {
			rs.res.Late++
		}
		return context.Canceled
	}
	rs.res.Responses = append(rs.res.Responses, resp)
	if resp.GetBlockScopedData() != nil {
		rs.touch()
		rs.dataCount++
		if rs.spec.CancelAfter > 0 && rs.dataCount == rs.spec.CancelAfter {
			rs.cancel()
		}
	}
	return nil
}

// linearStream feeds the fork-free chain to a handler.
type linearStream struct {
	rs     *runState
	h      bstream.Handler
	start  uint64
	stop   uint64
	final  uint64
	tier1  bool
	cursor string
	// cursorIsTarget: the stream starts at `start` and merely passes through the cursor's block (stream.WithTargetCursor);
	// otherwise it resumes right after the cursor's block (stream.WithCursor)
	cursorIsTarget bool
	lastFinalSent  uint64
}

func (s *linearStream) Run(ctx context.Context) error {
	var pipe *pipeline.Pipeline
	if s.tier1 {
		switch h := s.h.(type) {
		case *pipeline.Pipeline:
			pipe = h
		case *service.LiveBackFiller:
			pipe, _ = h.NextHandler.(*pipeline.Pipeline)
		}
		if pipe != nil {
			s.rs.mu.Lock()
			s.rs.res.HandoffStores = snapStores(pipe.GetStoreMap())
			s.rs.res.HandoffStart = int64(s.start)
			s.rs.mu.Unlock()
		}
	}
	start := s.start
	if s.cursor != "" && !s.cursorIsTarget {
		if cur, err := bstream.CursorFromOpaque(s.cursor); err == nil && cur.Block.Num()+1 > start {
			start = cur.Block.Num() + 1
		}
	}
	for n := start; n <= s.rs.cl.Head; n++ {
		if err := ctx.Err(); err != nil {
			return err
		}
		id := BlockID(n)
		parent := ""
		if n > 0 {
			parent = BlockID(n - 1)
		}
		var obj *Obj
		ref := bstream.NewBlockRef(id, n)
		if s.tier1 && s.rs.spec.FinalBlocksOnly {
			// final_blocks_only: the fork resolver only lets irreversible steps through. Old blocks come from block files
			// (new+irreversible), those near the head as plain "irreversible" signals; non-final blocks never arrive.
			if n > s.final {
				break
			}
			st := bstream.StepNewIrreversible
			off := uint64(0) // half of the requests see "irreversible" signals only, the others a few block-file blocks first
			if (s.rs.spec.OrderSeed>>3)%2 == 1 {
				off = uint64(s.rs.spec.OrderSeed % 7)
			}
			if n >= s.start+off {
				st = bstream.StepIrreversible
			}
			obj = &Obj{Cur: &bstream.Cursor{Step: st, Block: ref, LIB: ref, HeadBlock: ref}, StepType: st}
		} else if !s.tier1 || n <= s.final {
			obj = &Obj{Cur: &bstream.Cursor{Step: bstream.StepNewIrreversible, Block: ref, LIB: ref, HeadBlock: ref}, StepType: bstream.StepNewIrreversible}
		} else {
			libNum := s.final
			if lag := uint64(s.rs.spec.LiveLag); lag > 0 && n > lag && n-lag > libNum {
				libNum = n - lag // a live chain: finality follows the head at a distance
			}
			lib := bstream.NewBlockRef(BlockID(libNum), libNum)
			obj = &Obj{Cur: &bstream.Cursor{Step: bstream.StepNew, Block: ref, LIB: lib, HeadBlock: ref}, StepType: bstream.StepNew}
		}
		blk := MakeBlock(n, id, parent, obj.Cur.LIB.Num())
		err := s.h.ProcessBlock(blk, obj)
		if err != nil {
			if errors.Is(err, io.EOF) {
				return err
			}
			return fmt.Errorf("process block %d: %w", n, err)
		}
		if lag := uint64(s.rs.spec.LiveLag); s.tier1 && lag > 0 && !s.rs.spec.FinalBlocksOnly && n > s.final && n > lag {
			time.Sleep(2 * time.Millisecond) // a live chain is paced by block production: leaves room for the background jobs
			// the fork resolver then signals every block that became final, in order, as a plain "irreversible" step
			if s.lastFinalSent < s.final {
				s.lastFinalSent = s.final
			}
			for m := s.lastFinalSent + 1; m <= n-lag; m++ {
				mref := bstream.NewBlockRef(BlockID(m), m)
				mparent := ""
				if m > 0 {
					mparent = BlockID(m - 1)
				}
				fobj := &Obj{Cur: &bstream.Cursor{Step: bstream.StepIrreversible, Block: mref, LIB: mref, HeadBlock: ref}, StepType: bstream.StepIrreversible}
				if err := s.h.ProcessBlock(MakeBlock(m, BlockID(m), mparent, m), fobj); err != nil {
					if errors.Is(err, io.EOF) {
						return err
					}
					return fmt.Errorf("process irreversible signal for block %d: %w", m, err)
				}
				s.lastFinalSent = m
			}
		}
		if pipe != nil {
			s.rs.mu.Lock()
			s.rs.res.LinearBlocks = append(s.rs.res.LinearBlocks, id)
			if s.rs.spec.SnapshotStores {
				if s.rs.res.PerBlockStores == nil {
					s.rs.res.PerBlockStores = map[string]map[string]StoreSnap{}
				}
				s.rs.res.PerBlockStores[id] = snapStores(pipe.GetStoreMap())
			}
			s.rs.mu.Unlock()
		}
	}
	return fmt.Errorf("chain head %d reached before stop block %d", s.rs.cl.Head, s.stop)
}

type feedStream struct {
	f func(ctx context.Context) error
}

func (s *feedStream) Run(ctx context.Context) error { return s.f(ctx) }

func (rs *runState) tier1StreamFactory(ctx context.Context, h bstream.Handler, startBlockNum int64, stopBlockNum uint64, cursor string, finalBlocksOnly bool, cursorIsTarget bool, logger *zap.Logger, extraOpts ...stream.Option) (service.Streamable, error) {
	if rs.spec.LinearFeed != nil {
		feed := rs.spec.LinearFeed
		return &feedStream{f: func(ctx context.Context) error { return feed(ctx, h, uint64(startBlockNum), stopBlockNum, cursor) }}, nil
	}
	return &linearStream{rs: rs, h: h, start: uint64(startBlockNum), stop: stopBlockNum, final: rs.spec.Final, tier1: true, cursor: cursor, cursorIsTarget: cursorIsTarget}, nil
}

func (rs *runState) tier2StreamFactory(ctx context.Context, h bstream.Handler, startBlockNum int64, stopBlockNum uint64, cursor string, finalBlocksOnly bool, cursorIsTarget bool, logger *zap.Logger, extraOpts ...stream.Option) (service.Streamable, error) {
	start := uint64(startBlockNum)
	if start < rs.cl.FirstStreamable {
		start = rs.cl.FirstStreamable
	}
	if rs.spec.Tier2Feed != nil {
		feed := rs.spec.Tier2Feed
		return &feedStream{f: func(ctx context.Context) error { return feed(ctx, h, start, stopBlockNum) }}, nil
	}
	return &linearStream{rs: rs, h: h, start: start, stop: stopBlockNum, tier1: false}, nil
}

// Tier2Params are the parameters tier1 hands to its workers.
func (c *Cluster) Tier2Params() reqctx.Tier2RequestParameters {
	return reqctx.Tier2RequestParameters{
		MeteringConfig:       "null://",
		FirstStreamableBlock: c.FirstStreamable,
		MergedBlockStoreURL:  filepath.Join(c.Dir, "merged-blocks-unused"),
		StateStoreURL:        c.Dir,
		StateBundleSize:      c.SegSize,
		StateStoreDefaultTag: c.Tag,
		BlockType:            native.BlockType,
	}
}

// ---------------------------------------------------------------- worker + completion-order controller

type controller struct {
	mu       sync.Mutex
	r        *rand.Rand
	active   int
	parked   []chan struct{}
	parkedID []int
	lastEvt  time.Time
	released int
	stop     chan struct{}
	order    []int
}

func newController(seed int64) *controller {
	c := &controller{r: rand.New(rand.NewSource(seed)), stop: make(chan struct{}), lastEvt: time.Now()}
	go c.loop()
	return c
}

func (c *controller) loop() {
	t := time.NewTicker(500 * time.Microsecond)
	defer t.Stop()
	for {
		select {
		case <-c.stop:
			c.mu.Lock()
			for _, ch := range c.parked {
				close(ch)
			}
			c.parked = nil
			c.mu.Unlock()
			return
		case <-t.C:
			c.mu.Lock()
			if c.active > 0 && len(c.parked) == c.active && time.Since(c.lastEvt) > 2*time.Millisecond {
				i := c.r.Intn(len(c.parked))
				close(c.parked[i])
				c.order = append(c.order, c.parkedID[i])
				c.parked = append(c.parked[:i], c.parked[i+1:]...)
				c.parkedID = append(c.parkedID[:i], c.parkedID[i+1:]...)
				c.active--
				c.released++
				c.lastEvt = time.Now()
			}
			c.mu.Unlock()
		}
	}
}

func (c *controller) started() {
	c.mu.Lock()
	c.active++
	c.lastEvt = time.Now()
	c.mu.Unlock()
}

// park blocks until the controller releases this job; returns the release rank.
func (c *controller) park(ctx context.Context, id int) {
	ch := make(chan struct{})
	c.mu.Lock()
	c.parked = append(c.parked, ch)
	c.parkedID = append(c.parkedID, id)
	c.lastEvt = time.Now()
	c.mu.Unlock()
	select {
	case <-ch:
	case <-ctx.Done():
		c.mu.Lock()
		for i, x := range c.parked {
			if x == ch {
				c.parked = append(c.parked[:i], c.parked[i+1:]...)
				c.parkedID = append(c.parkedID[:i], c.parkedID[i+1:]...)
				c.active--
				break
			}
		}
		c.mu.Unlock()
	}
}

type simWorker struct {
	rs *runState
	id string
}

var workerIDs atomic.Uint64

func (w *simWorker) ID() string { return w.id }

func (w *simWorker) Work(ctx context.Context, unit stage.Unit, startBlock uint64, moduleNames []string, upstream *response.Stream) loop.Cmd {
	rs := w.rs
	pctx := reqctx.WithTier2RequestParameters(ctx, rs.cl.Tier2Params())
	request := work.NewRequest(pctx, reqctx.Details(ctx), unit.Stage, startBlock)
	return func() loop.Msg {
		seq := int(atomic.AddInt32(&rs.jobSeq, 1))
		if rs.ctl != nil {
			rs.ctl.started()
		}
		rec := JobRec{Stage: unit.Stage, Segment: unit.Segment, Start: startBlock, Seq: seq}
		atomic.AddInt32(&rs.inFlight, 1)
		rs.touch()
		defer func() { rs.touch(); atomic.AddInt32(&rs.inFlight, -1) }()
		var err error
		for attempt := 0; ; attempt++ {
			err = rs.cl.RunJob(ctx, rs, request, fmt.Sprintf("job:%d:%d", unit.Stage, unit.Segment))
			if err == nil || ctx.Err() != nil {
				break
			}
			// classify like the real remote worker: through the real tier2 error mapping, InvalidArgument is fatal, the rest is retried
			if status.Code(service.VerifToGRPCError(ctx, err)) == codes.InvalidArgument || attempt >= 40 {
				break
			}
			rec.Retries++
			rec.RetryErr = err.Error()
			if rs.ctl != nil {
				rs.ctl.park(ctx, -seq) // let the other jobs make progress, then try again
				rs.ctl.started()
			} else {
				time.Sleep(5 * time.Millisecond)
			}
		}
		if rs.ctl != nil {
			rs.ctl.park(ctx, seq)
		}
		if err != nil {
			rec.Err = err.Error()
		}
		rs.mu.Lock()
		if !rs.sealed { // a command started after the request returned must not touch the result any more
			rs.res.Jobs = append(rs.res.Jobs, rec)
		}
		rs.mu.Unlock()
		if err != nil {
			return work.MsgJobFailed{Unit: unit, Error: fmt.Errorf("tier2 job failed: %w", err)}
		}
		return work.MsgJobSucceeded{Unit: unit, Worker: w}
	}
}

// RunJob runs one tier2 ProcessRange in-process, on a context that does not
// inherit tier1's request values (as a separate tier2 process would).
func (c *Cluster) RunJob(parent context.Context, rs *runState, request *pbssinternal.ProcessRangeRequest, tag string) error {
	ctx, cancel := context.WithCancel(context.Background())
	defer cancel()
	done := make(chan struct{})
	defer close(done)
	go func() {
		select {
		case <-parent.Done():
			cancel()
		case <-done:
		}
	}()
	ctx = reqctx.WithTier2RequestParameters(ctx, c.Tier2Params())
	ctx = dmetering.WithBytesMeter(ctx)
	ctx = native.WithTag(ctx, tag)
	svc := service.TestNewServiceTier2(false, rs.tier2StreamFactory)
	return svc.TestProcessRange(ctx, request, func(substreams.ResponseFromAnyTier) error { return nil })
}

// RunJobDirect runs one tier2 job for an externally driven scheduler.
func (c *Cluster) RunJobDirect(parent context.Context, request *pbssinternal.ProcessRangeRequest, tag string) error {
	return c.RunJob(parent, &runState{cl: c, res: &Result{}}, request, tag)
}

// StandaloneJob runs one tier2 job outside any tier1 request (e.g. to obtain partial files).
func (c *Cluster) StandaloneJob(mods *pbsubstreams.Modules, output string, stageIdx int, segment uint64) error {
	rs := &runState{cl: c, res: &Result{}}
	req := &pbssinternal.ProcessRangeRequest{
		Modules: mods, OutputModule: output, Stage: uint32(stageIdx), MeteringConfig: "null://",
		FirstStreamableBlock: c.FirstStreamable, MergedBlocksStore: filepath.Join(c.Dir, "merged-blocks-unused"),
		StateStore: c.Dir, SegmentSize: c.SegSize, SegmentNumber: segment, StateStoreDefaultTag: c.Tag, BlockType: native.BlockType,
	}
	return c.RunJob(context.Background(), rs, req, fmt.Sprintf("standalone:%d:%d", stageIdx, segment))
}

// Run executes one tier1 request and records everything observed.
func (c *Cluster) Run(spec RequestSpec) *Result {
	t0 := time.Now()
	res := &Result{Spec: spec}
	rs := &runState{cl: c, spec: spec, res: res}
	if spec.OrderSeed != 0 {
		rs.ctl = newController(spec.OrderSeed)
		defer close(rs.ctl.stop)
	}
	base, err := dstore.NewStore(c.Dir, "zst", "zstd", true)
	if err != nil {
		res.Err = err
		return res
	}
	workers := spec.Workers
	if workers <= 0 {
		workers = 1
	}
	rc := config.RuntimeConfig{
		SegmentSize:                c.SegSize,
		DefaultParallelSubrequests: uint64(workers),
		BaseObjectStore:            base,
		DefaultCacheTag:            c.Tag,
		MaxJobsAhead:               10,
		WorkerFactory: func(logger *zap.Logger) work.Worker {
			return &simWorker{rs: rs, id: fmt.Sprintf("w%d", workerIDs.Add(1))}
		},
	}
	if spec.Remote != nil {
		rc.WorkerFactory = spec.Remote.WorkerFactory()
		rc.ClientFactory = spec.Remote.ClientFactory()
	}
	SetPreload(spec.Preload)
	req := &pbsubstreamsrpc.Request{
		StartBlockNum:                       spec.Start,
		StopBlockNum:                        spec.Stop,
		StartCursor:                         spec.Cursor,
		Modules:                             spec.Modules,
		OutputModule:                        spec.Output,
		ProductionMode:                      spec.Prod,
		FinalBlocksOnly:                     spec.FinalBlocksOnly,
		DebugInitialStoreSnapshotForModules: spec.Debug,
	}
	ctx, cancel := context.WithCancel(context.Background())
	defer cancel()
	rs.cancel = cancel
	ctx = dmetering.WithBytesMeter(ctx)
	ctx = reqctx.WithTier2RequestParameters(ctx, c.Tier2Params())
	ctx = native.WithTag(ctx, "tier1")
	if !spec.NoExecLog {
		native.StartLog()
	}
	if err := service.ValidateTier1Request(req, native.BlockType); err != nil {
		res.Err = fmt.Errorf("validate request: %w", err)
	} else {
		svc := service.TestNewService(rc, spec.Final, rs.tier1StreamFactory)
		// non-final start cursors: on the fork-free chain every block b<n> is canonical (its own junction)
		head := bstream.NewBlockRef(BlockID(c.Head), c.Head)
		svc.VerifSetCursorResolver(func(ctx context.Context, cur *bstream.Cursor) (bstream.BlockRef, bstream.BlockRef, error) {
			if spec.CursorResolver != nil {
				return spec.CursorResolver(ctx, cur)
			}
			if cur.Block.ID() != BlockID(cur.Block.Num()) {
				return nil, nil, fmt.Errorf("harness: block %s is not on the fork-free chain", cur.Block)
			}
			return cur.Block, head, nil
		})
		rs.touch()
		returned := make(chan struct{})
		stuckAfter := spec.StuckAfter
		if stuckAfter == 0 {
			stuckAfter = 45 * time.Second
		}
		go func() {
			t := time.NewTicker(50 * time.Millisecond)
			defer t.Stop()
			for {
				select {
				case <-returned:
					return
				case <-t.C:
					if atomic.LoadInt32(&rs.inFlight) == 0 && time.Since(time.Unix(0, atomic.LoadInt64(&rs.lastAct))) > stuckAfter {
						rs.mu.Lock()
						res.Stuck = true
						rs.mu.Unlock()
						cancel()
						return
					}
				}
			}
		}()
		res.Err = svc.TestBlocks(ctx, false, req, rs.collect)
		close(returned)
		if spec.Stop == 0 && res.Err != nil && strings.Contains(res.Err.Error(), "chain head") && !res.Stuck {
			// an open-ended request lives until the client goes away; here: until the harness's chain has no more blocks
			res.Err = nil
			res.EndedAtHead = c.Head
		}
	}
	rs.mu.Lock()
	rs.closed = true
	rs.mu.Unlock()
	cancel()
	// cancelled jobs may still be unwinding: wait for them so that nothing touches res afterwards
	for i := 0; i < 2000 && atomic.LoadInt32(&rs.inFlight) > 0; i++ {
		time.Sleep(5 * time.Millisecond)
	}
	// let stray goroutines (walker / worker) try to send late messages
	time.Sleep(2 * time.Millisecond)
	if !spec.NoExecLog {
		res.Execs = native.TakeLog()
	}
	rs.mu.Lock()
	rs.sealed = true // from here on only this goroutine reads and writes res.Jobs
	rs.mu.Unlock()
	if rs.ctl != nil {
		rs.ctl.mu.Lock()
		order := append([]int(nil), rs.ctl.order...)
		rs.ctl.mu.Unlock()
		rank := map[int]int{}
		for i, id := range order {
			rank[id] = i + 1
		}
		for i := range res.Jobs {
			res.Jobs[i].Released = rank[res.Jobs[i].Seq]
		}
	}
	sort.Slice(res.Jobs, func(i, j int) bool { return res.Jobs[i].Seq < res.Jobs[j].Seq })
	res.Wall = time.Since(t0)
	return res
}

// ---------------------------------------------------------------- response views

// DataMsg is the client-visible content of one BlockScopedData.
type DataMsg struct {
	Num     uint64
	ID      string
	Payload []byte
	Cursor  string
	Final   uint64
	Raw     *pbsubstreamsrpc.BlockScopedData
}

func (r *Result) Data() []DataMsg {
	var out []DataMsg
	for _, resp := range r.Responses {
		if d := resp.GetBlockScopedData(); d != nil {
			var payload []byte
			if d.Output != nil && d.Output.MapOutput != nil {
				payload = d.Output.MapOutput.Value
			}
			out = append(out, DataMsg{Num: d.Clock.Number, ID: d.Clock.Id, Payload: payload, Cursor: d.Cursor, Final: d.FinalBlockHeight, Raw: d})
		}
	}
	return out
}

func (r *Result) Session() *pbsubstreamsrpc.SessionInit {
	for _, resp := range r.Responses {
		if s := resp.GetSession(); s != nil {
			return s
		}
	}
	return nil
}

func (rs *runState) touch() { atomic.StoreInt64(&rs.lastAct, time.Now().UnixNano()) }
