package sim

import (
	"bytes"
	"context"
	"fmt"
	"os"
	"path/filepath"
	"regexp"
	"sort"
	"strconv"
	"strings"

	"github.com/RoaringBitmap/roaring/roaring64"
	"github.com/streamingfast/bstream"
	"github.com/streamingfast/dstore"
	pbindex "github.com/streamingfast/substreams/pb/sf/substreams/index/v1"
	pbssinternal "github.com/streamingfast/substreams/pb/sf/substreams/intern/v2"
	pboutput "github.com/streamingfast/substreams/storage/execout/pb"
	idxpb "github.com/streamingfast/substreams/storage/index/pb"
	"github.com/streamingfast/substreams/storage/store/marshaller"
	"google.golang.org/protobuf/proto"

	"verif/harness/gen"
	"verif/harness/model"
	"verif/harness/native"
)

// Finding is one monitor verdict.
type Finding struct {
	Sig  string
	What string
}

func finding(sig, format string, a ...any) Finding {
	return Finding{Sig: sig, What: fmt.Sprintf(format, a...)}
}

// ---------------------------------------------------------------- stream monitor (C01 clause 1, C04)

// StreamFacts summarises a checked stream (for evidence counters).
type StreamFacts struct {
	FinalHeightsOK int
	Data         int
	NonEmpty     int
	BelowHandoff int
	OmittedEmpty int
	Handoff      uint64
	Start        uint64
	CursorsOK    int
	LateDropped  int
}

// CheckStream applies the stream clauses to one recorded request.
// prefixOnly: the request was cancelled / expected to fail: only prefix rules apply.
func CheckStream(res *Result, ref *Ref, prefixOnly bool) (out []Finding, facts StreamFacts) {
	spec := res.Spec
	if len(res.Responses) == 0 {
		if res.Err == nil {
			out = append(out, finding("stream/no-session", "request returned nil without any message"))
		}
		return
	}
	sess := res.Responses[0].GetSession()
	if sess == nil {
		out = append(out, finding("stream/first-not-session", "first message is %T, not SessionInit", res.Responses[0].Message))
		sess = res.Session()
		if sess == nil {
			return
		}
	}
	start, handoff := sess.ResolvedStartBlock, sess.LinearHandoffBlock
	facts.Start, facts.Handoff = start, handoff
	if spec.Cursor == "" && spec.Start > 0 && start != uint64(spec.Start) {
		out = append(out, finding("stream/session-start-differs-from-request", "request for start block %d (no cursor): the session announces resolved start block %d", spec.Start, start))
	}
	stop := spec.Stop
	facts.LateDropped = res.Late // attempts after the call returned are dropped by the real handler: observation only
	data := res.Data()
	facts.Data = len(data)
	seen := map[uint64]int{}
	var last uint64
	for i, d := range data {
		if d.Num < start || (stop != 0 && d.Num >= stop) {
			out = append(out, finding("stream/block-out-of-range", "data message for block %d outside requested [%d,%d)", d.Num, start, stop))
		}
		if i > 0 && d.Num <= last {
			out = append(out, finding("stream/not-increasing", "block %d delivered after block %d", d.Num, last))
		}
		last = d.Num
		seen[d.Num]++
		if seen[d.Num] == 2 {
			out = append(out, finding("stream/duplicate-block", "block %d delivered twice", d.Num))
		}
		// cursor and finality
		cur, err := bstream.CursorFromOpaque(d.Cursor)
		if err != nil {
			out = append(out, finding("stream/cursor-undecodable", "block %d: cursor %q: %v", d.Num, d.Cursor, err))
		} else {
			if cur.Block.Num() != d.Num || cur.Block.ID() != d.ID {
				out = append(out, finding("stream/cursor-wrong-block", "block %d (%s): cursor designates %s", d.Num, d.ID, cur.Block))
			} else {
				facts.CursorsOK++
			}
		}
		if d.Final > d.Num {
			out = append(out, finding("stream/final-height-above-block", "block %d has final_block_height %d", d.Num, d.Final))
		}
		if spec.LinearFeed == nil && err == nil {
			// finality as the harness's chain presented it: back-filled blocks come from block files (final themselves);
			// linear blocks carry the last final block known when they were fed
			want := d.Num
			if d.Num >= handoff && !spec.FinalBlocksOnly && d.Num > spec.Final {
				want = spec.Final
				if lag := uint64(spec.LiveLag); lag > 0 && d.Num > lag && d.Num-lag > want {
					want = d.Num - lag
				}
			}
			if d.Final != want {
				out = append(out, finding("stream/final-height-wrong", "block %d carries final_block_height %d, the chain presented it with last final block %d", d.Num, d.Final, want))
			} else {
				facts.FinalHeightsOK++
			}
			if cur.LIB.Num() != d.Final {
				out = append(out, finding("stream/cursor-lib-differs-from-final-height", "block %d: cursor LIB %d, final_block_height %d", d.Num, cur.LIB.Num(), d.Final))
			}
			if (want == d.Num) != cur.IsOnFinalBlock() {
				out = append(out, finding("stream/cursor-finality-wrong", "block %d (last final block %d): cursor step %s, on-final-block=%v", d.Num, want, cur.Step, cur.IsOnFinalBlock()))
			}
		}
		// payload against the sequential reference
		if d.ID != BlockID(d.Num) {
			out = append(out, finding("stream/wrong-block-id", "block %d delivered with id %q, canonical chain has %q", d.Num, d.ID, BlockID(d.Num)))
		}
		var want []byte
		if rb := ref.Blocks[d.Num]; rb != nil {
			want = rb.Payload
		}
		if !bytes.Equal(d.Payload, want) {
			where := "linear"
			if d.Num < handoff {
				where = "backfilled"
			}
			kind := "altered"
			if len(want) == 0 {
				kind = "invented"
			} else if len(d.Payload) == 0 {
				kind = "emptied"
			}
			out = append(out, finding("stream/payload-"+kind+"/"+where, "block %d: payload %q, sequential reference %q", d.Num, trunc(string(d.Payload), 300), trunc(string(want), 300)))
		}
		if len(d.Payload) > 0 {
			facts.NonEmpty++
		}
		if d.Num < handoff {
			facts.BelowHandoff++
		}
	}
	if prefixOnly || res.Err != nil {
		return
	}
	// completeness
	if stop == 0 && res.EndedAtHead > 0 {
		stop = res.EndedAtHead + 1 // open-ended request: everything up to the chain's last block
	}
	if stop == 0 {
		return
	}
	for n := start; n < stop; n++ {
		if seen[n] > 0 {
			continue
		}
		rb := ref.Blocks[n]
		refEmpty := rb == nil || len(rb.Payload) == 0
		switch {
		case n >= handoff:
			out = append(out, finding("stream/gap-in-linear-part", "block %d (>= hand-off %d) was never delivered", n, handoff))
		case !spec.Prod:
			out = append(out, finding("stream/gap-in-dev-mode", "development mode: block %d was never delivered", n))
		case !refEmpty:
			out = append(out, finding("stream/nonempty-block-omitted", "production mode: back-filled block %d with non-empty output %q was never delivered", n, trunc(string(rb.Payload), 200)))
		default:
			facts.OmittedEmpty++
		}
	}
	return
}

func trunc(s string, n int) string {
	if len(s) > n {
		return s[:n] + "..."
	}
	return s
}

// ---------------------------------------------------------------- host-call monitor (C01 clause 2)

// CheckReads compares every store read made by any module execution anywhere
// (tier1 linear or any tier2 job) with the sequential reference.
func CheckReads(execs []native.Exec, ref *Ref) (out []Finding, compared int, execsSeen int) {
	if ref.NoExecInfo {
		return
	}
	for _, ex := range execs {
		if ex.Tag == "ref" {
			continue
		}
		execsSeen++
		rb := ref.Blocks[ex.Num]
		if rb == nil || rb.ID != ex.BlockID {
			continue // outside the reference's range (e.g. the stop block itself)
		}
		if !rb.Executed[ex.Module] {
			out = append(out, finding("reads/executed-where-reference-did-not", "module %s executed on block %d (%s) but the sequential reference did not execute it there", ex.Module, ex.Num, ex.Tag))
			continue
		}
		want := rb.Reads[ex.Module]
		if len(want) != len(ex.Reads) {
			out = append(out, finding("reads/count-differs", "module %s block %d (%s): %d store reads, reference made %d", ex.Module, ex.Num, ex.Tag, len(ex.Reads), len(want)))
			continue
		}
		for i := range want {
			compared++
			if want[i] != ex.Reads[i] {
				out = append(out, finding("reads/value-differs", "module %s block %d (%s): %s ; sequential reference: %s", ex.Module, ex.Num, ex.Tag, ex.Reads[i], want[i]))
				break
			}
		}
	}
	return
}

// ---------------------------------------------------------------- store content comparison

// TypedStore converts a raw snapshot to typed values.
func TypedStore(p model.Pair, s StoreSnap) (map[string]string, error) {
	out := map[string]string{}
	for k, v := range s.KV {
		out[k] = native.Norm(p.Policy, p.VT, v)
		if strings.HasPrefix(out[k], "?") {
			return nil, fmt.Errorf("key %q holds %q which is not a %s", k, v, p.VT)
		}
	}
	return out, nil
}

func DiffTyped(a, b map[string]string) string {
	keys := map[string]bool{}
	for k := range a {
		keys[k] = true
	}
	for k := range b {
		keys[k] = true
	}
	var ks []string
	for k := range keys {
		ks = append(ks, k)
	}
	sort.Strings(ks)
	for _, k := range ks {
		va, oka := a[k]
		vb, okb := b[k]
		if oka != okb || va != vb {
			return fmt.Sprintf("key %q: %s vs %s", k, orAbsent(va, oka), orAbsent(vb, okb))
		}
	}
	return ""
}

func orAbsent(v string, ok bool) string {
	if !ok {
		return "absent"
	}
	return v
}

// RefStoreAt returns the reference content of a store after block n-1.
func (r *Ref) RefStoreAt(name string, n uint64) StoreSnap {
	if n == 0 || n-1 < r.L {
		return StoreSnap{KV: map[string][]byte{}}
	}
	m := n - 1
	if m >= r.Stop {
		m = r.Stop - 1
	}
	if rb := r.Blocks[m]; rb != nil {
		if s, ok := rb.Stores[name]; ok {
			return s
		}
	}
	return StoreSnap{KV: map[string][]byte{}}
}

// CheckHandoffStores compares the stores handed to the linear phase with the reference.
func CheckHandoffStores(res *Result, ref *Ref, pkg *gen.Pkg) (out []Finding, compared int) {
	if res.HandoffStores == nil {
		return
	}
	at := uint64(res.HandoffStart)
	if at > ref.Stop {
		return
	}
	for name, snap := range res.HandoffStores {
		pr := pkg.Progs[name]
		if pr == nil {
			continue
		}
		pair := model.Pair{Policy: pr.Policy, VT: pr.VT}
		got, err := TypedStore(pair, snap)
		if err != nil {
			out = append(out, finding("handoff-store/untyped", "store %s at hand-off %d: %v", name, at, err))
			continue
		}
		want, _ := TypedStore(pair, ref.RefStoreAt(name, at))
		compared++
		if d := DiffTyped(got, want); d != "" {
			out = append(out, finding("handoff-store/content-differs", "store %s (%s) at hand-off block %d differs from the sequential reference (got vs reference): %s", name, pair, at, d))
		}
		var real uint64
		for k, v := range snap.KV {
			real += uint64(len(k) + len(v))
		}
		if real != snap.Size {
			out = append(out, finding("handoff-store/size-drift", "store %s at hand-off %d reports SizeBytes()=%d, content totals %d", name, at, snap.Size, real))
		}
	}
	return
}

// ---------------------------------------------------------------- cache auditor

var (
	reKV      = regexp.MustCompile(`^(\d{10})-(\d{10})\.kv$`)
	rePartial = regexp.MustCompile(`^(\d{10})-(\d{10})\.partial$`)
	reOutput  = regexp.MustCompile(`^(\d{10})-(\d{10})\.output$`)
	reIndex   = regexp.MustCompile(`^(\d{10})-(\d{10})\.index$`)
)

// AuditFacts counts what the auditor looked at.
type AuditFacts struct {
	KV, Partial, Output, StoreOutput, Index, Items int
}

// CacheFile is one file of the state store.
type CacheFile struct {
	Rel  string // <hash>/<states|outputs|index>/<name>
	Hash string
	Sub  string
	Name string
}

// ListCache lists every file under the tagged state store.
func (c *Cluster) ListCache() []CacheFile {
	root := filepath.Join(c.Dir, c.Tag)
	var out []CacheFile
	filepath.Walk(root, func(path string, info os.FileInfo, err error) error {
		if err != nil || info.IsDir() {
			return nil
		}
		rel, _ := filepath.Rel(root, path)
		parts := strings.Split(rel, string(filepath.Separator))
		cf := CacheFile{Rel: rel}
		if len(parts) == 3 {
			cf.Hash, cf.Sub, cf.Name = parts[0], parts[1], parts[2]
		} else if len(parts) == 2 {
			cf.Hash, cf.Name = parts[0], parts[1]
		} else {
			cf.Name = rel
		}
		out = append(out, cf)
		return nil
	})
	sort.Slice(out, func(i, j int) bool { return out[i].Rel < out[j].Rel })
	return out
}

func atou(s string) uint64 { v, _ := strconv.ParseUint(s, 10, 64); return v }

// AuditCache decodes every file left in the state store and compares it with
// the canonical content derived from the sequential reference.
// maxBlock: files reaching beyond it are not comparable with the reference.
func (c *Cluster) AuditCache(ref *Ref, pkg *gen.Pkg) (out []Finding, facts AuditFacts) {
	hashes := ref.Graph.ModuleHashes()
	byHash := map[string]string{}
	for _, m := range ref.Graph.UsedModules() {
		byHash[hashes.Get(m.Name)] = m.Name
	}
	root := filepath.Join(c.Dir, c.Tag)
	ds, err := dstore.NewStore(root, "zst", "zstd", false)
	if err != nil {
		return []Finding{finding("audit/store-unopenable", "%v", err)}, facts
	}
	read := func(rel string) ([]byte, error) {
		r, err := ds.OpenObject(context.Background(), strings.TrimSuffix(rel, ".zst"))
		if err != nil {
			return nil, err
		}
		defer r.Close()
		var buf bytes.Buffer
		_, err = buf.ReadFrom(r)
		return buf.Bytes(), err
	}
	for _, f := range c.ListCache() {
		name := strings.TrimSuffix(f.Name, ".zst")
		if name == "substreams.partial.spkg" || strings.Contains(name, ".tmp") {
			continue
		}
		mod, known := byHash[f.Hash]
		if !known {
			// another output module's graph may have other hashes; not comparable with this reference
			continue
		}
		kind := pkg.Kind[mod]
		init := ref.Graph.ModulesInitBlocks()[mod]
		switch {
		case f.Sub == "states" && reKV.MatchString(name):
			m := reKV.FindStringSubmatch(name)
			end, start := atou(m[1]), atou(m[2])
			facts.KV++
			if kind != "store" {
				out = append(out, finding("audit/kv-for-non-store", "%s: store snapshot for %s module %s", f.Rel, kind, mod))
				continue
			}
			if start != init {
				out = append(out, finding("audit/kv-wrong-start", "%s: full snapshot of %s starts at %d, module initial block is %d", f.Rel, mod, start, init))
				continue
			}
			if end > ref.Stop || end <= start {
				if end <= start {
					out = append(out, finding("audit/kv-empty-range", "%s: full snapshot with end %d <= start %d", f.Rel, end, start))
				}
				continue
			}
			b, err := read(f.Rel)
			if err != nil {
				out = append(out, finding("audit/unreadable", "%s: %v", f.Rel, err))
				continue
			}
			sd, _, err := marshaller.Default().Unmarshal(b)
			if err != nil {
				out = append(out, finding("audit/kv-undecodable", "%s: %v", f.Rel, err))
				continue
			}
			pr := pkg.Progs[mod]
			pair := model.Pair{Policy: pr.Policy, VT: pr.VT}
			got, err := TypedStore(pair, StoreSnap{KV: sd.Kv})
			if err != nil {
				out = append(out, finding("audit/kv-untyped", "%s: %v", f.Rel, err))
				continue
			}
			want, _ := TypedStore(pair, ref.RefStoreAt(mod, end))
			if d := DiffTyped(got, want); d != "" {
				out = append(out, finding("audit/kv-content-differs", "%s: snapshot of %s (%s) up to block %d differs from the sequential reference (file vs reference): %s", f.Rel, mod, pair, end, d))
			}
		case f.Sub == "states" && rePartial.MatchString(name):
			m := rePartial.FindStringSubmatch(name)
			end, start := atou(m[1]), atou(m[2])
			facts.Partial++
			if kind != "store" {
				out = append(out, finding("audit/partial-for-non-store", "%s", f.Rel))
				continue
			}
			segStart := start - start%c.SegSize
			okStart := start%c.SegSize == 0 || start == init
			okEnd := end%c.SegSize == 0 && end == segStart+c.SegSize
			if !okStart || (!okEnd && end <= ref.Stop) {
				// an end clipped at the request's hand-off is possible only at a boundary; report anything else
				out = append(out, finding("audit/partial-odd-range", "%s: partial [%d,%d) of %s (init %d) is not a segment of size %d", f.Rel, start, end, mod, init, c.SegSize))
			}
			b, err := read(f.Rel)
			if err != nil {
				out = append(out, finding("audit/unreadable", "%s: %v", f.Rel, err))
				continue
			}
			if _, _, err := marshaller.Default().Unmarshal(b); err != nil {
				out = append(out, finding("audit/partial-undecodable", "%s: %v", f.Rel, err))
			}
		case f.Sub == "outputs" && reOutput.MatchString(name):
			m := reOutput.FindStringSubmatch(name)
			start, end := atou(m[1]), atou(m[2])
			b, err := read(f.Rel)
			if err != nil {
				out = append(out, finding("audit/unreadable", "%s: %v", f.Rel, err))
				continue
			}
			mp := &pboutput.Map{}
			if err := mp.UnmarshalFast(b); err != nil {
				out = append(out, finding("audit/output-undecodable", "%s: %v", f.Rel, err))
				continue
			}
			if kind == "store" {
				facts.StoreOutput++
			} else {
				facts.Output++
			}
			if end <= start {
				out = append(out, finding("audit/output-empty-range", "%s", f.Rel))
				continue
			}
			present := map[uint64]bool{}
			bad := false
			for key, it := range mp.Kv {
				facts.Items++
				if it.BlockNum < start || it.BlockNum >= end {
					out = append(out, finding("audit/output-item-out-of-range", "%s: item for block %d outside [%d,%d)", f.Rel, it.BlockNum, start, end))
					bad = true
					continue
				}
				if key != it.BlockId || it.BlockId != BlockID(it.BlockNum) {
					out = append(out, finding("audit/output-item-wrong-id", "%s: item key %q block id %q for block %d", f.Rel, key, it.BlockId, it.BlockNum))
					bad = true
					continue
				}
				if it.Timestamp == nil || !it.Timestamp.AsTime().Equal(BlockTime(it.BlockNum)) {
					out = append(out, finding("audit/output-item-wrong-timestamp", "%s: block %d timestamp %v", f.Rel, it.BlockNum, it.Timestamp))
				}
				present[it.BlockNum] = true
				rb := ref.Blocks[it.BlockNum]
				if rb == nil {
					continue
				}
				if !rb.Executed[mod] && !ref.NoExecInfo {
					out = append(out, finding("audit/output-item-for-unexecuted-block", "%s: item for block %d, on which the reference did not execute %s", f.Rel, it.BlockNum, mod))
					bad = true
					continue
				}
				if kind == "store" {
					ops := &pbssinternal.Operations{}
					if err := proto.Unmarshal(it.Payload, ops); err != nil {
						out = append(out, finding("audit/store-output-undecodable", "%s: block %d: %v", f.Rel, it.BlockNum, err))
						bad = true
					}
					continue
				}
				if want, known := rb.MapOut[mod]; ref.NoExecInfo && !known {
					_ = want
					continue
				}
				if !bytes.Equal(it.Payload, rb.MapOut[mod]) {
					out = append(out, finding("audit/output-payload-differs", "%s: block %d payload %q, sequential reference %q", f.Rel, it.BlockNum, trunc(string(it.Payload), 200), trunc(string(rb.MapOut[mod]), 200)))
					bad = true
				}
			}
			if bad || ref.NoExecInfo {
				continue
			}
			// completeness: every block of the range on which the reference executed the module with a kept output
			pr := pkg.Progs[mod]
			for n := start; n < end && n < ref.Stop; n++ {
				rb := ref.Blocks[n]
				if rb == nil || !rb.Executed[mod] || present[n] {
					continue
				}
				if kind != "store" && pr.SkipEmpty && len(rb.MapOut[mod]) == 0 {
					continue // willfully skipped output
				}
				out = append(out, finding("audit/output-item-missing", "%s: no item for block %d although the reference executed %s there (output %q)", f.Rel, n, mod, trunc(string(rb.MapOut[mod]), 100)))
				break
			}
		case f.Sub == "index" && reIndex.MatchString(name):
			m := reIndex.FindStringSubmatch(name)
			start, end := atou(m[1]), atou(m[2])
			facts.Index++
			b, err := read(f.Rel)
			if err != nil {
				out = append(out, finding("audit/unreadable", "%s: %v", f.Rel, err))
				continue
			}
			pbm := &idxpb.Map{}
			if err := proto.Unmarshal(b, pbm); err != nil {
				out = append(out, finding("audit/index-undecodable", "%s: %v", f.Rel, err))
				continue
			}
			got := map[string][]uint64{}
			for k, raw := range pbm.Indexes {
				bm := roaring64.New()
				if _, err := bm.FromUnsafeBytes(append([]byte(nil), raw...)); err != nil {
					out = append(out, finding("audit/index-bitmap-undecodable", "%s: key %q: %v", f.Rel, k, err))
					continue
				}
				got[k] = bm.ToArray()
			}
			want := map[string][]uint64{}
			for n := start; n < end && n < ref.Stop; n++ {
				rb := ref.Blocks[n]
				if rb == nil || !rb.Executed[mod] {
					continue
				}
				keys := &pbindex.Keys{}
				if err := proto.Unmarshal(rb.MapOut[mod], keys); err != nil {
					continue
				}
				for _, k := range keys.Keys {
					want[k] = append(want[k], n)
				}
			}
			if end <= ref.Stop && !ref.NoExecInfo && fmt.Sprint(got) != fmt.Sprint(want) {
				out = append(out, finding("audit/index-content-differs", "%s: index %v, sequential reference %v", f.Rel, got, want))
			}
		default:
			out = append(out, finding("audit/unknown-file", "%s: unexpected file in the state store", f.Rel))
		}
	}
	return
}

// CheckInitialSnapshots compares the initial store snapshots a development-mode request asked for
// (debug_initial_store_snapshot_for_modules) with the reference content just before the first
// delivered block of the linear phase.
func CheckInitialSnapshots(res *Result, ref *Ref, pkg *gen.Pkg) (out []Finding, compared int) {
	if len(res.Spec.Debug) == 0 || res.Err != nil {
		return
	}
	sess := res.Session()
	if sess == nil {
		return
	}
	gate := sess.ResolvedStartBlock
	if sess.LinearHandoffBlock > gate {
		gate = sess.LinearHandoffBlock
	}
	if res.Spec.Stop != 0 && gate >= res.Spec.Stop {
		return // no linear phase, no snapshot
	}
	got := map[string]map[string][]byte{}
	complete := false
	for _, r := range res.Responses {
		if d := r.GetDebugSnapshotData(); d != nil {
			m := got[d.ModuleName]
			if m == nil {
				m = map[string][]byte{}
				got[d.ModuleName] = m
			}
			for _, dl := range d.Deltas {
				m[dl.Key] = dl.NewValue
			}
		}
		if r.GetDebugSnapshotComplete() != nil {
			complete = true
		}
	}
	if !complete {
		out = append(out, finding("snapshot/never-completed", "initial snapshots were requested for %v but no snapshot-complete message was sent", res.Spec.Debug))
		return
	}
	for _, name := range res.Spec.Debug {
		pr := pkg.Progs[name]
		if pr == nil {
			continue
		}
		pair := model.Pair{Policy: pr.Policy, VT: pr.VT}
		snap := StoreSnap{KV: got[name]}
		if snap.KV == nil {
			snap.KV = map[string][]byte{}
		}
		g, err := TypedStore(pair, snap)
		if err != nil {
			out = append(out, finding("snapshot/untyped", "initial snapshot of %s: %v", name, err))
			continue
		}
		w, _ := TypedStore(pair, ref.RefStoreAt(name, gate))
		compared++
		if d := DiffTyped(g, w); d != "" {
			out = append(out, finding("snapshot/content-differs", "initial snapshot of store %s (%s) sent before block %d differs from the sequential reference (got vs reference): %s", name, pair, gate, d))
		}
	}
	return
}

// CheckDebugOutputs compares, for development-mode requests, the per-block debug outputs of every
// module (map outputs, store deltas) delivered with the linear blocks against the sequential reference.
func CheckDebugOutputs(res *Result, ref *Ref, pkg *gen.Pkg) (out []Finding, compared int) {
	if res.Spec.Prod || ref.NoExecInfo {
		return
	}
	for _, d := range res.Data() {
		rb := ref.Blocks[d.Num]
		if rb == nil || rb.ID != d.ID {
			continue
		}
		for _, mo := range d.Raw.DebugMapOutputs {
			if mo.MapOutput == nil {
				continue
			}
			compared++
			if !bytes.Equal(mo.MapOutput.Value, rb.MapOut[mo.Name]) {
				out = append(out, finding("debug-output/map-differs", "block %d: debug output of module %s is %q, sequential reference %q", d.Num, mo.Name, trunc(string(mo.MapOutput.Value), 200), trunc(string(rb.MapOut[mo.Name]), 200)))
				return
			}
		}
		for _, so := range d.Raw.DebugStoreOutputs {
			pr := pkg.Progs[so.Name]
			if pr == nil {
				continue
			}
			want := rb.Deltas[so.Name]
			compared++
			if len(want) != len(so.DebugStoreDeltas) {
				out = append(out, finding("debug-output/delta-count-differs", "block %d: store %s reports %d deltas, sequential reference %d", d.Num, so.Name, len(so.DebugStoreDeltas), len(want)))
				return
			}
			for i, g := range so.DebugStoreDeltas {
				w := want[i]
				if g.Operation != w.Operation || g.Ordinal != w.Ordinal || g.Key != w.Key ||
					native.Norm(pr.Policy, pr.VT, g.OldValue) != native.Norm(pr.Policy, pr.VT, w.OldValue) ||
					native.Norm(pr.Policy, pr.VT, g.NewValue) != native.Norm(pr.Policy, pr.VT, w.NewValue) {
					out = append(out, finding("debug-output/delta-differs", "block %d: store %s delta %d is {%v ord=%d key=%q %q->%q}, sequential reference {%v ord=%d key=%q %q->%q}", d.Num, so.Name, i,
						g.Operation, g.Ordinal, g.Key, g.OldValue, g.NewValue, w.Operation, w.Ordinal, w.Key, w.OldValue, w.NewValue))
					return
				}
			}
		}
	}
	return
}
