// Package native is a harness-side module runtime ("verifnative") registered
// through the exported wasm.RegisterModuleFactory. The "binary" of a package is
// a JSON table entrypoint -> Program; programs are small pure functions of the
// values the engine hands them, and talk to the engine only through the real
// host interface wasm.Call.Do*. Every store read a program makes is recorded.
package native

import (
	"context"
	"encoding/json"
	"fmt"
	"hash/fnv"
	"sort"
	"strconv"
	"strings"
	"sync"

	pbindex "github.com/streamingfast/substreams/pb/sf/substreams/index/v1"
	pbsubstreams "github.com/streamingfast/substreams/pb/sf/substreams/v1"
	pbsubstreamstest "github.com/streamingfast/substreams/pb/sf/substreams/v1/test"
	"github.com/streamingfast/substreams/wasm"
	"google.golang.org/protobuf/proto"

	"verif/harness/model"
)

const RuntimeName = "verifnative"
const BlockType = "sf.substreams.v1.test.Block"
const ClockType = "sf.substreams.v1.Clock"

func init() {
	wasm.RegisterModuleFactory(RuntimeName, wasm.ModuleFactoryFunc(newModule))
}

// InSpec mirrors one input of the module, in order.
type InSpec struct {
	Kind   string `json:"kind"` // source | clock | map | deltas | store | params
	Name   string `json:"name,omitempty"`
	Policy string `json:"policy,omitempty"` // of the referenced store (deltas / store)
	VT     string `json:"vt,omitempty"`
}

// Lookup is one store read made by a program for every kept event.
type Lookup struct {
	Store int    `json:"store"` // index among the module's store-reader inputs
	Mode  string `json:"mode"`  // get_first get_last get_at has_first has_last has_at
	Ord   int    `json:"ord"`   // -1: use the event's ordinal
	Key   int    `json:"key"`   // -1: the event's key; else fixed key index
}

// Program is what a module does on each block.
type Program struct {
	Kind      string   `json:"kind"` // map | store | index
	Seed      uint64   `json:"seed"` // chain seed: block id -> events
	Inputs    []InSpec `json:"inputs"`
	TagMask   uint8    `json:"tagmask"` // keep events whose tag bit is set
	KeyMask   uint8    `json:"keymask"`
	Mul       int      `json:"mul"`
	Add       int      `json:"add"`
	Lookups   []Lookup `json:"lookups,omitempty"`
	Affects   bool     `json:"affects,omitempty"` // lookup results alter the emitted values
	SkipEmpty bool     `json:"skipempty,omitempty"`
	FailAt    int64    `json:"failat"` // block number at which the module panics deterministically (-1: never)
	// store
	Policy string `json:"policy,omitempty"`
	VT     string `json:"vt,omitempty"`
	DelTag int    `json:"deltag"` // events with this tag become delete_prefix (-1: never)
	SetTag int    `json:"settag"` // set_sum: events with this tag use "set:"
}

type Event struct {
	K int
	V int
	T int
	O uint64
}

func (e Event) Line() string { return fmt.Sprintf("e:%d,%d,%d,%d", e.K, e.V, e.T, e.O) }

var Keys = []string{"a:1", "a:2", "a:3", "b:1", "b:2", "c"}
var prefixes = []string{"a:", "a:", "a:3", "b:", "b:2", "c"}

func h64(parts ...string) uint64 {
	h := fnv.New64a()
	for _, p := range parts {
		h.Write([]byte(p))
		h.Write([]byte{0})
	}
	x := h.Sum64()
	// finalizer (fnv has weak low bits for short inputs)
	x ^= x >> 33
	x *= 0xff51afd7ed558ccd
	x ^= x >> 33
	return x
}

// BlockEvents derives the payload of a block from (chain seed, block id).
func BlockEvents(seed uint64, id string, num uint64) []Event {
	x := h64(strconv.FormatUint(seed, 10), id)
	n := int(x % 4) // 0..3 events; a quarter of the blocks carry nothing
	x >>= 2
	out := make([]Event, 0, n)
	for i := 0; i < n; i++ {
		y := h64(strconv.FormatUint(x, 10), strconv.Itoa(i))
		out = append(out, Event{K: int(y % 6), V: int((y>>8)%17) - 8, T: int((y >> 16) % 4), O: (y >> 24) % 6})
	}
	return out
}

// Norm renders a store value in a byte-format independent way.
func Norm(policy, vt string, raw []byte) string {
	p := model.Pair{Policy: policy, VT: vt}
	if !p.Numeric() {
		return "x" + fmt.Sprintf("%x", raw)
	}
	if policy == "set_sum" && len(raw) >= 4 && (string(raw[:4]) == "sum:" || string(raw[:4]) == "set:") {
		raw = raw[4:] // deltas carry the tag; reads do not
	}
	n, err := model.ParseNum(p, raw)
	if err != nil {
		return "?" + fmt.Sprintf("%x", raw)
	}
	return n.RatString()
}

func small(s string) int { return int(h64(s)%5) - 2 }

// ---------------------------------------------------------------- call log

// Read is one recorded store read.
type Read struct {
	Desc string // "<store>.<mode>(<ord>,<key>)=<normalized value|absent>"
}

// Exec is one execution of a module on a block.
type Exec struct {
	Tag     string
	Module  string
	BlockID string
	Num     uint64
	Reads   []string
	Writes  int
}

type ctxKey struct{}

// WithTag attaches an execution tag (request / job identity) to ctx.
func WithTag(ctx context.Context, tag string) context.Context {
	return context.WithValue(ctx, ctxKey{}, tag)
}

func TagOf(ctx context.Context) string {
	if v, ok := ctx.Value(ctxKey{}).(string); ok {
		return v
	}
	return ""
}

var (
	logMu   sync.Mutex
	execLog []Exec
	logOn   bool
)

func StartLog() {
	logMu.Lock()
	execLog = nil
	logOn = true
	logMu.Unlock()
}

// TakeLog returns and clears the recorded executions.
func TakeLog() []Exec {
	logMu.Lock()
	defer logMu.Unlock()
	out := execLog
	execLog = nil
	return out
}

func StopLog() {
	logMu.Lock()
	logOn = false
	execLog = nil
	logMu.Unlock()
}

// ---------------------------------------------------------------- runtime

type module struct {
	progs map[string]*Program
}

type instance struct{}

func (instance) Cleanup(context.Context) error { return nil }
func (instance) Close(context.Context) error   { return nil }

func newModule(ctx context.Context, code []byte, codeType string, registry *wasm.Registry) (wasm.Module, error) {
	m := &module{progs: map[string]*Program{}}
	if err := json.Unmarshal(code, &m.progs); err != nil {
		return nil, fmt.Errorf("verifnative: binary is not a program table: %w", err)
	}
	return m, nil
}

func (m *module) NewInstance(ctx context.Context) (wasm.Instance, error) { return instance{}, nil }
func (m *module) Close(ctx context.Context) error                        { return nil }

func (m *module) ExecuteNewCall(ctx context.Context, call *wasm.Call, cached wasm.Instance, arguments []wasm.Argument, argValues map[string][]byte) (inst wasm.Instance, err error) {
	prog := m.progs[call.Entrypoint]
	if prog == nil {
		return nil, fmt.Errorf("verifnative: no entrypoint %q", call.Entrypoint)
	}
	defer func() {
		if r := recover(); r != nil {
			err = fmt.Errorf("verifnative: host call panicked: %v", r)
		}
	}()
	if err := run(ctx, prog, call, arguments, argValues); err != nil {
		return nil, err
	}
	return instance{}, nil
}

func parseLines(b []byte) (events []Event) {
	for _, ln := range strings.Split(string(b), "\n") {
		if !strings.HasPrefix(ln, "e:") {
			continue
		}
		f := strings.Split(ln[2:], ",")
		if len(f) != 4 {
			continue
		}
		k, _ := strconv.Atoi(f[0])
		v, _ := strconv.Atoi(f[1])
		t, _ := strconv.Atoi(f[2])
		o, _ := strconv.ParseUint(f[3], 10, 64)
		events = append(events, Event{K: k, V: v, T: t, O: o})
	}
	return
}

func keyIndex(key string) int {
	for i, k := range Keys {
		if k == key {
			return i
		}
	}
	return int(h64(key) % 6)
}

func clamp(v int) int {
	for v > 8 {
		v -= 17
	}
	for v < -8 {
		v += 17
	}
	return v
}

func run(ctx context.Context, p *Program, call *wasm.Call, arguments []wasm.Argument, argValues map[string][]byte) error {
	clock := call.Clock
	if p.FailAt >= 0 && clock.Number == uint64(p.FailAt) {
		call.SetPanicError(fmt.Sprintf("verif: deterministic failure of %s at block %d", call.ModuleName, clock.Number), "prog.rs", 1, 1)
		return fmt.Errorf("wasm trap: unreachable")
	}
	ex := Exec{Tag: TagOf(ctx), Module: call.ModuleName, BlockID: clock.Id, Num: clock.Number}

	var events []Event
	add := p.Add
	type storeIn struct {
		idx  int
		spec InSpec
	}
	var stores []storeIn
	storeIdx := 0
	for i, arg := range arguments {
		var spec InSpec
		if i < len(p.Inputs) {
			spec = p.Inputs[i]
		}
		switch a := arg.(type) {
		case *wasm.SourceInput:
			val := argValues[a.Name()]
			if val == nil {
				continue
			}
			if a.Name() == ClockType {
				events = append(events, Event{K: int(clock.Number % 6), V: int(clock.Number%5) - 2, T: int(clock.Number % 4), O: clock.Number % 6})
				continue
			}
			blk := &pbsubstreamstest.Block{}
			if err := proto.Unmarshal(val, blk); err != nil {
				return fmt.Errorf("decoding block: %w", err)
			}
			events = append(events, BlockEvents(p.Seed, blk.Id, blk.Number)...)
		case *wasm.MapInput:
			val := argValues[a.Name()]
			if val == nil {
				continue // skipped upstream output
			}
			if spec.Kind == "deltas" {
				deltas := &pbsubstreams.StoreDeltas{}
				if err := proto.Unmarshal(val, deltas); err != nil {
					return fmt.Errorf("decoding deltas of %s: %w", a.Name(), err)
				}
				for _, d := range deltas.StoreDeltas {
					raw := d.NewValue
					if d.Operation == pbsubstreams.StoreDelta_DELETE {
						raw = d.OldValue
					}
					events = append(events, Event{K: keyIndex(d.Key), V: small(Norm(spec.Policy, spec.VT, raw)), T: int(d.Operation) % 4, O: d.Ordinal % 6})
				}
				continue
			}
			events = append(events, parseLines(val)...)
		case *wasm.StoreReaderInput:
			stores = append(stores, storeIn{idx: storeIdx, spec: spec})
			storeIdx++
		case *wasm.ParamsInput:
			add += int(h64(string(a.Value())) % 5)
		case *wasm.StoreWriterOutput:
		}
	}

	if len(arguments) == 1 || (p.Kind == "store" && len(arguments) == 2) {
		if _, only := arguments[0].(*wasm.ParamsInput); only { // params-only module: it still gets the clock
			events = append(events, Event{K: int(clock.Number % 6), V: int(clock.Number%7) - 3, T: int(clock.Number % 4), O: clock.Number % 6})
		}
	}

	// select and transform
	kept := events[:0:0]
	for _, e := range events {
		if (p.TagMask>>uint(e.T&7))&1 == 0 || (p.KeyMask>>uint(e.K&7))&1 == 0 {
			continue
		}
		e.V = clamp(e.V*p.Mul + add)
		kept = append(kept, e)
	}

	// store lookups
	var lookupLines []string
	for ei := range kept {
		e := &kept[ei]
		for _, lk := range p.Lookups {
			if lk.Store >= len(stores) {
				continue
			}
			st := stores[lk.Store]
			key := Keys[e.K%6]
			if lk.Key >= 0 {
				key = Keys[lk.Key%6]
			}
			ord := e.O
			if lk.Ord >= 0 {
				ord = uint64(lk.Ord)
			}
			var res string
			switch lk.Mode {
			case "get_first":
				v, f := call.DoGetFirst(st.idx, key)
				res = rd(st.spec, v, f)
			case "get_last":
				v, f := call.DoGetLast(st.idx, key)
				res = rd(st.spec, v, f)
			case "get_at":
				v, f := call.DoGetAt(st.idx, ord, key)
				res = rd(st.spec, v, f)
			case "has_first":
				res = strconv.FormatBool(call.DoHasFirst(st.idx, key))
			case "has_last":
				res = strconv.FormatBool(call.DoHasLast(st.idx, key))
			case "has_at":
				res = strconv.FormatBool(call.DoHasAt(st.idx, ord, key))
			}
			line := fmt.Sprintf("g:%s.%s(%d,%s)=%s", st.spec.Name, lk.Mode, ord, key, res)
			ex.Reads = append(ex.Reads, line)
			lookupLines = append(lookupLines, line)
			if p.Affects {
				e.V = clamp(e.V + small(res))
			}
		}
	}

	switch p.Kind {
	case "map":
		var lines []string
		for _, e := range kept {
			lines = append(lines, e.Line())
		}
		lines = append(lines, lookupLines...)
		if p.SkipEmpty {
			call.SkipEmptyOutput()
		}
		if len(lines) > 0 {
			call.SetReturnValue([]byte(strings.Join(lines, "\n")))
		}
	case "index":
		set := map[string]bool{}
		for _, e := range kept {
			set["t"+strconv.Itoa(e.T)] = true
			set["k"+strconv.Itoa(e.K)] = true
		}
		var keys []string
		for k := range set {
			keys = append(keys, k)
		}
		sort.Strings(keys)
		b, err := proto.Marshal(&pbindex.Keys{Keys: keys})
		if err != nil {
			return err
		}
		call.SetReturnValue(b)
	case "store":
		pair := model.Pair{Policy: p.Policy, VT: p.VT}
		for _, e := range kept {
			if p.DelTag >= 0 && e.T == p.DelTag {
				call.DoDeletePrefix(e.O, prefixes[e.K%6])
				ex.Writes++
				continue
			}
			issue(call, pair, e, p.SetTag >= 0 && e.T == p.SetTag)
			ex.Writes++
		}
	default:
		return fmt.Errorf("verifnative: unknown program kind %q", p.Kind)
	}

	logMu.Lock()
	if logOn {
		execLog = append(execLog, ex)
	}
	logMu.Unlock()
	return nil
}

func rd(spec InSpec, v []byte, found bool) string {
	if !found {
		return "absent"
	}
	return Norm(spec.Policy, spec.VT, v)
}

// issue performs the write of one event on the output store through the host interface.
func issue(call *wasm.Call, p model.Pair, e Event, set bool) {
	key := Keys[e.K%6]
	switch p.Policy {
	// byte arguments reach the host functions as a view of guest memory that the guest reuses after the call:
	// the buffer is overwritten as soon as the call returns (see rs.poison)
	case "set":
		v := []byte(fmt.Sprintf("v%d", e.V))
		call.DoSet(e.O, key, v)
		poison(v)
	case "set_if_not_exists":
		v := []byte(fmt.Sprintf("v%d", e.V))
		call.DoSetIfNotExists(e.O, key, v)
		poison(v)
	case "append":
		v := []byte(fmt.Sprintf("%d;", e.V))
		call.DoAppend(e.O, key, v)
		poison(v)
	default:
		var s string
		var f float64
		var i int64
		switch p.VT {
		case "int64":
			i = int64(e.V)
			s = strconv.FormatInt(i, 10)
		case "bigint":
			s = strconv.Itoa(e.V)
			if e.T == 2 {
				s += "00000000000000000000"
			}
		case "float64":
			f = float64(e.V) / 16
			s = strconv.FormatFloat(f, 'g', -1, 64)
		default:
			s = fmt.Sprintf("%d.%03d", e.V/8, (abs(e.V)%8)*125)
			if e.V < 0 && e.V/8 == 0 {
				s = "-" + s
			}
		}
		switch p.Policy {
		case "add":
			switch p.VT {
			case "int64":
				call.DoAddInt64(e.O, key, i)
			case "float64":
				call.DoAddFloat64(e.O, key, f)
			case "bigint":
				call.DoAddBigInt(e.O, key, s)
			default:
				call.DoAddBigDecimal(e.O, key, s)
			}
		case "min":
			switch p.VT {
			case "int64":
				call.DoSetMinInt64(e.O, key, i)
			case "float64":
				call.DoSetMinFloat64(e.O, key, f)
			case "bigint":
				call.DoSetMinBigInt(e.O, key, s)
			default:
				call.DoSetMinBigDecimal(e.O, key, s)
			}
		case "max":
			switch p.VT {
			case "int64":
				call.DoSetMaxInt64(e.O, key, i)
			case "float64":
				call.DoSetMaxFloat64(e.O, key, f)
			case "bigint":
				call.DoSetMaxBigInt(e.O, key, s)
			default:
				call.DoSetMaxBigDecimal(e.O, key, s)
			}
		case "set_sum":
			pre := "sum:"
			if set {
				pre = "set:"
			}
			switch p.VT {
			case "int64":
				call.DoSetSumInt64(e.O, key, pre+s)
			case "float64":
				call.DoSetSumFloat64(e.O, key, pre+s)
			case "bigint":
				call.DoSetSumBigInt(e.O, key, pre+s)
			default:
				call.DoSetSumBigDecimal(e.O, key, pre+s)
			}
		}
	}
}

func abs(x int) int {
	if x < 0 {
		return -x
	}
	return x
}


func poison(b []byte) {
	for i := range b {
		b[i] = '?'
	}
}
