// Package gen holds the PRNG-driven workload generators.
package gen

import (
	"fmt"
	"math/big"
	"math/rand"

	"verif/harness/model"
)

// Keys is the small prefix-structured key space used by the store workloads.
var Keys = []string{"a:1", "a:2", "a:3", "b:1", "b:2", "c"}

// Prefixes are the delete_prefix arguments used.
var Prefixes = []string{"a:", "b:", "a:1", "c", "a", "zz"}

// StoreOps generates operations for one (policy, value type) pair.
type StoreOps struct {
	R        *rand.Rand
	Pair     model.Pair
	MaxOrd   int     // ordinals are drawn from 0..MaxOrd
	DelProb  float64 // probability that an op is a delete_prefix
	AllowAll bool    // allow delete_prefix("") (everything)
	BigVals  bool    // occasionally use large byte values (size accounting)
}

func NewStoreOps(r *rand.Rand, p model.Pair) *StoreOps {
	return &StoreOps{R: r, Pair: p, MaxOrd: 5, DelProb: 0.15}
}

func (g *StoreOps) num() *big.Rat {
	r := g.R
	switch g.Pair.VT {
	case "int64":
		return big.NewRat(int64(r.Intn(101)-50), 1)
	case "bigint":
		if r.Intn(6) == 0 {
			z, _ := new(big.Int).SetString("100000000000000000000", 10)
			z.Mul(z, big.NewInt(int64(r.Intn(7)-3)))
			return new(big.Rat).SetInt(z)
		}
		return big.NewRat(int64(r.Intn(101)-50), 1)
	case "float64":
		// multiples of 1/16 with small magnitude: all sums are exact in float64
		return big.NewRat(int64(r.Intn(2049)-1024), 16)
	default: // decimals with at most 6 fractional digits
		denoms := []int64{1, 10, 100, 1000, 1000000}
		return big.NewRat(int64(r.Intn(200001)-100000), denoms[r.Intn(len(denoms))])
	}
}

func (g *StoreOps) bytes() []byte {
	r := g.R
	if g.BigVals && r.Intn(5) == 0 {
		b := make([]byte, 20+r.Intn(60))
		for i := range b {
			b[i] = byte('A' + r.Intn(26))
		}
		return b
	}
	n := r.Intn(5)
	if g.Pair.Policy == "append" {
		n = 1 + r.Intn(3)
		if r.Intn(4) == 0 {
			n = 6 + r.Intn(10) // long enough to reach past the framing of a neighbouring entry in a snapshot buffer
		}
	}
	b := make([]byte, n)
	for i := range b {
		b[i] = byte('a' + r.Intn(26))
	}
	if r.Intn(8) == 0 { // plain values that merely LOOK like a set_sum-tagged value
		b = append([]byte([]string{"set:", "sum:"}[r.Intn(2)]), b...)
	}
	return b
}

// Op generates one operation.
func (g *StoreOps) Op() model.Op {
	r := g.R
	ord := uint64(r.Intn(g.MaxOrd + 1))
	if r.Float64() < g.DelProb {
		p := Prefixes[r.Intn(len(Prefixes))]
		if g.AllowAll && r.Intn(10) == 0 {
			p = ""
		}
		return model.Op{Ord: ord, Delete: true, Key: p}
	}
	op := model.Op{Ord: ord, Key: Keys[r.Intn(len(Keys))]}
	if g.Pair.Numeric() {
		op.Num = g.num()
		op.NumS = op.Num.RatString()
		if g.Pair.Policy == "set_sum" {
			op.Set = r.Intn(3) == 0
		}
	} else {
		op.Bytes = g.bytes()
	}
	return op
}

// Block generates the op list of one block (possibly empty).
func (g *StoreOps) Block(maxOps int) []model.Op {
	n := g.R.Intn(maxOps + 1)
	ops := make([]model.Op, n)
	for i := range ops {
		ops[i] = g.Op()
	}
	return ops
}

// DescribeOps renders ops compactly for samples / witnesses.
func DescribeOps(p model.Pair, ops []model.Op) []string {
	out := make([]string, len(ops))
	for i, op := range ops {
		switch {
		case op.Delete:
			out[i] = fmt.Sprintf("@%d delete_prefix(%q)", op.Ord, op.Key)
		case p.Policy == "set_sum":
			tag := "sum"
			if op.Set {
				tag = "set"
			}
			out[i] = fmt.Sprintf("@%d %s(%q,%s)", op.Ord, tag, op.Key, op.Num.RatString())
		case p.Numeric():
			out[i] = fmt.Sprintf("@%d %s(%q,%s)", op.Ord, p.Policy, op.Key, op.Num.RatString())
		default:
			out[i] = fmt.Sprintf("@%d %s(%q,%q)", op.Ord, p.Policy, op.Key, op.Bytes)
		}
	}
	return out
}

// DescribeBlocks renders a block sequence.
func DescribeBlocks(p model.Pair, blocks [][]model.Op) [][]string {
	out := make([][]string, len(blocks))
	for i, b := range blocks {
		out[i] = DescribeOps(p, b)
	}
	return out
}
