package gen

import (
	"encoding/json"
	"fmt"
	"math/rand"
	"strings"

	pbsubstreams "github.com/streamingfast/substreams/pb/sf/substreams/v1"

	"verif/harness/model"
	"verif/harness/native"
)

// Pkg is a generated executable package: module graph + native programs.
type Pkg struct {
	Modules *pbsubstreams.Modules
	Progs   map[string]*native.Program
	Seed    uint64
	Names   []string          // in topological (generation) order
	Kind    map[string]string // map | store | index
	Init    map[string]uint64
	Maps    []string // candidate output modules
}

// PkgOpts steers the generator.
type PkgOpts struct {
	SegSize   uint64 // initial blocks are chosen around multiples of this
	MaxMods   int
	MinMods   int
	NoIndex   bool
	NoFilters bool
	// InitZero forces every initial block to 0 (first streamable block).
	InitZero bool
	// MaxInit bounds initial blocks.
	MaxInit uint64
	// Pairs restricts the store pairs (nil: all).
	Pairs []model.Pair
	// ForceDelete makes every store use delete_prefix on some tag.
	ForceDelete bool
	// FilterProb / IndexProb override the default probabilities (0.25 / 0.12) of block filters and index modules.
	FilterProb float64
	IndexProb  float64
	// MaxSeg > 0 bounds the segment size the scenario draws (2..MaxSeg); read by the drivers.
	MaxSeg int
	// FSBProb: probability that the scenario runs on a chain whose first streamable block is not 0 (scenario-level option,
	// read by the drivers; GenPkg itself only applies FirstStreamable).
	FSBProb float64
	// FirstStreamable: explicit initial blocks below it are raised to it; Init[] holds the EFFECTIVE initial block
	// (an unset initial block means the first streamable block).
	FirstStreamable uint64
}

func pick[T any](r *rand.Rand, xs []T) T { return xs[r.Intn(len(xs))] }

var filterQueries = []string{"t0", "t1 || t2", "k1 || k4", "t3 && k0", "(t0 || t1) && (k2 || k3 || k5)", "t2 || (k0 && t1)", "k0 || k1 || k2", "t1 t2", "'t0' || \"k3\"", "nokey", "nokey || t1"}

// GenPkg generates a valid package.
func GenPkg(r *rand.Rand, o PkgOpts) *Pkg {
	if o.MaxMods == 0 {
		o.MaxMods = 9
	}
	if o.MinMods == 0 {
		o.MinMods = 3
	}
	if o.SegSize == 0 {
		o.SegSize = 10
	}
	if o.MaxInit == 0 {
		o.MaxInit = 2*o.SegSize + 1
	}
	pairs := o.Pairs
	if pairs == nil {
		pairs = model.Pairs()
	}
	p := &Pkg{Progs: map[string]*native.Program{}, Seed: uint64(r.Int63()), Kind: map[string]string{}, Init: map[string]uint64{}}
	n := o.MinMods + r.Intn(o.MaxMods-o.MinMods+1)
	var mods []*pbsubstreams.Module
	var maps, stores, indexes []string
	storePair := map[string]model.Pair{}

	initChoices := func(min uint64) uint64 {
		if o.InitZero {
			return 0
		}
		s := o.SegSize
		cands := []uint64{0, 0, 1, s - 1, s, s + 1, 2*s - 1, 2 * s, 2*s + 1, s / 2, s + s/2}
		var ok []uint64
		for _, c := range cands {
			if c >= min && c <= o.MaxInit {
				ok = append(ok, c)
			}
		}
		if len(ok) == 0 {
			return min
		}
		return pick(r, ok)
	}

	for i := 0; i < n; i++ {
		name := fmt.Sprintf("m%d", i)
		kind := "map"
		switch x := r.Intn(100); {
		case x < 40:
			kind = "store"
		case x < 52 && !o.NoIndex && o.IndexProb == 0:
			kind = "index"
		}
		if o.IndexProb > 0 && r.Float64() < o.IndexProb {
			kind = "index"
		}
		if i == n-1 {
			kind = "map" // at least one candidate output
		}
		prog := &native.Program{Kind: kind, Seed: p.Seed, TagMask: 0xF, KeyMask: 0x3F, Mul: pick(r, []int{1, 1, 2, -1}), Add: r.Intn(2), FailAt: -1, DelTag: -1, SetTag: -1}
		if r.Intn(4) == 0 {
			prog.TagMask = uint8(1 + r.Intn(15))
		}
		if r.Intn(4) == 0 {
			prog.KeyMask = uint8(1 + r.Intn(63))
		}
		var inputs []*pbsubstreams.Module_Input
		var specs []native.InSpec
		var depInit []uint64
		hasSource := false
		addSource := func() {
			inputs = append(inputs, &pbsubstreams.Module_Input{Input: &pbsubstreams.Module_Input_Source_{Source: &pbsubstreams.Module_Input_Source{Type: native.BlockType}}})
			specs = append(specs, native.InSpec{Kind: "source"})
			hasSource = true
		}
		addClock := func() {
			inputs = append(inputs, &pbsubstreams.Module_Input{Input: &pbsubstreams.Module_Input_Source_{Source: &pbsubstreams.Module_Input_Source{Type: native.ClockType}}})
			specs = append(specs, native.InSpec{Kind: "clock"})
			hasSource = true
		}
		if kind == "index" {
			// the usual shape in real packages: an index module over a map's output; otherwise over the block itself
			if len(maps) > 0 && r.Intn(2) == 0 {
				m := pick(r, maps)
				inputs = append(inputs, &pbsubstreams.Module_Input{Input: &pbsubstreams.Module_Input_Map_{Map: &pbsubstreams.Module_Input_Map{ModuleName: m}}})
				specs = append(specs, native.InSpec{Kind: "map", Name: m})
				depInit = append(depInit, p.Init[m])
			} else {
				addSource()
			}
		} else {
			// params first
			paramsOnly := false
			if r.Intn(6) == 0 {
				inputs = append(inputs, &pbsubstreams.Module_Input{Input: &pbsubstreams.Module_Input_Params_{Params: &pbsubstreams.Module_Input_Params{Value: fmt.Sprintf("p%d", r.Intn(4))}}})
				specs = append(specs, native.InSpec{Kind: "params"})
				paramsOnly = r.Intn(5) == 0 && kind == "map"
			}
			if !paramsOnly {
				nin := 1 + r.Intn(3)
				used := map[string]bool{}
				for j := 0; j < nin; j++ {
					switch x := r.Intn(10); {
					case x < 3 && !used["src"]:
						used["src"] = true
						addSource()
					case x < 4 && !used["clk"]:
						used["clk"] = true
						addClock()
					case x < 7 && len(maps) > 0:
						m := pick(r, maps)
						if used[m] {
							continue
						}
						used[m] = true
						inputs = append(inputs, &pbsubstreams.Module_Input{Input: &pbsubstreams.Module_Input_Map_{Map: &pbsubstreams.Module_Input_Map{ModuleName: m}}})
						specs = append(specs, native.InSpec{Kind: "map", Name: m})
						depInit = append(depInit, p.Init[m])
					case len(stores) > 0:
						s := pick(r, stores)
						if used[s] {
							continue
						}
						used[s] = true
						mode := pbsubstreams.Module_Input_Store_GET
						k := "store"
						if r.Intn(3) == 0 {
							mode = pbsubstreams.Module_Input_Store_DELTAS
							k = "deltas"
						}
						inputs = append(inputs, &pbsubstreams.Module_Input{Input: &pbsubstreams.Module_Input_Store_{Store: &pbsubstreams.Module_Input_Store{ModuleName: s, Mode: mode}}})
						specs = append(specs, native.InSpec{Kind: k, Name: s, Policy: storePair[s].Policy, VT: storePair[s].VT})
						depInit = append(depInit, p.Init[s])
					}
				}
				// a module needs something that produces events
				producers := 0
				for _, sp := range specs {
					if sp.Kind == "source" || sp.Kind == "clock" || sp.Kind == "map" || sp.Kind == "deltas" {
						producers++
					}
				}
				if producers == 0 {
					addSource()
				}
			}
		}
		// lookups on store inputs in get mode
		si := 0
		for _, sp := range specs {
			if sp.Kind != "store" {
				continue
			}
			for l := 0; l < 1+r.Intn(2); l++ {
				prog.Lookups = append(prog.Lookups, native.Lookup{
					Store: si,
					Mode:  pick(r, []string{"get_first", "get_last", "get_last", "get_at", "get_at", "has_first", "has_last", "has_at"}),
					Ord:   pick(r, []int{-1, -1, 0, 2, 5}),
					Key:   pick(r, []int{-1, -1, 0, 3}),
				})
			}
			si++
		}
		prog.Affects = len(prog.Lookups) > 0 && r.Intn(2) == 0

		// initial block
		var init uint64
		if hasSource || len(depInit) == 0 {
			init = initChoices(0)
		} else {
			min := depInit[0]
			max := depInit[0]
			for _, d := range depInit {
				if d < min {
					min = d
				}
				if d > max {
					max = d
				}
			}
			if r.Intn(4) == 0 {
				init = initChoices(min)
			} else {
				init = initChoices(max)
			}
		}
		if kind == "index" && hasSource {
			init = 0
		}
		mod := &pbsubstreams.Module{Name: name, BinaryIndex: 0, BinaryEntrypoint: name, Inputs: inputs, InitialBlock: init}
		switch kind {
		case "map":
			mod.Kind = &pbsubstreams.Module_KindMap_{KindMap: &pbsubstreams.Module_KindMap{OutputType: "proto:verif.Lines"}}
			mod.Output = &pbsubstreams.Module_Output{Type: "proto:verif.Lines"}
			prog.SkipEmpty = r.Intn(3) == 0
			maps = append(maps, name)
		case "index":
			mod.Kind = &pbsubstreams.Module_KindBlockIndex_{KindBlockIndex: &pbsubstreams.Module_KindBlockIndex{OutputType: "proto:sf.substreams.index.v1.Keys"}}
			mod.Output = &pbsubstreams.Module_Output{Type: "proto:sf.substreams.index.v1.Keys"}
			indexes = append(indexes, name)
		case "store":
			pr := pick(r, pairs)
			storePair[name] = pr
			prog.Policy, prog.VT = pr.Policy, pr.VT
			if o.ForceDelete || r.Intn(4) == 0 {
				prog.DelTag = r.Intn(4)
			}
			if pr.Policy == "set_sum" {
				prog.SetTag = r.Intn(4)
			}
			mod.Kind = &pbsubstreams.Module_KindStore_{KindStore: &pbsubstreams.Module_KindStore{UpdatePolicy: policyEnum(pr.Policy), ValueType: pr.VT}}
			stores = append(stores, name)
		}
		// block filter
		fp := 0.25
		if o.FilterProb > 0 {
			fp = o.FilterProb
		}
		if kind != "index" && !o.NoFilters && len(indexes) > 0 && r.Float64() < fp {
			// a filtering index module must not start after the module it filters (validation rule)
			if idx := pick(r, indexes); p.Init[idx] <= init {
				mod.BlockFilter = &pbsubstreams.Module_BlockFilter{Module: idx, Query: &pbsubstreams.Module_BlockFilter_QueryString{QueryString: pick(r, filterQueries)}}
			}
		}
		prog.Inputs = specs
		p.Progs[name] = prog
		p.Kind[name] = kind
		p.Init[name] = init
		p.Names = append(p.Names, name)
		mods = append(mods, mod)
	}
	if f := o.FirstStreamable; f > 0 {
		for _, m := range mods {
			if m.InitialBlock > 0 && m.InitialBlock < f {
				m.InitialBlock = f
			}
			if p.Init[m.Name] < f {
				p.Init[m.Name] = f
			}
		}
	}
	p.Maps = maps
	p.Modules = &pbsubstreams.Modules{Modules: mods}
	p.Rebuild()
	return p
}

// Rebuild re-serialises the program table into the package binary (call after editing Progs).
func (p *Pkg) Rebuild() {
	code, err := json.Marshal(p.Progs)
	if err != nil {
		panic(err)
	}
	p.Modules.Binaries = []*pbsubstreams.Binary{{Type: "wasm/rust-v1", Content: code}}
}

func policyEnum(pol string) pbsubstreams.Module_KindStore_UpdatePolicy {
	switch pol {
	case "set":
		return pbsubstreams.Module_KindStore_UPDATE_POLICY_SET
	case "set_if_not_exists":
		return pbsubstreams.Module_KindStore_UPDATE_POLICY_SET_IF_NOT_EXISTS
	case "append":
		return pbsubstreams.Module_KindStore_UPDATE_POLICY_APPEND
	case "add":
		return pbsubstreams.Module_KindStore_UPDATE_POLICY_ADD
	case "min":
		return pbsubstreams.Module_KindStore_UPDATE_POLICY_MIN
	case "max":
		return pbsubstreams.Module_KindStore_UPDATE_POLICY_MAX
	case "set_sum":
		return pbsubstreams.Module_KindStore_UPDATE_POLICY_SET_SUM
	}
	panic("policy " + pol)
}

// Describe renders the package compactly for samples and witnesses.
func (p *Pkg) Describe() []string {
	var out []string
	for _, m := range p.Modules.Modules {
		var ins []string
		for _, in := range m.Inputs {
			switch x := in.Input.(type) {
			case *pbsubstreams.Module_Input_Source_:
				ins = append(ins, "src:"+strings.TrimPrefix(x.Source.Type, "sf.substreams.v1."))
			case *pbsubstreams.Module_Input_Map_:
				ins = append(ins, "map:"+x.Map.ModuleName)
			case *pbsubstreams.Module_Input_Store_:
				ins = append(ins, strings.ToLower(x.Store.Mode.String())+":"+x.Store.ModuleName)
			case *pbsubstreams.Module_Input_Params_:
				ins = append(ins, "params:"+x.Params.Value)
			}
		}
		pr := p.Progs[m.Name]
		d := fmt.Sprintf("%s %s init=%d in=[%s]", m.Name, p.Kind[m.Name], m.InitialBlock, strings.Join(ins, " "))
		if pr.Kind == "store" {
			d += fmt.Sprintf(" %s:%s deltag=%d", pr.Policy, pr.VT, pr.DelTag)
		}
		if m.BlockFilter != nil {
			d += fmt.Sprintf(" filter=%s{%s}", m.BlockFilter.Module, m.BlockFilter.GetQueryString())
		}
		if len(pr.Lookups) > 0 {
			d += fmt.Sprintf(" lookups=%d affects=%v", len(pr.Lookups), pr.Affects)
		}
		if pr.SkipEmpty {
			d += " skipempty"
		}
		out = append(out, d)
	}
	return out
}
