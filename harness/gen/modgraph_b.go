package gen

// Generator of structurally VALID substreams module graphs (used by the C06 and
// C14 drivers). Everything is deterministic from the *rand.Rand handed in.
//
// "Valid" is the conjunction of
//   - the rules a manifest must satisfy (manifest/package.go validateManifest,
//     manifest/manifest.go validateStoreBuilder, manifest/reader.go
//     validatePackage): kinds, store policy/value-type combinations, block
//     index modules have inputs / no params / no block filter / the Keys output
//     type, params only as first input, no duplicate inputs;
//   - the rules of the request validation (manifest.ValidateModules +
//     manifest.NewModuleGraph): references exist and have the right kind, block
//     filter module is a block index whose initial block is not greater, acyclic;
//   - the staging rule (pipeline/exec/graph.go): every module has one input
//     available at its initial block.
// The graphs are built to satisfy these by construction; MGCheck re-checks them
// with an independent implementation (MGOwnCheck) and with the real code.

import (
	"fmt"
	"math/rand"
	"regexp"
	"sort"
	"strings"

	"github.com/streamingfast/substreams/manifest"
	pbsubstreams "github.com/streamingfast/substreams/pb/sf/substreams/v1"
	"google.golang.org/protobuf/encoding/protojson"
	"google.golang.org/protobuf/proto"
)

const (
	MGBlockType       = "sf.substreams.v1.test.Block"
	MGClockType       = "sf.substreams.v1.Clock"
	MGIndexOutputType = "proto:sf.substreams.index.v1.Keys"
)

// MGBinaryTypes are binary types accepted by service.validateBinaryTypes.
var MGBinaryTypes = []string{"wasm/rust-v1", "wasip1/tinygo-v1", "wasm/rust-v1+wasm-bindgen-shims"}

// MGStoreCombos are the legal (update policy, value type) combinations of
// manifest.validateStoreBuilder.
type MGStoreCombo struct {
	Policy    pbsubstreams.Module_KindStore_UpdatePolicy
	ValueType string
}

var MGStoreCombos = func() []MGStoreCombo {
	P := map[string]pbsubstreams.Module_KindStore_UpdatePolicy{
		"max": pbsubstreams.Module_KindStore_UPDATE_POLICY_MAX, "min": pbsubstreams.Module_KindStore_UPDATE_POLICY_MIN,
		"add": pbsubstreams.Module_KindStore_UPDATE_POLICY_ADD, "set": pbsubstreams.Module_KindStore_UPDATE_POLICY_SET,
		"set_if_not_exists": pbsubstreams.Module_KindStore_UPDATE_POLICY_SET_IF_NOT_EXISTS,
		"set_sum":           pbsubstreams.Module_KindStore_UPDATE_POLICY_SET_SUM, "append": pbsubstreams.Module_KindStore_UPDATE_POLICY_APPEND,
	}
	table := []string{
		"max:bigint", "max:int64", "max:bigdecimal", "max:bigfloat", "max:float64",
		"min:bigint", "min:int64", "min:bigdecimal", "min:bigfloat", "min:float64",
		"add:bigint", "add:int64", "add:bigdecimal", "add:bigfloat", "add:float64",
		"set:bytes", "set:string", "set:proto", "set:bigdecimal", "set:bigfloat", "set:bigint", "set:int64", "set:float64",
		"set_if_not_exists:bytes", "set_if_not_exists:string", "set_if_not_exists:proto", "set_if_not_exists:bigdecimal",
		"set_if_not_exists:bigfloat", "set_if_not_exists:bigint", "set_if_not_exists:int64", "set_if_not_exists:float64",
		"set_sum:bigint", "set_sum:int64", "set_sum:bigdecimal", "set_sum:float64",
		"append:bytes", "append:string",
	}
	var out []MGStoreCombo
	for _, t := range table {
		i := strings.LastIndexByte(t, ':')
		vt := t[i+1:]
		if vt == "proto" {
			vt = "proto:my.pkg.Value"
		}
		out = append(out, MGStoreCombo{Policy: P[t[:i]], ValueType: vt})
	}
	return out
}()

// MGInitBlocks is the pool initial blocks are drawn from (0 = "first streamable block").
var MGInitBlocks = []uint64{0, 0, 1, 2, 3, 5, 10, 20, 50, 100, 1000, 12345}

// MGParamValues is the pool of ordinary params values.
var MGParamValues = []string{"", "k=v", "0xdeadbeef", "a && b", "transfer:100", "100", "to=0xabc&from=0xdef", "Hello World"}

// MGQueries is the pool of block-filter query strings.
var MGQueries = []string{"a", "a || b", "evt:transfer", "(x && y) || z", "k1", "type:mint || type:burn"}

type MGOpts struct {
	MinModules, MaxModules int
	// CollidePct: per params input, the percent chance that its value is the name
	// of another module of the graph (a params value is free text, so this is valid).
	CollidePct int
}

func MGSource(t string) *pbsubstreams.Module_Input {
	return &pbsubstreams.Module_Input{Input: &pbsubstreams.Module_Input_Source_{Source: &pbsubstreams.Module_Input_Source{Type: t}}}
}
func MGParams(v string) *pbsubstreams.Module_Input {
	return &pbsubstreams.Module_Input{Input: &pbsubstreams.Module_Input_Params_{Params: &pbsubstreams.Module_Input_Params{Value: v}}}
}
func MGMap(name string) *pbsubstreams.Module_Input {
	return &pbsubstreams.Module_Input{Input: &pbsubstreams.Module_Input_Map_{Map: &pbsubstreams.Module_Input_Map{ModuleName: name}}}
}
func MGStore(name string, deltas bool) *pbsubstreams.Module_Input {
	mode := pbsubstreams.Module_Input_Store_GET
	if deltas {
		mode = pbsubstreams.Module_Input_Store_DELTAS
	}
	return &pbsubstreams.Module_Input{Input: &pbsubstreams.Module_Input_Store_{Store: &pbsubstreams.Module_Input_Store{ModuleName: name, Mode: mode}}}
}

func MGKindMap(outType string) *pbsubstreams.Module_KindMap_ {
	return &pbsubstreams.Module_KindMap_{KindMap: &pbsubstreams.Module_KindMap{OutputType: outType}}
}
func MGKindIndex() *pbsubstreams.Module_KindBlockIndex_ {
	return &pbsubstreams.Module_KindBlockIndex_{KindBlockIndex: &pbsubstreams.Module_KindBlockIndex{OutputType: MGIndexOutputType}}
}
func MGKindStore(c MGStoreCombo) *pbsubstreams.Module_KindStore_ {
	return &pbsubstreams.Module_KindStore_{KindStore: &pbsubstreams.Module_KindStore{UpdatePolicy: c.Policy, ValueType: c.ValueType}}
}

// MGKind returns "map", "store" or "index" ("" when unset).
func MGKind(m *pbsubstreams.Module) string {
	switch m.Kind.(type) {
	case *pbsubstreams.Module_KindMap_:
		return "map"
	case *pbsubstreams.Module_KindStore_:
		return "store"
	case *pbsubstreams.Module_KindBlockIndex_:
		return "index"
	}
	return ""
}

var mgSyllables = []string{"tok", "pair", "swap", "pool", "evt", "blk", "xfer", "acct", "bal", "px", "vol", "Liq", "Mint", "burn", "tick", "fee", "usr", "ord"}

// MGFreshName returns an identifier matching the module name regexp that is not in taken.
func MGFreshName(r *rand.Rand, taken map[string]bool) string {
	for {
		var b strings.Builder
		n := 1 + r.Intn(3)
		for i := 0; i < n; i++ {
			if i > 0 && r.Intn(2) == 0 {
				b.WriteByte('_')
			}
			b.WriteString(mgSyllables[r.Intn(len(mgSyllables))])
		}
		if r.Intn(3) == 0 {
			fmt.Fprintf(&b, "%d", r.Intn(100))
		}
		s := b.String()
		if !taken[s] {
			taken[s] = true
			return s
		}
	}
}

func mgRandBytes(r *rand.Rand, n int) []byte {
	b := make([]byte, n)
	for i := range b {
		b[i] = byte(r.Intn(256))
	}
	return b
}

// MGGen generates one valid graph. rejected counts the candidate graphs that
// were thrown away because MGCheck refused them (expected to stay 0).
func MGGen(r *rand.Rand, o MGOpts) (mods *pbsubstreams.Modules, rejected int) {
	if o.MinModules == 0 {
		o.MinModules = 3
	}
	if o.MaxModules == 0 {
		o.MaxModules = 12
	}
	for {
		mods = mgGenOnce(r, o)
		own, code := MGCheck(mods)
		if own == nil && code == nil {
			return mods, rejected
		}
		rejected++
		if rejected > 50 {
			panic(fmt.Sprintf("modgraph generator: 50 consecutive rejected graphs; last: own=%v code=%v graph=%s", own, code, MGJSON(mods)))
		}
	}
}

func mgGenOnce(r *rand.Rand, o MGOpts) *pbsubstreams.Modules {
	n := o.MinModules + r.Intn(o.MaxModules-o.MinModules+1)
	mods := &pbsubstreams.Modules{}
	nb := 1 + r.Intn(3)
	for i := 0; i < nb; i++ {
		mods.Binaries = append(mods.Binaries, &pbsubstreams.Binary{
			Type:    MGBinaryTypes[r.Intn(len(MGBinaryTypes))],
			Content: append([]byte(fmt.Sprintf("\x00asm-%d-", i)), mgRandBytes(r, 4+r.Intn(30))...),
		})
	}
	taken := map[string]bool{}
	// kind profile of this graph
	pStore, pIndex := 35, 15
	switch r.Intn(6) {
	case 0:
		pStore, pIndex = 60, 10
	case 1:
		pStore, pIndex = 15, 35
	case 2:
		pStore, pIndex = 45, 0
	}
	var maps, stores, indexes []*pbsubstreams.Module
	for i := 0; i < n; i++ {
		m := &pbsubstreams.Module{
			Name:             MGFreshName(r, taken),
			BinaryIndex:      uint32(r.Intn(nb)),
			BinaryEntrypoint: fmt.Sprintf("ep%d_%s", i, mgSyllables[r.Intn(len(mgSyllables))]),
		}
		k := r.Intn(100)
		kind := "map"
		switch {
		case k < pStore:
			kind = "store"
		case k < pStore+pIndex:
			kind = "index"
		}
		switch kind {
		case "map":
			t := fmt.Sprintf("proto:my.pkg.Out%d", r.Intn(4))
			m.Kind = MGKindMap(t)
			m.Output = &pbsubstreams.Module_Output{Type: t}
		case "store":
			m.Kind = MGKindStore(MGStoreCombos[r.Intn(len(MGStoreCombos))])
		case "index":
			m.Kind = MGKindIndex()
			m.Output = &pbsubstreams.Module_Output{Type: MGIndexOutputType}
		}

		// ---- inputs
		var params *pbsubstreams.Module_Input
		var rest []*pbsubstreams.Module_Input
		shape := r.Intn(100)
		switch {
		case shape < 8 && kind != "index":
			params = MGParams(MGParamValues[r.Intn(len(MGParamValues))])
		case shape < 16:
			rest = append(rest, MGSource(MGClockType))
		case shape < 24:
			rest = append(rest, MGSource(MGBlockType))
		default:
			if kind != "index" && r.Intn(4) == 0 {
				params = MGParams(MGParamValues[r.Intn(len(MGParamValues))])
			}
			if r.Intn(100) < 45 {
				rest = append(rest, MGSource(MGBlockType))
			}
			if r.Intn(100) < 20 {
				rest = append(rest, MGSource(MGClockType))
			}
			nm, ns := 0, 0
			if len(maps)+len(stores) > 0 {
				nm = r.Intn(4)
				ns = r.Intn(3)
				if nm+ns == 0 && r.Intn(5) != 0 {
					nm, ns = 1, 1
				}
			}
			pickRecent := func(l []*pbsubstreams.Module) *pbsubstreams.Module {
				if r.Intn(2) == 0 && len(l) > 2 {
					return l[len(l)-1-r.Intn(2)]
				}
				return l[r.Intn(len(l))]
			}
			seenMap := map[string]bool{}
			for j := 0; j < nm && len(maps) > 0; j++ {
				d := pickRecent(maps)
				if !seenMap[d.Name] {
					seenMap[d.Name] = true
					rest = append(rest, MGMap(d.Name))
				}
			}
			seenStore := map[string]bool{}
			for j := 0; j < ns && len(stores) > 0; j++ {
				d := pickRecent(stores)
				deltas := r.Intn(2) == 0
				key := fmt.Sprint(d.Name, deltas)
				if !seenStore[key] {
					seenStore[key] = true
					rest = append(rest, MGStore(d.Name, deltas))
				}
				if r.Intn(7) == 0 {
					key = fmt.Sprint(d.Name, !deltas)
					if !seenStore[key] {
						seenStore[key] = true
						rest = append(rest, MGStore(d.Name, !deltas))
					}
				}
			}
			r.Shuffle(len(rest), func(a, b int) { rest[a], rest[b] = rest[b], rest[a] })
		}
		if params == nil && len(rest) == 0 {
			rest = append(rest, MGSource(MGBlockType))
		}
		if params != nil {
			m.Inputs = append(m.Inputs, params)
		}
		m.Inputs = append(m.Inputs, rest...)

		// ---- block filter
		var filterIdx *pbsubstreams.Module
		if kind != "index" && len(indexes) > 0 && r.Intn(100) < 35 {
			filterIdx = indexes[r.Intn(len(indexes))]
			bf := &pbsubstreams.Module_BlockFilter{Module: filterIdx.Name}
			if params != nil && r.Intn(3) == 0 {
				// the query is the params value
				params.GetParams().Value = MGQueries[r.Intn(len(MGQueries))]
				bf.Query = &pbsubstreams.Module_BlockFilter_QueryFromParams{QueryFromParams: &pbsubstreams.Module_QueryFromParams{}}
			} else {
				bf.Query = &pbsubstreams.Module_BlockFilter_QueryString{QueryString: MGQueries[r.Intn(len(MGQueries))]}
			}
			m.BlockFilter = bf
		}

		// ---- initial block
		byName := func(name string) *pbsubstreams.Module {
			for _, l := range [][]*pbsubstreams.Module{maps, stores, indexes} {
				for _, x := range l {
					if x.Name == name {
						return x
					}
				}
			}
			return nil
		}
		alwaysAvailable := false
		var depInits []uint64
		for _, in := range m.Inputs {
			switch v := in.Input.(type) {
			case *pbsubstreams.Module_Input_Source_:
				alwaysAvailable = true
			case *pbsubstreams.Module_Input_Params_:
				if len(m.Inputs) == 1 {
					alwaysAvailable = true
				}
			case *pbsubstreams.Module_Input_Map_:
				depInits = append(depInits, byName(v.Map.ModuleName).InitialBlock)
			case *pbsubstreams.Module_Input_Store_:
				depInits = append(depInits, byName(v.Store.ModuleName).InitialBlock)
			}
		}
		ib := MGInitBlocks[r.Intn(len(MGInitBlocks))]
		if !alwaysAvailable {
			// at least one dependency must exist at the initial block
			base := depInits[r.Intn(len(depInits))]
			switch r.Intn(3) {
			case 0:
				ib = base
			case 1:
				ib = base + uint64(r.Intn(5))
			default:
				if ib < base {
					ib = base + MGInitBlocks[r.Intn(len(MGInitBlocks))]
				}
			}
		} else if len(depInits) > 0 && r.Intn(2) == 0 {
			// stay close to a dependency's initial block (below or above it)
			base := depInits[r.Intn(len(depInits))]
			switch r.Intn(3) {
			case 0:
				ib = base
			case 1:
				ib = base + uint64(r.Intn(3))
			default:
				if base > 0 {
					ib = base - 1
				}
			}
		}
		if filterIdx != nil && ib < filterIdx.InitialBlock {
			ib = filterIdx.InitialBlock + uint64(r.Intn(3))
		}
		m.InitialBlock = ib

		mods.Modules = append(mods.Modules, m)
		switch kind {
		case "map":
			maps = append(maps, m)
		case "store":
			stores = append(stores, m)
		case "index":
			indexes = append(indexes, m)
		}
	}

	// params values that happen to be the name of another module
	if o.CollidePct > 0 {
		for _, m := range mods.Modules {
			if len(m.Inputs) > 0 && m.Inputs[0].GetParams() != nil && r.Intn(100) < o.CollidePct {
				if m.BlockFilter != nil && m.BlockFilter.GetQueryFromParams() != nil {
					continue
				}
				// not a module that reads m: the real graph builder would see a cycle
				other := mods.Modules[r.Intn(len(mods.Modules))]
				if other != m && !MGDescendants(mods, m.Name, MGCollisionEdges(mods))[other.Name] {
					m.Inputs[0].GetParams().Value = other.Name
				}
			}
		}
	}

	// the list order of a request is arbitrary
	if r.Intn(10) < 7 {
		r.Shuffle(len(mods.Modules), func(a, b int) { mods.Modules[a], mods.Modules[b] = mods.Modules[b], mods.Modules[a] })
	}
	return mods
}

// ---------------------------------------------------------------- plain graph helpers (independent of manifest/graph.go)

// MGDeps returns the names of the modules m reads from: map inputs, store inputs
// (get and deltas) and the block-filter index module. No duplicates, in order.
func MGDeps(m *pbsubstreams.Module) []string {
	var out []string
	seen := map[string]bool{}
	add := func(s string) {
		if !seen[s] {
			seen[s] = true
			out = append(out, s)
		}
	}
	for _, in := range m.Inputs {
		switch v := in.Input.(type) {
		case *pbsubstreams.Module_Input_Map_:
			add(v.Map.ModuleName)
		case *pbsubstreams.Module_Input_Store_:
			add(v.Store.ModuleName)
		}
	}
	if m.BlockFilter != nil {
		add(m.BlockFilter.Module)
	}
	return out
}

func MGByName(mods *pbsubstreams.Modules) map[string]*pbsubstreams.Module {
	out := map[string]*pbsubstreams.Module{}
	for _, m := range mods.Modules {
		out[m.Name] = m
	}
	return out
}

// MGReach returns name and everything it transitively reads (ancestors, self included).
// extra, when not nil, adds more edges (module -> modules) to the relation.
func MGReach(mods *pbsubstreams.Modules, name string, extra map[string][]string) map[string]bool {
	by := MGByName(mods)
	out := map[string]bool{}
	var visit func(string)
	visit = func(n string) {
		if out[n] {
			return
		}
		m := by[n]
		if m == nil {
			return
		}
		out[n] = true
		for _, d := range MGDeps(m) {
			visit(d)
		}
		for _, d := range extra[n] {
			visit(d)
		}
	}
	visit(name)
	return out
}

// MGDescendants returns name and every module that transitively reads it (self included).
func MGDescendants(mods *pbsubstreams.Modules, name string, extra map[string][]string) map[string]bool {
	out := map[string]bool{}
	for _, m := range mods.Modules {
		if MGReach(mods, m.Name, extra)[name] {
			out[m.Name] = true
		}
	}
	return out
}

// MGCollisionEdges returns, for every module whose params value is exactly the
// name of a module of the graph, the edge module -> named module. These are NOT
// dependencies (a params value is free text); they are only used to attribute an
// observed deviation to that coincidence.
func MGCollisionEdges(mods *pbsubstreams.Modules) map[string][]string {
	by := MGByName(mods)
	out := map[string][]string{}
	for _, m := range mods.Modules {
		for _, in := range m.Inputs {
			if p := in.GetParams(); p != nil {
				if _, ok := by[p.Value]; ok {
					out[m.Name] = append(out[m.Name], p.Value)
				}
			}
		}
	}
	if len(out) == 0 {
		return nil
	}
	return out
}

var mgNameRe = regexp.MustCompile(`^([a-zA-Z][a-zA-Z0-9_]{0,63})$`)

func mgInputKey(in *pbsubstreams.Module_Input) string {
	switch v := in.Input.(type) {
	case *pbsubstreams.Module_Input_Source_:
		return "source:" + v.Source.Type
	case *pbsubstreams.Module_Input_Map_:
		return "map:" + v.Map.ModuleName
	case *pbsubstreams.Module_Input_Store_:
		return fmt.Sprintf("store:%s:%d", v.Store.ModuleName, v.Store.Mode)
	case *pbsubstreams.Module_Input_Params_:
		return "params"
	}
	return "?"
}

// MGOwnCheck is the harness's own statement of what a valid graph is.
func MGOwnCheck(mods *pbsubstreams.Modules) error {
	if mods == nil || len(mods.Modules) == 0 {
		return fmt.Errorf("no modules")
	}
	by := map[string]*pbsubstreams.Module{}
	for _, m := range mods.Modules {
		for _, seg := range strings.Split(m.Name, ":") {
			if !mgNameRe.MatchString(seg) {
				return fmt.Errorf("module %q: bad name", m.Name)
			}
		}
		if by[m.Name] != nil {
			return fmt.Errorf("module %q: duplicate name", m.Name)
		}
		by[m.Name] = m
	}
	for _, b := range mods.Binaries {
		ok := false
		for _, t := range MGBinaryTypes {
			if b.Type == t {
				ok = true
			}
		}
		if !ok {
			return fmt.Errorf("binary type %q", b.Type)
		}
	}
	for _, m := range mods.Modules {
		if int(m.BinaryIndex) >= len(mods.Binaries) {
			return fmt.Errorf("module %q: binary index out of range", m.Name)
		}
		kind := MGKind(m)
		switch kind {
		case "map":
			if !strings.HasPrefix(m.GetKindMap().OutputType, "proto:") {
				return fmt.Errorf("module %q: map output type", m.Name)
			}
		case "store":
			ok := false
			for _, c := range MGStoreCombos {
				vt := m.GetKindStore().ValueType
				if c.Policy == m.GetKindStore().UpdatePolicy && (c.ValueType == vt || (strings.HasPrefix(c.ValueType, "proto:") && strings.HasPrefix(vt, "proto:"))) {
					ok = true
				}
			}
			if !ok {
				return fmt.Errorf("module %q: illegal store policy/value type", m.Name)
			}
		case "index":
			if m.GetKindBlockIndex().OutputType != MGIndexOutputType {
				return fmt.Errorf("module %q: index output type", m.Name)
			}
			if m.BlockFilter != nil {
				return fmt.Errorf("module %q: index with block filter", m.Name)
			}
		default:
			return fmt.Errorf("module %q: no kind", m.Name)
		}
		if len(m.Inputs) == 0 {
			return fmt.Errorf("module %q: no inputs", m.Name)
		}
		seen := map[string]bool{}
		hasParams := false
		for i, in := range m.Inputs {
			k := mgInputKey(in)
			if seen[k] {
				return fmt.Errorf("module %q: duplicate input %s", m.Name, k)
			}
			seen[k] = true
			switch v := in.Input.(type) {
			case *pbsubstreams.Module_Input_Params_:
				if i != 0 {
					return fmt.Errorf("module %q: params not first", m.Name)
				}
				if kind == "index" {
					return fmt.Errorf("module %q: index with params", m.Name)
				}
				hasParams = true
			case *pbsubstreams.Module_Input_Source_:
				if v.Source.Type == "" {
					return fmt.Errorf("module %q: empty source", m.Name)
				}
			case *pbsubstreams.Module_Input_Map_:
				d := by[v.Map.ModuleName]
				if d == nil || MGKind(d) != "map" {
					return fmt.Errorf("module %q: map input %q is not a map module", m.Name, v.Map.ModuleName)
				}
			case *pbsubstreams.Module_Input_Store_:
				d := by[v.Store.ModuleName]
				if d == nil || MGKind(d) != "store" {
					return fmt.Errorf("module %q: store input %q is not a store module", m.Name, v.Store.ModuleName)
				}
				if v.Store.Mode != pbsubstreams.Module_Input_Store_GET && v.Store.Mode != pbsubstreams.Module_Input_Store_DELTAS {
					return fmt.Errorf("module %q: store input mode", m.Name)
				}
			default:
				return fmt.Errorf("module %q: untyped input", m.Name)
			}
		}
		if bf := m.BlockFilter; bf != nil {
			d := by[bf.Module]
			if d == nil || MGKind(d) != "index" {
				return fmt.Errorf("module %q: block filter module %q is not a block index", m.Name, bf.Module)
			}
			if d.InitialBlock > m.InitialBlock {
				return fmt.Errorf("module %q: block filter module starts later", m.Name)
			}
			switch bf.Query.(type) {
			case *pbsubstreams.Module_BlockFilter_QueryString:
			case *pbsubstreams.Module_BlockFilter_QueryFromParams:
				if !hasParams {
					return fmt.Errorf("module %q: query from params without params", m.Name)
				}
			default:
				return fmt.Errorf("module %q: block filter without query", m.Name)
			}
		}
	}
	// acyclic
	state := map[string]int{}
	var cyc func(string) bool
	cyc = func(n string) bool {
		switch state[n] {
		case 1:
			return true
		case 2:
			return false
		}
		state[n] = 1
		for _, d := range MGDeps(by[n]) {
			if cyc(d) {
				return true
			}
		}
		state[n] = 2
		return false
	}
	for _, m := range mods.Modules {
		if cyc(m.Name) {
			return fmt.Errorf("cycle through %q", m.Name)
		}
	}
	// an input exists at the initial block (strict reading: params count only when alone)
	for _, m := range mods.Modules {
		if !MGInputAvailable(m, func(n string) uint64 { return by[n].InitialBlock }, m.InitialBlock, true) {
			return fmt.Errorf("module %q: no input available at its initial block %d", m.Name, m.InitialBlock)
		}
	}
	return nil
}

// MGInputAvailable tells whether one of m's inputs exists at block at: a source
// (block or clock) always exists, a map / store input exists from that module's
// initial block on. strictParams: params count only when they are the only input.
func MGInputAvailable(m *pbsubstreams.Module, initOf func(string) uint64, at uint64, strictParams bool) bool {
	for _, in := range m.Inputs {
		switch v := in.Input.(type) {
		case *pbsubstreams.Module_Input_Source_:
			return true
		case *pbsubstreams.Module_Input_Params_:
			if !strictParams || len(m.Inputs) == 1 {
				return true
			}
		case *pbsubstreams.Module_Input_Map_:
			if initOf(v.Map.ModuleName) <= at {
				return true
			}
		case *pbsubstreams.Module_Input_Store_:
			if initOf(v.Store.ModuleName) <= at {
				return true
			}
		}
	}
	return false
}

// MGCodeCheck is the real code's request validation of a module set.
func MGCodeCheck(mods *pbsubstreams.Modules) (err error) {
	defer func() {
		if r := recover(); r != nil {
			err = fmt.Errorf("panic in validation: %v", r)
		}
	}()
	if err := manifest.ValidateModules(mods); err != nil {
		return err
	}
	if _, err := manifest.NewModuleGraph(mods.Modules); err != nil {
		return err
	}
	return nil
}

// MGCheck returns the verdict of the harness's rules and of the real code's validation.
func MGCheck(mods *pbsubstreams.Modules) (own, code error) {
	return MGOwnCheck(mods), MGCodeCheck(mods)
}

// ---------------------------------------------------------------- rendering

func MGClone(mods *pbsubstreams.Modules) *pbsubstreams.Modules {
	return proto.Clone(mods).(*pbsubstreams.Modules)
}

// MGJSON is the exact input (protojson).
func MGJSON(mods *pbsubstreams.Modules) string {
	b, err := protojson.Marshal(mods)
	if err != nil {
		return "protojson error: " + err.Error()
	}
	return string(b)
}

// MGRender is a compact, deterministic one-line-per-module rendering.
func MGRender(mods *pbsubstreams.Modules) []string {
	var out []string
	for _, m := range mods.Modules {
		var ins []string
		for _, in := range m.Inputs {
			switch v := in.Input.(type) {
			case *pbsubstreams.Module_Input_Source_:
				ins = append(ins, "source:"+v.Source.Type)
			case *pbsubstreams.Module_Input_Params_:
				ins = append(ins, fmt.Sprintf("params:%q", v.Params.Value))
			case *pbsubstreams.Module_Input_Map_:
				ins = append(ins, "map:"+v.Map.ModuleName)
			case *pbsubstreams.Module_Input_Store_:
				ins = append(ins, fmt.Sprintf("store:%s:%s", v.Store.ModuleName, strings.ToLower(v.Store.Mode.String())))
			default:
				ins = append(ins, "untyped")
			}
		}
		k := MGKind(m)
		if s := m.GetKindStore(); s != nil {
			k += fmt.Sprintf("(%s,%s)", s.UpdatePolicy.Pretty(), s.ValueType)
		}
		line := fmt.Sprintf("%s %s init=%d bin=%d ep=%s in=[%s]", m.Name, k, m.InitialBlock, m.BinaryIndex, m.BinaryEntrypoint, strings.Join(ins, " "))
		if bf := m.BlockFilter; bf != nil {
			q := "<none>"
			switch v := bf.Query.(type) {
			case *pbsubstreams.Module_BlockFilter_QueryString:
				q = fmt.Sprintf("%q", v.QueryString)
			case *pbsubstreams.Module_BlockFilter_QueryFromParams:
				q = "from-params"
			}
			line += fmt.Sprintf(" filter=%s/%s", bf.Module, q)
		}
		out = append(out, line)
	}
	return out
}

// MGDigest identifies a graph (for Distinct / Nontrivial keys).
func MGDigest(mods *pbsubstreams.Modules) string {
	var bins []string
	for _, b := range mods.Binaries {
		bins = append(bins, fmt.Sprintf("%s/%x", b.Type, b.Content))
	}
	return strings.Join(MGRender(mods), "\n") + "\n" + strings.Join(bins, ",")
}

// MGShape is a name-independent summary: sorted multiset of (kind, #deps).
func MGShape(mods *pbsubstreams.Modules) string {
	var parts []string
	for _, m := range mods.Modules {
		parts = append(parts, fmt.Sprintf("%s%d", MGKind(m)[:1], len(MGDeps(m))))
	}
	sort.Strings(parts)
	return strings.Join(parts, "")
}
