// Package rs ("real store") drives the real storage/store implementation
// through the real host interface wasm.Call.Do*, from model.Op lists.
package rs

import (
	"context"
	"fmt"
	"math/big"
	"os"
	"sort"

	"github.com/streamingfast/dstore"
	"github.com/streamingfast/substreams/metrics"
	pbsubstreams "github.com/streamingfast/substreams/pb/sf/substreams/v1"
	"github.com/streamingfast/substreams/storage/store"
	"github.com/streamingfast/substreams/wasm"
	"go.uber.org/zap"

	"verif/harness/model"
)

var Stats = metrics.NewReqStats(&metrics.Config{}, zap.NewNop())

func Policy(p model.Pair) pbsubstreams.Module_KindStore_UpdatePolicy {
	switch p.Policy {
	case "set":
		return pbsubstreams.Module_KindStore_UPDATE_POLICY_SET
	case "set_if_not_exists":
		return pbsubstreams.Module_KindStore_UPDATE_POLICY_SET_IF_NOT_EXISTS
	case "append":
		return pbsubstreams.Module_KindStore_UPDATE_POLICY_APPEND
	case "add":
		return pbsubstreams.Module_KindStore_UPDATE_POLICY_ADD
	case "min":
		return pbsubstreams.Module_KindStore_UPDATE_POLICY_MIN
	case "max":
		return pbsubstreams.Module_KindStore_UPDATE_POLICY_MAX
	case "set_sum":
		return pbsubstreams.Module_KindStore_UPDATE_POLICY_SET_SUM
	}
	panic("unknown policy " + p.Policy)
}

// NewConfig builds a real store config on a fresh in-memory object store.
func NewConfig(p model.Pair, name string, initialBlock uint64) (*store.Config, dstore.Store) {
	ds, err := dstore.NewStore("memory://"+name, "", "", true)
	if err != nil {
		panic(err)
	}
	return NewConfigOn(p, name, initialBlock, ds), ds
}

func NewConfigOn(p model.Pair, name string, initialBlock uint64, ds dstore.Store) *store.Config {
	cfg, err := store.NewConfig(name, initialBlock, "hash"+name, Policy(p), p.VT, ds)
	if err != nil {
		panic(err)
	}
	return cfg
}

// NewCall builds the host-interface call object for one block of a store
// module writing to st (this also resets the store's per-block state, as the
// engine does).
func NewCall(p model.Pair, st store.Store, blockNum uint64, readers ...store.Store) *wasm.Call {
	args := []wasm.Argument{wasm.NewStoreWriterOutput(st.Name(), st, Policy(p), p.VT)}
	for _, r := range readers {
		args = append(args, wasm.NewStoreReaderInput(r.Name(), r, 0))
	}
	return wasm.NewCall(&pbsubstreams.Clock{Number: blockNum, Id: fmt.Sprintf("b%d", blockNum)}, st.Name(), "ep", Stats, args)
}

// NewReaderCall builds a call object that only reads from the given stores.
func NewReaderCall(blockNum uint64, readers ...store.Store) *wasm.Call {
	var args []wasm.Argument
	for _, r := range readers {
		args = append(args, wasm.NewStoreReaderInput(r.Name(), r, 0))
	}
	return wasm.NewCall(&pbsubstreams.Clock{Number: blockNum, Id: fmt.Sprintf("b%d", blockNum)}, "reader", "ep", Stats, args)
}

// Issue performs the host calls of ops, in the order given (the order a module
// would make them), through the real validators of wasm.Call.
func Issue(call *wasm.Call, p model.Pair, ops []model.Op) {
	for _, op := range ops {
		if op.Delete {
			call.DoDeletePrefix(op.Ord, op.Key)
			continue
		}
		switch p.Policy {
		case "set":
			v := guestView(op.Bytes)
			call.DoSet(op.Ord, op.Key, v)
			poison(v)
		case "set_if_not_exists":
			v := guestView(op.Bytes)
			call.DoSetIfNotExists(op.Ord, op.Key, v)
			poison(v)
		case "append":
			v := guestView(op.Bytes)
			call.DoAppend(op.Ord, op.Key, v)
			poison(v)
		case "add":
			switch p.VT {
			case "int64":
				call.DoAddInt64(op.Ord, op.Key, op.Num.Num().Int64())
			case "float64":
				f, _ := op.Num.Float64()
				call.DoAddFloat64(op.Ord, op.Key, f)
			case "bigint":
				call.DoAddBigInt(op.Ord, op.Key, model.FormatNum(p, op.Num))
			default:
				call.DoAddBigDecimal(op.Ord, op.Key, model.FormatNum(p, op.Num))
			}
		case "min":
			switch p.VT {
			case "int64":
				call.DoSetMinInt64(op.Ord, op.Key, op.Num.Num().Int64())
			case "float64":
				f, _ := op.Num.Float64()
				call.DoSetMinFloat64(op.Ord, op.Key, f)
			case "bigint":
				call.DoSetMinBigInt(op.Ord, op.Key, model.FormatNum(p, op.Num))
			default:
				call.DoSetMinBigDecimal(op.Ord, op.Key, model.FormatNum(p, op.Num))
			}
		case "max":
			switch p.VT {
			case "int64":
				call.DoSetMaxInt64(op.Ord, op.Key, op.Num.Num().Int64())
			case "float64":
				f, _ := op.Num.Float64()
				call.DoSetMaxFloat64(op.Ord, op.Key, f)
			case "bigint":
				call.DoSetMaxBigInt(op.Ord, op.Key, model.FormatNum(p, op.Num))
			default:
				call.DoSetMaxBigDecimal(op.Ord, op.Key, model.FormatNum(p, op.Num))
			}
		case "set_sum":
			prefix := "sum:"
			if op.Set {
				prefix = "set:"
			}
			v := prefix + model.FormatNum(p, op.Num)
			switch p.VT {
			case "int64":
				call.DoSetSumInt64(op.Ord, op.Key, v)
			case "float64":
				call.DoSetSumFloat64(op.Ord, op.Key, v)
			case "bigint":
				call.DoSetSumBigInt(op.Ord, op.Key, v)
			default:
				call.DoSetSumBigDecimal(op.Ord, op.Key, v)
			}
		}
	}
}

// RunBlock executes one block of ops on st the way the engine does: new call
// (which resets the per-block state), host calls, Flush.
func RunBlock(p model.Pair, st store.Store, blockNum uint64, ops []model.Op) error {
	call := NewCall(p, st, blockNum)
	Issue(call, p, ops)
	return st.Flush()
}

// Typed converts the raw value read through the store Reader into a typed value.
func Typed(p model.Pair, raw []byte) (model.Val, error) {
	if !p.Numeric() {
		return model.Val{Bytes: raw}, nil
	}
	n, err := model.ParseNum(p, raw)
	if err != nil {
		return model.Val{}, err
	}
	return model.Val{Num: n}, nil
}

// Content reads the whole content of a store as typed values, through Iter for
// the key set and through GetLast (the Reader interface, which strips the
// set_sum tag) for the values.
func Content(p model.Pair, st store.Store) (map[string]model.Val, error) {
	out := map[string]model.Val{}
	var keys []string
	st.Iter(func(k string, _ []byte) error { keys = append(keys, k); return nil })
	sort.Strings(keys)
	for _, k := range keys {
		raw, found := st.GetLast(k)
		if !found {
			return nil, fmt.Errorf("key %q listed by Iter but not found by GetLast", k)
		}
		v, err := Typed(p, raw)
		if err != nil {
			return nil, fmt.Errorf("key %q: %w", k, err)
		}
		out[k] = v
	}
	return out, nil
}

// RealSize is sum(len(key)+len(value)) over Iter.
func RealSize(st store.Store) uint64 {
	var n uint64
	st.Iter(func(k string, v []byte) error { n += uint64(len(k) + len(v)); return nil })
	return n
}

// DiffContent compares typed contents; returns "" when equal.
func DiffContent(a, b map[string]model.Val) string {
	var keys []string
	seen := map[string]bool{}
	for k := range a {
		keys = append(keys, k)
		seen[k] = true
	}
	for k := range b {
		if !seen[k] {
			keys = append(keys, k)
		}
	}
	sort.Strings(keys)
	for _, k := range keys {
		va, oka := a[k]
		vb, okb := b[k]
		switch {
		case oka && !okb:
			return fmt.Sprintf("key %q: %s vs absent", k, va)
		case !oka && okb:
			return fmt.Sprintf("key %q: absent vs %s", k, vb)
		case !va.Equal(vb):
			return fmt.Sprintf("key %q: %s vs %s", k, va, vb)
		}
	}
	return ""
}

// SaveLoadPartial saves a partial store and loads it back into a fresh one.
func SaveLoadPartial(ctx context.Context, cfg *store.Config, ps *store.PartialKV, end uint64) (*store.PartialKV, error) {
	file, w, err := ps.Save(end)
	if err != nil {
		return nil, err
	}
	if err := w.Write(ctx); err != nil {
		return nil, err
	}
	np := cfg.NewPartialKV(file.Range.StartBlock, zap.NewNop())
	if err := np.Load(ctx, file); err != nil {
		return nil, err
	}
	return np, nil
}

// SaveLoadFull saves a full store and loads it back into a fresh one.
func SaveLoadFull(ctx context.Context, cfg *store.Config, fs *store.FullKV, end uint64) (*store.FullKV, error) {
	file, w, err := fs.Save(end)
	if err != nil {
		return nil, err
	}
	if err := w.Write(ctx); err != nil {
		return nil, err
	}
	nf := cfg.NewFullKV(zap.NewNop())
	if err := nf.Load(ctx, file); err != nil {
		return nil, err
	}
	return nf, nil
}

var _ = big.NewRat

// Mem returns a fresh in-memory object store.
func Mem(name string) dstore.Store {
	ds, err := dstore.NewStore("memory://"+name, "", "", true)
	if err != nil {
		panic(err)
	}
	return ds
}

// Local returns a dstore on a fresh local directory under the scratch area
// (substores of a local store share files, unlike the in-memory store) and a
// cleanup function.
func Local(tag string) (dstore.Store, func()) {
	base := os.Getenv("VH_SCRATCH")
	dir, err := os.MkdirTemp(base, "ls-"+tag+"-")
	if err != nil {
		panic(err)
	}
	ds, err := dstore.NewStore(dir, "", "", true)
	if err != nil {
		panic(err)
	}
	return ds, func() { os.RemoveAll(dir) }
}


// guestView / poison model how the wasm host functions receive byte arguments: as a VIEW of guest memory (wazero's
// Memory.Read), which the guest reuses as soon as the call returns. The harness passes a private copy and overwrites it
// right after the call, so an argument the store kept by reference instead of by value shows up as corrupted content.
func guestView(b []byte) []byte {
	if b == nil {
		return nil
	}
	return append(make([]byte, 0, len(b)), b...)
}

func poison(b []byte) {
	for i := range b {
		b[i] = '?'
	}
}
