package fw

import (
	"bufio"
	"bytes"
	"encoding/json"
	"flag"
	"fmt"
	"os"
	"os/exec"
	"path/filepath"
	"regexp"
	"runtime"
	"runtime/pprof"
	"sort"
	"strings"
	"sync"
	"syscall"
	"time"
)

var registry = map[string]*Spec{}

func Register(s *Spec) {
	if _, dup := registry[s.ID]; dup {
		panic("duplicate spec " + s.ID)
	}
	registry[s.ID] = s
}

func VerifDir() string {
	if d := os.Getenv("VERIF_DIR"); d != "" {
		return d
	}
	return "/verif"
}

// Main is the entry point of the vh binary.
func Main() {
	if len(os.Args) < 3 {
		fmt.Fprintln(os.Stderr, "usage: vh check <ID> <quick|thorough> | vh worker ... | vh replay <file> | vh list")
		os.Exit(2)
	}
	switch os.Args[1] {
	case "check":
		if len(os.Args) < 4 {
			fmt.Fprintln(os.Stderr, "usage: vh check <ID> <quick|thorough>")
			os.Exit(2)
		}
		os.Exit(parent(os.Args[2], os.Args[3]))
	case "worker":
		worker(os.Args[2:])
	case "replay":
		os.Exit(replay(os.Args[2]))
	default:
		fmt.Fprintln(os.Stderr, "unknown command", os.Args[1])
		os.Exit(2)
	}
}

func modesOf(spec *Spec, tier string) []string {
	if spec.Modes == nil {
		return []string{"plain"}
	}
	return spec.Modes(tier)
}

func workersOf(spec *Spec, tier, mode string, n int) int {
	w := runtime.NumCPU()
	if spec.Workers != nil {
		w = spec.Workers(tier, mode)
	}
	if w > n {
		w = n
	}
	if w < 1 {
		w = 1
	}
	return w
}

func caseTimeout(spec *Spec) time.Duration {
	if spec.CaseTimeout > 0 {
		return spec.CaseTimeout
	}
	return 120 * time.Second
}

// ---------------------------------------------------------------- worker

func worker(args []string) {
	fs := flag.NewFlagSet("worker", flag.ExitOnError)
	tier := fs.String("tier", "quick", "")
	mode := fs.String("mode", "plain", "")
	seed := fs.Int64("seed", 1, "")
	w := fs.Int("w", 0, "")
	n := fs.Int("n", 1, "")
	from := fs.Int("from", 0, "")
	logPath := fs.String("log", "", "")
	id := args[0]
	fs.Parse(args[1:])
	spec := registry[id]
	if spec == nil {
		fmt.Fprintln(os.Stderr, "unknown property", id)
		os.Exit(2)
	}
	f, err := os.OpenFile(*logPath, os.O_CREATE|os.O_WRONLY|os.O_APPEND, 0o644)
	if err != nil {
		fmt.Fprintln(os.Stderr, err)
		os.Exit(2)
	}
	total := spec.Cases(*tier, *mode)
	if spec.Setup != nil {
		spec.Setup(*tier, *mode)
	}
	sampleLeft := 3
	if *w != 0 {
		sampleLeft = 1
	}
	var mu sync.Mutex
	var current *Case
	var started time.Time
	to := caseTimeout(spec)
	go func() { // watchdog: firing is inconclusive
		for {
			time.Sleep(500 * time.Millisecond)
			mu.Lock()
			c, st := current, started
			mu.Unlock()
			if c != nil && time.Since(st) > to {
				rec := record{I: c.Index, Inconclusive: fmt.Sprintf("watchdog: case exceeded %s", to)}
				b, _ := json.Marshal(rec)
				f.Write(append(append([]byte("R "), b...), '\n'))
				pprof.Lookup("goroutine").WriteTo(os.Stderr, 2)
				os.Exit(3)
			}
		}
	}()
	for i := *from; i < total; i++ {
		if i%*n != *w {
			continue
		}
		c := &Case{Spec: spec, Tier: *tier, Mode: *mode, Seed: *seed, Index: i, R: CaseRand(id, *tier, *mode, *seed, i), sampleLeft: &sampleLeft}
		c.rec.I = i
		fmt.Fprintf(f, "S %d\n", i)
		mu.Lock()
		current, started = c, time.Now()
		mu.Unlock()
		runCase(spec, c)
		mu.Lock()
		current = nil
		mu.Unlock()
		b, _ := json.Marshal(c.rec)
		f.Write(append(append([]byte("R "), b...), '\n'))
	}
	f.Close()
	os.Exit(0)
}

// ---------------------------------------------------------------- parent

type workerOutcome struct {
	records []record
	crashed []crash
}

type crash struct {
	caseIdx int
	reason  string // first significant stderr line
	stderr  string
	killed  bool
}

func parseLog(path string) (recs []record, openCase int) {
	openCase = -1
	f, err := os.Open(path)
	if err != nil {
		return nil, -1
	}
	defer f.Close()
	sc := bufio.NewScanner(f)
	sc.Buffer(make([]byte, 1<<20), 1<<28)
	for sc.Scan() {
		line := sc.Bytes()
		if len(line) < 2 {
			continue
		}
		switch line[0] {
		case 'S':
			fmt.Sscanf(string(line[2:]), "%d", &openCase)
		case 'R':
			var r record
			if err := json.Unmarshal(line[2:], &r); err == nil {
				recs = append(recs, r)
				if r.I == openCase {
					openCase = -1
				}
			}
		}
	}
	return
}

var crashLine = regexp.MustCompile(`(?m)^(panic: .*|fatal error: .*|==\d+==ERROR: .*|SIGSEGV.*|unexpected fault address.*)$`)

func binFor(mode string) string {
	exe, _ := os.Executable()
	if mode == "plain" {
		return exe
	}
	return filepath.Join(filepath.Dir(exe), "vh-"+mode)
}

func runWorkers(spec *Spec, tier, mode string, seed int64, scratch string) (out workerOutcome, raceLogs []string) {
	total := spec.Cases(tier, mode)
	if total == 0 {
		return
	}
	nw := workersOf(spec, tier, mode, total)
	bin := binFor(mode)
	if _, err := os.Stat(bin); err != nil {
		out.crashed = append(out.crashed, crash{caseIdx: -1, reason: "missing binary " + bin})
		return
	}
	var mu sync.Mutex
	var wg sync.WaitGroup
	to := caseTimeout(spec)
	for w := 0; w < nw; w++ {
		wg.Add(1)
		go func(w int) {
			defer wg.Done()
			logPath := filepath.Join(scratch, fmt.Sprintf("%s-%s-w%d.log", spec.ID, mode, w))
			from := 0
			for respawn := 0; respawn < 40; respawn++ {
				errPath := filepath.Join(scratch, fmt.Sprintf("%s-%s-w%d-%d.err", spec.ID, mode, w, respawn))
				ef, _ := os.Create(errPath)
				cmd := exec.Command(bin, "worker", spec.ID, "--tier", tier, "--mode", mode, "--seed", fmt.Sprint(seed),
					"--w", fmt.Sprint(w), "--n", fmt.Sprint(nw), "--from", fmt.Sprint(from), "--log", logPath)
				cmd.Stdout = ef
				cmd.Stderr = ef
				cmd.Env = append(os.Environ(), "VH_SCRATCH="+scratch, "VH_MODE="+mode)
				if mode == "race" {
					rl := filepath.Join(scratch, fmt.Sprintf("race-%s-w%d-%d", spec.ID, w, respawn))
					cmd.Env = append(cmd.Env, "GORACE=halt_on_error=0 log_path="+rl)
					if w%2 == 1 { // every second race worker runs with the walker's file preloading switched on (real switch)
						cmd.Env = append(cmd.Env, "SUBSTREAMS_DISABLE_PRELOAD_EXEC_FILES=true")
					}
				}
				cmd.SysProcAttr = &syscall.SysProcAttr{Setpgid: true}
				if err := cmd.Start(); err != nil {
					mu.Lock()
					out.crashed = append(out.crashed, crash{caseIdx: -1, reason: "cannot start worker: " + err.Error()})
					mu.Unlock()
					ef.Close()
					return
				}
				done := make(chan error, 1)
				go func() { done <- cmd.Wait() }()
				killed := false
				var werr error
			waitLoop:
				for {
					select {
					case werr = <-done:
						break waitLoop
					case <-time.After(5 * time.Second):
						// hard watchdog: log silent for much longer than the in-process watchdog allows
						if st, err := os.Stat(logPath); err == nil && time.Since(st.ModTime()) > 2*to+60*time.Second {
							syscall.Kill(-cmd.Process.Pid, syscall.SIGQUIT)
							time.Sleep(2 * time.Second)
							syscall.Kill(-cmd.Process.Pid, syscall.SIGKILL)
							killed = true
						}
					}
				}
				ef.Close()
				if werr == nil {
					return
				}
				_, open := parseLog(logPath)
				if open < 0 {
					// exit 3 = in-process watchdog already recorded the case; find last record
					recs, _ := parseLog(logPath)
					if len(recs) == 0 {
						mu.Lock()
						out.crashed = append(out.crashed, crash{caseIdx: -1, reason: "worker failed before any case: " + tailFile(errPath, 600)})
						mu.Unlock()
						return
					}
					from = recs[len(recs)-1].I + 1
					continue
				}
				eb, _ := os.ReadFile(errPath)
				reason := "worker exited: " + werr.Error()
				if m := crashLine.Find(eb); m != nil {
					reason = string(m)
				}
				mu.Lock()
				out.crashed = append(out.crashed, crash{caseIdx: open, reason: reason, stderr: tailBytes(eb, 8000), killed: killed})
				mu.Unlock()
				// mark the open case closed for the next parse
				if lf, err := os.OpenFile(logPath, os.O_WRONLY|os.O_APPEND, 0o644); err == nil {
					fmt.Fprintf(lf, "\nX %d\n", open)
					lf.Close()
				}
				from = open + 1
			}
		}(w)
	}
	wg.Wait()
	for w := 0; w < nw; w++ {
		recs, _ := parseLog(filepath.Join(scratch, fmt.Sprintf("%s-%s-w%d.log", spec.ID, mode, w)))
		out.records = append(out.records, recs...)
	}
	if mode == "race" {
		raceLogs, _ = filepath.Glob(filepath.Join(scratch, "race-"+spec.ID+"-*"))
	}
	return
}

func tailFile(path string, n int) string {
	b, _ := os.ReadFile(path)
	return tailBytes(b, n)
}

func tailBytes(b []byte, n int) string {
	if len(b) > n {
		// keep head (the panic message) and tail
		return string(b[:n/2]) + "\n...\n" + string(b[len(b)-n/2:])
	}
	return string(b)
}

// ---------------------------------------------------------------- known findings

type Finding struct {
	Property  string `json:"property"`
	Signature string `json:"signature"`
	Status    string `json:"status"` // known | fixed
	Commit    string `json:"commit,omitempty"`
	What      string `json:"what"`
}

func loadFindings() []Finding {
	b, err := os.ReadFile(filepath.Join(VerifDir(), "known_findings.json"))
	if err != nil {
		return nil
	}
	var doc struct {
		Findings []Finding `json:"findings"`
	}
	if err := json.Unmarshal(b, &doc); err != nil {
		fmt.Fprintln(os.Stderr, "known_findings.json unreadable:", err)
		return nil
	}
	return doc.Findings
}

// ---------------------------------------------------------------- race logs

var raceTop = regexp.MustCompile(`(?m)^  (\S+)\(`)

// parseRaceLogs returns de-duplicated race signatures: the pair of functions
// performing the two conflicting accesses (top frame of each access stack).
// Reports in which neither access is made by repository or harness code (e.g.
// a third-party statistics counter racing with itself) are returned separately.
func parseRaceLogs(paths []string) (repo map[string]string, external map[string]string) {
	repo, external = map[string]string{}, map[string]string{}
	for _, p := range paths {
		b, err := os.ReadFile(p)
		if err != nil {
			continue
		}
		blocks := bytes.Split(b, []byte("WARNING: DATA RACE"))
		for _, blk := range blocks[1:] {
			if i := bytes.Index(blk, []byte("==================")); i >= 0 {
				blk = blk[:i]
			}
			parts := regexp.MustCompile(`(?m)^Previous `).Split(string(blk), 2)
			var fns []string
			ours := false
			for _, part := range parts {
				if i := strings.Index(part, "\nGoroutine "); i >= 0 {
					part = part[:i]
				}
				fn := "?"
				if m := raceTop.FindStringSubmatch(part); m != nil {
					fn = m[1]
				}
				if strings.HasPrefix(fn, "github.com/streamingfast/substreams/") || strings.HasPrefix(fn, "verif/harness/") {
					ours = true
				}
				fn = strings.TrimPrefix(fn, "github.com/streamingfast/substreams/")
				fns = append(fns, fn)
			}
			sort.Strings(fns)
			sig := "race/" + strings.Join(fns, "|")
			dst := external
			if ours {
				dst = repo
			}
			if _, ok := dst[sig]; !ok {
				dst[sig] = trunc(string(blk), 6000)
			}
		}
	}
	return
}

// ---------------------------------------------------------------- parent main

func parent(id, tier string) int {
	spec := registry[id]
	if spec == nil {
		fmt.Fprintln(os.Stderr, "unknown property", id)
		return 2
	}
	if tier != "quick" && tier != "thorough" {
		fmt.Fprintln(os.Stderr, "tier must be quick or thorough")
		return 2
	}
	seed := envInt("VERIF_SEED", 1)
	start := time.Now()
	scratch, err := os.MkdirTemp("", "vh-"+id+"-")
	if err != nil {
		fmt.Fprintln(os.Stderr, err)
		return 2
	}
	if os.Getenv("VH_KEEP") == "" {
		defer os.RemoveAll(scratch)
	} else {
		fmt.Println("scratch kept at", scratch)
	}
	m := &Merged{Spec: spec, Tier: tier, Seed: seed, Counts: map[string]int64{}, Max: map[string]int64{}, Distinct: map[string]map[uint64]struct{}{}}
	harnessFailure := false
	for _, mode := range modesOf(spec, tier) {
		out, raceLogs := runWorkers(spec, tier, mode, seed, scratch)
		for i := range out.records {
			m.add(&out.records[i], mode)
		}
		m.Counts["cases_"+mode] += int64(len(out.records))
		for _, cr := range out.crashed {
			if cr.caseIdx < 0 {
				fmt.Println("HARNESS-FAILURE:", cr.reason)
				harnessFailure = true
				continue
			}
			m.Evaluations++
			if cr.killed || spec.CrashNotViolation {
				m.Inconclusive = append(m.Inconclusive, fmt.Sprintf("case %d (%s): worker died: %s", cr.caseIdx, mode, cr.reason))
				continue
			}
			d, _ := json.Marshal(map[string]string{"stderr": cr.stderr})
			m.Violations = append(m.Violations, Violation{Sig: "crash/" + NormalizeMsg(cr.reason), What: "worker process crashed: " + cr.reason, Case: cr.caseIdx, Mode: mode, Detail: d})
		}
		if mode == "race" {
			races, ext := parseRaceLogs(raceLogs)
			m.Counts["race_reports_distinct"] += int64(len(races))
			m.Counts["race_reports_in_third_party_code_only"] += int64(len(ext))
			for _, sig := range sortedKeys(ext) {
				m.Notes = append(m.Notes, "race between two third-party accesses (not judged): "+sig)
			}
			for _, sig := range sortedKeys(races) {
				d, _ := json.Marshal(map[string]string{"report": races[sig]})
				m.Violations = append(m.Violations, Violation{Sig: sig, What: "data race reported by the Go race detector", Case: -1, Mode: mode, Detail: d})
			}
		}
	}
	if spec.Post != nil {
		spec.Post(m)
	}

	// classify violations against the known-findings file
	findings := loadFindings()
	known := map[string]Finding{}
	for _, f := range findings {
		if f.Property == id && f.Status == "known" {
			known[f.Signature] = f
		}
	}
	bySig := map[string][]Violation{}
	for _, v := range m.Violations {
		bySig[v.Sig] = append(bySig[v.Sig], v)
	}
	newSigs := []string{}
	knownSeen := map[string]int{}
	for _, sig := range sortedKeys(bySig) {
		if _, ok := known[sig]; ok {
			knownSeen[sig] = len(bySig[sig])
		} else {
			newSigs = append(newSigs, sig)
		}
	}
	for _, sig := range sortedKeys(known) {
		f := known[sig]
		fmt.Printf("KNOWN-FINDING: property=%s signature=%s %s (observed %d times in this run)\n", id, sig, f.What, knownSeen[sig])
	}
	replayDir := filepath.Join(VerifDir(), "replays")
	os.MkdirAll(replayDir, 0o755)
	for _, sig := range newSigs {
		v := bySig[sig][0]
		rp := filepath.Join(replayDir, fmt.Sprintf("%s-%016x.json", id, Hash(sig)))
		doc := map[string]any{"property": id, "tier": tier, "seed": seed, "mode": v.Mode, "case": v.Case, "signature": sig, "what": v.What, "occurrences": len(bySig[sig]), "detail": v.Detail}
		b, _ := json.MarshalIndent(doc, "", " ")
		os.WriteFile(rp, b, 0o644)
		fmt.Printf("VIOLATION property=%s replay=%s\n", id, rp)
		fmt.Printf("  signature=%s occurrences=%d first: case=%d mode=%s: %s\n", sig, len(bySig[sig]), v.Case, v.Mode, trunc(v.What, 600))
	}

	// evidence
	nontrivial := m.DistinctCount("nontrivial")
	cov := map[string]any{
		"evaluations":         m.Evaluations,
		"distinct_nontrivial": nontrivial,
		"rule":                spec.Rule,
		"samples":             m.Samples,
		"inconclusive":        len(m.Inconclusive),
	}
	if spec.Exhaustive != nil && spec.Exhaustive(tier) && len(m.Inconclusive) == 0 && !harnessFailure {
		cov["exhaustive"] = true
	}
	for k, v := range m.Counts {
		cov[k] = v
	}
	for k, v := range m.Max {
		cov["max_"+k] = v
	}
	for set, s := range m.Distinct {
		if set != "nontrivial" {
			cov["distinct_"+set] = len(s)
		}
	}
	if len(m.Inconclusive) > 0 {
		n := len(m.Inconclusive)
		if n > 10 {
			n = 10
		}
		cov["inconclusive_cases"] = m.Inconclusive[:n]
	}
	if len(m.Notes) > 0 {
		cov["notes"] = m.Notes
	}
	if len(knownSeen) > 0 {
		cov["known_findings_observed"] = knownSeen
	}
	if m.Samples == nil {
		cov["samples"] = []any{}
	}
	ev := map[string]any{
		"property_id": id,
		"tier":        tier,
		"seed":        seed,
		"level":       spec.Level,
		"coverage":    cov,
		"assumptions": spec.Assumptions,
		"wall_s":      time.Since(start).Seconds(),
		"violations":  len(newSigs),
	}
	b, _ := json.MarshalIndent(ev, "", " ")
	evDir := filepath.Join(VerifDir(), "evidence")
	os.MkdirAll(evDir, 0o755)
	if err := os.WriteFile(filepath.Join(evDir, id+".json"), b, 0o644); err != nil {
		fmt.Fprintln(os.Stderr, "cannot write evidence:", err)
		return 2
	}

	fmt.Printf("SUMMARY property=%s tier=%s seed=%d evaluations=%d distinct_nontrivial=%d violations=%d known=%d inconclusive=%d wall=%.1fs\n",
		id, tier, seed, m.Evaluations, nontrivial, len(newSigs), len(knownSeen), len(m.Inconclusive), time.Since(start).Seconds())
	for _, k := range sortedKeys(m.Counts) {
		fmt.Printf("  %s=%d\n", k, m.Counts[k])
	}
	for _, set := range sortedKeys(m.Distinct) {
		fmt.Printf("  distinct_%s=%d\n", set, len(m.Distinct[set]))
	}
	for i, inc := range m.Inconclusive {
		if i < 5 {
			fmt.Println("  INCONCLUSIVE:", trunc(inc, 300))
		}
	}
	if len(newSigs) > 0 {
		return 1
	}
	if harnessFailure {
		return 2
	}
	if nontrivial < spec.MinNontrivial || nontrivial < 2 {
		fmt.Printf("SELF-FAIL: only %d distinct non-trivial cases observed (minimum %d): the run observed too little to conclude\n", nontrivial, spec.MinNontrivial)
		return 2
	}
	return 0
}

// ---------------------------------------------------------------- replay

func replay(path string) int {
	b, err := os.ReadFile(path)
	if err != nil {
		fmt.Fprintln(os.Stderr, err)
		return 2
	}
	var doc struct {
		Property string `json:"property"`
		Tier     string `json:"tier"`
		Seed     int64  `json:"seed"`
		Mode     string `json:"mode"`
		Case     int    `json:"case"`
	}
	if err := json.Unmarshal(b, &doc); err != nil {
		fmt.Fprintln(os.Stderr, err)
		return 2
	}
	spec := registry[doc.Property]
	if spec == nil {
		fmt.Fprintln(os.Stderr, "unknown property", doc.Property)
		return 2
	}
	if doc.Case < 0 {
		fmt.Println("this witness is a race-detector report, not a single case; re-run the check's race mode to reproduce")
		return 2
	}
	if doc.Mode == "" {
		doc.Mode = "plain"
	}
	if spec.Setup != nil {
		spec.Setup(doc.Tier, doc.Mode)
	}
	c := &Case{Spec: spec, Tier: doc.Tier, Mode: doc.Mode, Seed: doc.Seed, Index: doc.Case, R: CaseRand(doc.Property, doc.Tier, doc.Mode, doc.Seed, doc.Case), Replay: true}
	c.rec.I = doc.Case
	fmt.Printf("replaying %s tier=%s mode=%s seed=%d case=%d\n", doc.Property, doc.Tier, doc.Mode, doc.Seed, doc.Case)
	runCase(spec, c)
	if c.Violated() {
		for _, v := range c.rec.Violations {
			fmt.Printf("VIOLATION property=%s replay=%s\n  signature=%s: %s\n", doc.Property, path, v.Sig, trunc(v.What, 800))
		}
		return 1
	}
	fmt.Println("case held on this tree")
	return 0
}
