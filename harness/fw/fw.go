// Package fw is the common driver framework of the runtime-monitoring harness.
//
// A property check is a deterministic, indexed list of cases. Case i of a run
// is a pure function of (property, tier, seed, mode, i): all random choices
// come from a PRNG seeded with those values, never from the clock. The parent
// process partitions the indexes over child worker processes (one OS process
// per worker, so that a panic, fatal error, sanitizer abort or watchdog kill is
// attributed to the exact case that was running), merges what the children
// observed, applies the known-findings file and writes the evidence file.
package fw

import (
	"encoding/json"
	"fmt"
	"hash/fnv"
	"math/rand"
	"os"
	"runtime/debug"
	"sort"
	"strings"
	"time"
)

// Spec describes one property check.
type Spec struct {
	ID          string
	Level       string // exploration | fault_enumeration
	Rule        string
	Assumptions []string
	// Modes lists the build variants the check runs in for a tier: "plain",
	// "race", "checkptr", "asan". Default: plain only.
	Modes func(tier string) []string
	// Cases returns the number of cases of (tier, mode).
	Cases func(tier, mode string) int
	// Run runs one case.
	Run func(c *Case)
	// Setup, when set, runs once per worker process before its first case.
	Setup func(tier, mode string)
	// Workers is the number of worker processes (default 16, capped by cases).
	Workers func(tier, mode string) int
	// CaseTimeout is the wall-clock watchdog for one case; its firing is
	// "inconclusive", never a violation. Default 120 s.
	CaseTimeout time.Duration
	// Exhaustive reports whether the tier enumerates a finite space completely.
	Exhaustive func(tier string) bool
	// MinNontrivial: the run fails itself (exit 2, not a violation) when fewer
	// distinct non-trivial cases were observed.
	MinNontrivial int
	// CrashNotViolation: a crashed worker is reported inconclusive instead of
	// as a violation (default: crash of real code under a valid workload is a violation).
	CrashNotViolation bool
	// Post runs in the parent after merging, and may add violations / counts.
	Post func(r *Merged)
}

// Violation is one observed refutation.
type Violation struct {
	Sig    string          `json:"sig"`  // stable class signature, matched against known_findings.json
	What   string          `json:"what"` // human-readable
	Case   int             `json:"case"`
	Mode   string          `json:"mode"`
	Detail json.RawMessage `json:"detail,omitempty"`
}

// record is what a worker appends to its log after each case.
type record struct {
	I            int                 `json:"i"`
	Counts       map[string]int64    `json:"c,omitempty"`
	Distinct     map[string][]uint64 `json:"d,omitempty"`
	Violations   []Violation         `json:"v,omitempty"`
	Samples      []json.RawMessage   `json:"s,omitempty"`
	Inconclusive string              `json:"inc,omitempty"`
	Max          map[string]int64    `json:"m,omitempty"`
}

// Case is the handle a driver uses while running one case.
type Case struct {
	Spec   *Spec
	Tier   string
	Mode   string
	Seed   int64
	Index  int
	R      *rand.Rand
	Replay bool

	rec        record
	sampleLeft *int
}

// CaseRand returns the PRNG of case i.
func CaseRand(id, tier, mode string, seed int64, i int) *rand.Rand {
	h := fnv.New64a()
	fmt.Fprintf(h, "%s/%s/%d/%d", id, tier, seed, i)
	return rand.New(rand.NewSource(int64(h.Sum64())))
}

func Hash(s string) uint64 {
	h := fnv.New64a()
	h.Write([]byte(s))
	return h.Sum64()
}

func (c *Case) Count(name string, n int64) {
	if c.rec.Counts == nil {
		c.rec.Counts = map[string]int64{}
	}
	c.rec.Counts[name] += n
}

// Max keeps the maximum of a gauge.
func (c *Case) Max(name string, n int64) {
	if c.rec.Max == nil {
		c.rec.Max = map[string]int64{}
	}
	if n > c.rec.Max[name] {
		c.rec.Max[name] = n
	}
}

// Distinct records key as a member of a named set; the parent reports set sizes.
func (c *Case) Distinct(set, key string) {
	if c.rec.Distinct == nil {
		c.rec.Distinct = map[string][]uint64{}
	}
	c.rec.Distinct[set] = append(c.rec.Distinct[set], Hash(key))
}

// Nontrivial records a distinct non-trivial case (by the rule stated in Spec.Rule).
func (c *Case) Nontrivial(key string) { c.Distinct("nontrivial", key) }

// Sample keeps v as a written-out example (only the first few per worker are kept).
func (c *Case) Sample(v any) {
	if c.sampleLeft != nil && *c.sampleLeft <= 0 {
		return
	}
	b, err := json.Marshal(v)
	if err != nil {
		return
	}
	if len(b) > 6000 {
		b, _ = json.Marshal(string(b[:6000]) + "...")
	}
	c.rec.Samples = append(c.rec.Samples, b)
	if c.sampleLeft != nil {
		*c.sampleLeft--
	}
}

// WantSample tells whether a sample would still be kept (to avoid building it).
func (c *Case) WantSample() bool { return c.sampleLeft == nil || *c.sampleLeft > 0 }

func (c *Case) Violation(sig, what string, detail any) {
	var raw json.RawMessage
	if detail != nil {
		raw, _ = json.Marshal(detail)
		if len(raw) > 200000 {
			raw, _ = json.Marshal(string(raw[:200000]) + "...")
		}
	}
	// cap per case
	if len(c.rec.Violations) >= 20 {
		return
	}
	c.rec.Violations = append(c.rec.Violations, Violation{Sig: sig, What: what, Case: c.Index, Mode: c.Mode, Detail: raw})
	if c.Replay {
		fmt.Printf("violation sig=%s: %s\n", sig, what)
		if raw != nil {
			fmt.Printf("  detail: %s\n", trunc(string(raw), 4000))
		}
	}
}

func (c *Case) Violated() bool { return len(c.rec.Violations) > 0 }

func (c *Case) Inconclusive(why string) {
	if c.rec.Inconclusive == "" {
		c.rec.Inconclusive = why
	}
	if c.Replay {
		fmt.Printf("inconclusive: %s\n", why)
	}
}

func (c *Case) Logf(format string, a ...any) {
	if c.Replay {
		fmt.Printf(format+"\n", a...)
	}
}

func trunc(s string, n int) string {
	if len(s) > n {
		return s[:n] + "..."
	}
	return s
}

// NormalizeMsg strips volatile parts (numbers, hex, quoted strings) from an
// error / panic message so that it can be used inside a signature.
func NormalizeMsg(s string) string {
	if i := strings.IndexByte(s, '\n'); i >= 0 {
		s = s[:i]
	}
	var b strings.Builder
	inq := false
	for i := 0; i < len(s); i++ {
		ch := s[i]
		if ch == '"' {
			inq = !inq
			if !inq {
				b.WriteString("Q")
			}
			continue
		}
		if inq {
			continue
		}
		if ch >= '0' && ch <= '9' {
			if b.Len() == 0 || b.String()[b.Len()-1] != 'N' {
				b.WriteByte('N')
			}
			continue
		}
		b.WriteByte(ch)
	}
	out := b.String()
	if len(out) > 160 {
		out = out[:160]
	}
	return out
}

// runCase runs one case with panic capture.
func runCase(spec *Spec, c *Case) {
	defer func() {
		if r := recover(); r != nil {
			msg := fmt.Sprint(r)
			st := string(debug.Stack())
			c.Violation("panic/"+NormalizeMsg(msg), "panic during case: "+trunc(msg, 500), map[string]string{"stack": trunc(st, 6000)})
		}
	}()
	spec.Run(c)
}

// Merged is the parent's view after all workers of all modes finished.
type Merged struct {
	Spec         *Spec
	Tier         string
	Seed         int64
	Evaluations  int64
	Counts       map[string]int64
	Max          map[string]int64
	Distinct     map[string]map[uint64]struct{}
	Violations   []Violation
	Samples      []json.RawMessage
	Inconclusive []string
	Notes        []string
}

func (m *Merged) DistinctCount(set string) int { return len(m.Distinct[set]) }

func (m *Merged) add(r *record, mode string) {
	m.Evaluations++
	for k, v := range r.Counts {
		m.Counts[k] += v
	}
	for k, v := range r.Max {
		if v > m.Max[k] {
			m.Max[k] = v
		}
	}
	for set, hs := range r.Distinct {
		s := m.Distinct[set]
		if s == nil {
			s = map[uint64]struct{}{}
			m.Distinct[set] = s
		}
		for _, h := range hs {
			s[h] = struct{}{}
		}
	}
	m.Violations = append(m.Violations, r.Violations...)
	if len(m.Samples) < 6 {
		for _, s := range r.Samples {
			if len(m.Samples) < 6 {
				m.Samples = append(m.Samples, s)
			}
		}
	}
	if r.Inconclusive != "" {
		m.Inconclusive = append(m.Inconclusive, fmt.Sprintf("case %d (%s): %s", r.I, mode, r.Inconclusive))
	}
}

func sortedKeys[V any](m map[string]V) []string {
	ks := make([]string, 0, len(m))
	for k := range m {
		ks = append(ks, k)
	}
	sort.Strings(ks)
	return ks
}

func envInt(name string, def int64) int64 {
	if v := os.Getenv(name); v != "" {
		var x int64
		if _, err := fmt.Sscanf(v, "%d", &x); err == nil {
			return x
		}
	}
	return def
}
