// Package model holds small executable reference models written from the
// documented semantics (not from the implementation).
package model

import (
	"bytes"
	"fmt"
	"math/big"
	"sort"
	"strconv"
	"strings"
)

// Pair is an (update policy, value type) combination admitted by the manifest.
type Pair struct {
	Policy string // set, set_if_not_exists, append, add, min, max, set_sum
	VT     string // string, bytes, proto:x, int64, float64, bigint, bigdecimal, bigfloat
}

func (p Pair) String() string { return p.Policy + ":" + p.VT }

// Numeric tells whether values are numbers (compared as numbers, not bytes).
func (p Pair) Numeric() bool {
	switch p.Policy {
	case "add", "min", "max", "set_sum":
		return true
	}
	return false
}

// Pairs lists the combinations exercised (policy behaviour does not depend on
// the value type for set / set_if_not_exists / append, so only three
// representative value types are used for those).
func Pairs() []Pair {
	var out []Pair
	for _, vt := range []string{"string", "bytes", "proto:x.Y"} {
		out = append(out, Pair{"set", vt}, Pair{"set_if_not_exists", vt})
	}
	out = append(out, Pair{"append", "string"}, Pair{"append", "bytes"})
	for _, pol := range []string{"add", "min", "max"} {
		for _, vt := range []string{"int64", "float64", "bigint", "bigdecimal", "bigfloat"} {
			out = append(out, Pair{pol, vt})
		}
	}
	for _, vt := range []string{"int64", "float64", "bigint", "bigdecimal"} {
		out = append(out, Pair{"set_sum", vt})
	}
	return out
}

// Op is one store operation issued by a module inside a block.
type Op struct {
	Ord    uint64   `json:"ord"`
	Delete bool     `json:"del,omitempty"` // delete_prefix(Key)
	Key    string   `json:"key"`
	Bytes  []byte   `json:"bytes,omitempty"` // operand of set / set_if_not_exists / append
	Num    *big.Rat `json:"-"`               // operand of numeric policies (exact)
	NumS   string   `json:"num,omitempty"`   // printable form of Num
	Set    bool     `json:"set,omitempty"`   // set_sum: true = "set:", false = "sum:"
}

// Val is a typed value.
type Val struct {
	Bytes []byte
	Num   *big.Rat
}

func (v Val) String() string {
	if v.Num != nil {
		return v.Num.RatString()
	}
	return fmt.Sprintf("%q", v.Bytes)
}

func (v Val) Equal(o Val) bool {
	if (v.Num == nil) != (o.Num == nil) {
		return false
	}
	if v.Num != nil {
		return v.Num.Cmp(o.Num) == 0
	}
	return bytes.Equal(v.Bytes, o.Bytes)
}

// Store is the sequential reference store.
type Store struct {
	Pair Pair
	KV   map[string]Val
}

func NewStore(p Pair) *Store { return &Store{Pair: p, KV: map[string]Val{}} }

func (s *Store) Clone() *Store {
	c := NewStore(s.Pair)
	for k, v := range s.KV {
		c.KV[k] = v
	}
	return c
}

type step struct {
	ord     uint64
	key     string
	present bool
	val     Val
}

// Block is the record of one applied block: enough to answer reads at any ordinal.
type Block struct {
	Pre   map[string]Val
	Post  map[string]Val
	steps []step
}

// SortOps returns ops stably sorted by ordinal.
func SortOps(ops []Op) []Op {
	out := append([]Op(nil), ops...)
	sort.SliceStable(out, func(i, j int) bool { return out[i].Ord < out[j].Ord })
	return out
}

// ApplyBlock applies the operations of one block in stable ordinal order.
func (s *Store) ApplyBlock(ops []Op) *Block {
	b := &Block{Pre: map[string]Val{}}
	for k, v := range s.KV {
		b.Pre[k] = v
	}
	for _, op := range SortOps(ops) {
		if op.Delete {
			var keys []string
			for k := range s.KV {
				if strings.HasPrefix(k, op.Key) {
					keys = append(keys, k)
				}
			}
			sort.Strings(keys)
			for _, k := range keys {
				delete(s.KV, k)
				b.steps = append(b.steps, step{ord: op.Ord, key: k, present: false})
			}
			continue
		}
		cur, found := s.KV[op.Key]
		var nv Val
		switch s.Pair.Policy {
		case "set":
			nv = Val{Bytes: op.Bytes}
		case "set_if_not_exists":
			if found {
				continue
			}
			nv = Val{Bytes: op.Bytes}
		case "append":
			nv = Val{Bytes: append(append([]byte(nil), cur.Bytes...), op.Bytes...)}
		case "add":
			if found {
				nv = Val{Num: new(big.Rat).Add(cur.Num, op.Num)}
			} else {
				nv = Val{Num: op.Num}
			}
		case "min":
			if found && cur.Num.Cmp(op.Num) <= 0 {
				nv = cur
			} else {
				nv = Val{Num: op.Num}
			}
		case "max":
			if found && cur.Num.Cmp(op.Num) >= 0 {
				nv = cur
			} else {
				nv = Val{Num: op.Num}
			}
		case "set_sum":
			if op.Set || !found {
				nv = Val{Num: op.Num}
			} else {
				nv = Val{Num: new(big.Rat).Add(cur.Num, op.Num)}
			}
		default:
			panic("unknown policy " + s.Pair.Policy)
		}
		s.KV[op.Key] = nv
		b.steps = append(b.steps, step{ord: op.Ord, key: op.Key, present: true, val: nv})
	}
	b.Post = map[string]Val{}
	for k, v := range s.KV {
		b.Post[k] = v
	}
	return b
}

func (b *Block) GetFirst(key string) (Val, bool) { v, ok := b.Pre[key]; return v, ok }
func (b *Block) GetLast(key string) (Val, bool)  { v, ok := b.Post[key]; return v, ok }

// GetAt is the value after all operations with ordinal <= ord.
func (b *Block) GetAt(ord uint64, key string) (Val, bool) {
	v, ok := b.Pre[key]
	for _, st := range b.steps { // steps are in applied (ordinal-sorted) order
		if st.ord > ord {
			break
		}
		if st.key == key {
			v, ok = st.val, st.present
		}
	}
	return v, ok
}

// MaxOrd is the highest ordinal used in the block (0 when empty).
func (b *Block) MaxOrd() uint64 {
	var m uint64
	for _, st := range b.steps {
		if st.ord > m {
			m = st.ord
		}
	}
	return m
}

// Size is the sum of len(key)+len(value bytes) given the real byte encoding; the
// model cannot know the byte length of numeric encodings, so size accounting is
// checked against the real store's own content instead (see C11).

// ParseNum parses the byte encoding a real store holds for a numeric value.
func ParseNum(p Pair, raw []byte) (*big.Rat, error) {
	s := string(raw)
	switch p.VT {
	case "int64", "bigint":
		z, ok := new(big.Int).SetString(s, 10)
		if !ok {
			return nil, fmt.Errorf("not an integer: %q", s)
		}
		return new(big.Rat).SetInt(z), nil
	case "float64":
		f, err := strconv.ParseFloat(s, 64)
		if err != nil {
			return nil, fmt.Errorf("not a float: %q", s)
		}
		r := new(big.Rat)
		if r.SetFloat64(f) == nil {
			return nil, fmt.Errorf("non-finite float %q", s)
		}
		return r, nil
	case "bigdecimal", "bigfloat":
		r, ok := new(big.Rat).SetString(s)
		if !ok {
			return nil, fmt.Errorf("not a decimal: %q", s)
		}
		return r, nil
	}
	return nil, fmt.Errorf("value type %q is not numeric", p.VT)
}

// FormatNum renders an exact operand the way a module passes it to the host call.
func FormatNum(p Pair, r *big.Rat) string {
	switch p.VT {
	case "int64", "bigint":
		if !r.IsInt() {
			panic("non-integer operand for " + p.VT)
		}
		return r.Num().String()
	case "float64":
		f, _ := r.Float64()
		return strconv.FormatFloat(f, 'g', -1, 64)
	default:
		return r.FloatString(6)
	}
}
