package main

import (
	"verif/harness/fw"
	_ "verif/harness/props"
)

func main() { fw.Main() }
