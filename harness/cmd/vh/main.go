package main

import (
	"verif/harness/fw"
	_ "verif/harness/props"
	_ "verif/harness/props/c06"
	_ "verif/harness/props/c10"
	_ "verif/harness/props/c13"
	_ "verif/harness/props/c14"
	_ "verif/harness/props/c17"
	_ "verif/harness/props/c18"
)

func main() { fw.Main() }
