package main

import (
	"verif/harness/fw"
	"verif/harness/props/c15a"
	_ "verif/harness/props/c17"
)

// C15a is registered here only for stand-alone testing of the evaluator half of C15; the combined C15 is
// registered by the lead from c15a.Cases / c15a.Run.
func init() {
	fw.Register(&fw.Spec{
		ID:            "C15a",
		Level:         "exploration",
		Rule:          c15a.Rule,
		Assumptions:   c15a.Assumptions,
		Cases:         func(tier, mode string) int { return c15a.Cases(tier) },
		MinNontrivial: c15a.MinNontrivial,
		Run:           c15a.Run,
	})
}

func main() { fw.Main() }
