package main

import (
	"verif/harness/fw"
	_ "verif/harness/props/c15a"
	_ "verif/harness/props/c17"
)

func main() { fw.Main() }
