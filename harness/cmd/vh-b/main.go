package main

import (
	"verif/harness/fw"
	_ "verif/harness/props/c06"
	_ "verif/harness/props/c14"
)

func main() { fw.Main() }
