#!/usr/bin/env python3
"""Generates /verif/MANIFEST.json from the table below (kept in one place so it is always schema-valid)."""
import json, subprocess, sys
ALL = ["C%02d" % i for i in range(1, 19)]
CHECKS = {
 "C02": dict(level="exploration", design="DESIGN.md §3 C02", technique="runtime monitoring: differential (real merged partial stores vs real sequential store) + executable store model as oracle over PRNG op sequences x all cuts",
   text="Held on every generated (policy,value type) x op-sequence x cut explored: the real PartialKV/FullKV code is executed through the real host interface, snapshots go through Save/Load, and an independent typed store model judges both the sequential and the squashed result. Exploration, not proof: reach comes from 27 pairs x thousands of sequences x all cuts into <=3 (quick) / <=5 (thorough) segments.",
   note="Trusts the harness store model (harness/model/store.go) and the restriction of numeric operands to exactly-summable values; in-memory dstore."),
 "C08": dict(level="exploration", design="DESIGN.md §3 C08", technique="runtime monitoring: executable model oracle over every (key, ordinal) read after each generated block; delta-replay invariant",
   text="Every get_first/get_last/get_at/has_* answer of the real store, for every key and every ordinal after every generated block, equals the model's; deltas replayed on the pre-block content reproduce the post-block content with exact old values.",
   note="Trusts the model's reading of ordinal semantics (stable sort, get_at = after all ops with ordinal <= ord)."),
 "C09": dict(level="exploration", design="DESIGN.md §3 C09", technique="runtime monitoring: differential (ApplyOps replay vs original execution) on deltas, content and saved partial snapshots; end-to-end replay (tier2 rebuilds stores from cached store outputs through pipeline/exec) judged by REF-LINEAR",
   text="For every generated pre-state and block chain the replayed operation log yields byte-identical deltas and content on full stores, and an identical saved snapshot (keys, values, deleted prefixes) and merge result on partial stores. End to end: with only the cached outputs of store modules kept, re-running the request rebuilt every store by replay and streamed / read / left behind exactly the reference.",
   note="Replay and execution share the store code; the oracle is equality between two real executions."),
 "C11": dict(level="exploration", design="DESIGN.md §3 C11", technique="runtime monitoring: invariant SizeBytes()==sum(len k+len v) at every quiescent point of PRNG histories (blocks, merges, undos, loads); limit clause judged against true content size via hook VerifSetLimits; the same size monitor after every new/undo step of fork histories through the real forkable and pipeline",
   text="The size invariant held after every step of every generated history, and a limited twin store rejected a block exactly when its true content size exceeded the limit. In fork histories through the real pipeline (blocks several deep undone, re-applied, undone again) the reported size equalled the content after every step and no block was refused as too big.",
   note="Trusts Iter() as the real content; limits set through the verif-tagged hook."),
}
CHECKS["C01"]=dict(level="exploration", design="DESIGN.md §3 C01", technique="runtime monitoring: differential oracle (REF-LINEAR sequential run of the real executors) over recorded tier1 streams, host-call logs and decoded cache files of generated packages x request sequences x PRNG job-completion orders",
   text="Held on every generated package x request sequence explored: the in-process tier1/tier2 cluster (real scheduler, squasher, walker, linear pipeline, real module hashes, real files) returned exactly the payloads of the sequential reference, every store read of every module execution anywhere returned the reference value, the stores handed to the linear phase and every cache file left behind decode to the reference content.",
   note="Trusts REF-LINEAR assembly and the native module runtime (wazero not exercised); fork-free chain; wall-clock is used only to explore completion orders and in the stuck watchdog, never in a verdict on values.")
CHECKS["C04"]=dict(level="exploration", design="DESIGN.md §3 C04", technique="runtime monitoring: online stream-clause checker (ordering, exactly-once, range, cursor) over recorded tier1 streams + differential resumption from every k-th final-block cursor on the same and on an empty cache",
   text="Every recorded stream of the generated requests satisfied the ordering / exactly-once / range / cursor clauses, and every request resumed from the cursor of a delivered final block resolved to the next block and delivered exactly the non-empty messages that followed in the original stream.",
   note="Payload expectations come from REF-LINEAR; fork-free chain; only final-block cursors, as the property states.")
CHECKS["C06"]=dict(level="exploration", design="DESIGN.md §3 C06", technique="runtime monitoring: metamorphic oracle on real module hashes (single-field mutations must change exactly {m} U descendants(m); identity-preserving transformations incl. alias import through manifest.NewReader must change nothing); cross-process determinism",
   text="For every generated graph, every module and every single-field mutation the set of changed hashes equalled the module and its descendants (own reachability), and rename / alias import / unrelated additions / binary re-indexing left every hash unchanged; all worker processes agreed on the reference hashes.",
   note="Descendants computed by the harness' own reachability; one recorded known finding (input order of same-kind inputs is not hashed).")
CHECKS["C10"]=dict(level="exploration", design="DESIGN.md §3 C10", technique="runtime monitoring: round-trip oracle on real FullKV/PartialKV Save/Load through local and in-memory dstore, listing oracle (superset rule) on really saved snapshots; workload repeated under checkptr and ASan builds",
   text="All generated store contents (binary keys/values, empty values, up to 5000 entries, deleted prefixes) came back identical with exact SizeBytes; every saved snapshot ending at or below the bound was listed with the right range and kind; no temp or foreign file was listed; no checkptr/ASan report.",
   note="A superset listing is accepted as the code also returns snapshots that merely start below; a clean sanitizer run is absence of reports on the inputs tried.")
CHECKS["C13"]=dict(level="exploration", design="DESIGN.md §3 C13", technique="runtime monitoring by exhaustive enumeration of the stated finite domain against an independently written block-by-block tiling (set arithmetic oracle)",
   text="Exhaustive over segment size 1..16, initial 0..64, end up to 96 and all indexes (quick) / sizes to 32, blocks to 200 (thorough): tiling, alignment, index lookup, out-of-range behaviour, Split and Merged preserve the covered set.",
   note="The oracle walks blocks one by one; assumptions on what 'designates' means are listed in the evidence.")
CHECKS["C14"]=dict(level="exploration", design="DESIGN.md §3 C14", technique="runtime monitoring: invariant checker over exec.NewOutputModuleGraph staging of generated valid graphs x every output module, own reachability as oracle, watchdog for termination",
   text="For every generated valid graph and every output module: each needed module in exactly one layer strictly after everything it reads, unneeded modules absent, layers homogeneous, store layers close stages, an input exists at every initial block, and staging terminated.",
   note="Validity = generator rules + the code's own validators accept; hangs judged by a watchdog with re-run (inconclusive unless reproduced).")
CHECKS["C18"]=dict(level="exploration", design="DESIGN.md §3 C18", technique="runtime monitoring: cross-codec differential (fast hand-written codec vs protobuf runtime / vtproto) on generated messages; workload repeated under checkptr and ASan builds; file-level round trips through the real execout.File and store Save/Load under injected first-attempt upload / download faults",
   text="On all generated cached-output maps and store contents the fast encoder's bytes decoded with the standard decoder to the same content and vice versa, every marshaller read back what it wrote, and reported sizes were exact; no checkptr/ASan report.",
   note="Cross-decoder directions use valid UTF-8 (schema restriction of protobuf string); sanitizer silence is not memory safety.")
CHECKS["C07"]=dict(level="fault_enumeration", design="DESIGN.md §3 C07", technique="runtime monitoring with fault enumeration: every subset of the cache files of a golden run (incl. partial files from stand-alone jobs, truncated temp siblings) restored and the request re-run; differential oracle REF-LINEAR + cache auditor; interruption (cancel after k-th message) then re-run; concurrent requests on one state directory inside the -race binary",
   text="For the enumerated universes EVERY subset of cache files was restored and the request re-run: it completed with the reference outputs and left only files that decode to the reference content; PRNG subsets of larger universes, shifted requests and interrupted-then-re-run requests likewise.",
   note="Atomic file writes assumed (dstore temp+rename), half-written files modelled by temp siblings; requests of the recorded finding shape C05/stage-index-shift are not generated.")
CHECKS["C03"]=dict(level="exploration", design="DESIGN.md §3 C03", technique="runtime monitoring: generated fork trees and arrival orders resolved by the real bstream forkable, store state compared after EVERY step with a fork-free REF-LINEAR run of the applied chain (differential), client-model trace checker over undo signals",
   text="After every new/undo/stalled/final step of every generated history every store held exactly the typed content of a fork-free execution of the currently applied chain with an exact reported size, and a client applying the undo signals ended with exactly the reference outputs of the canonical chain; undo signals always designated a held block.",
   note="Fork points are blocks of the tree (a fresh fork resolver cannot name its initial LIB as a junction); REF-LINEAR per chain shares the executors with the system under test.")
CHECKS["C05"]=dict(level="exploration", design="DESIGN.md §3 C05", technique="runtime monitoring with a schedule controller: the real Scheduler.Update is driven by the harness (two pools: pending commands / undelivered messages, PRNG picks) over real tier2 jobs and squashes, invariant monitors on scheduler state + differential final state vs REF-LINEAR; real-loop runs under the Go race detector; plus depth-first enumeration by re-execution with state-hash pruning on small grids",
   text="On every explored (grid, initial cache subset, worker count, schedule): no job started before the lower stages it loads were complete, each segment merged exactly once and in order, no invalid transition, clean quit with the reference stores at the hand-off and all requested outputs written; deadlocks are detected as exhausted pools or a walker polling with unchanging state. One recorded known finding (stage index shift).",
   note="Commands are executed one at a time (overlap is modelled by delaying message delivery); async file writes are awaited between steps; bounded progress stands in for liveness. The systematic part is complete only modulo its state abstraction (unit matrix, store positions, pending messages / commands, walker progress) and only for grids it reports as enumerated completely.")
CHECKS["C12"]=dict(level="exploration", design="DESIGN.md §3 C12", technique="runtime monitoring of the real resolution+planning functions chained as tier1 chains them: range-tiling and segment-alignment invariants from the property statement over lattice-biased PRNG tuples and enumerated cursor shapes; sampled accepted plans executed end-to-end in the in-process cluster",
   text="For every explored (mode, segment size, initial blocks, start, stop, finality) tuple the resolved start/hand-off and the plan tiled [start, stop) exactly (cached-output range, gated linear range), stores were planned exactly up to the hand-off, every job range was a whole segment, forked cursors produced the junction undo signal and restart, and sampled accepted plans executed to completion with reference outputs.",
   note="Graph shape fixed (output map over 0..3 stores); an error is always an acceptable planner answer; quick is a lattice-biased sample, not the exhaustive product.")
CHECKS["C16"]=dict(level="fault_enumeration", design="DESIGN.md §3 C16", technique="runtime monitoring with fault enumeration: real RemoteWorker + real gRPC (bufconn) + real Tier2Service.ProcessRange; every single transient fault placement per job (refuse / drop with and without server cancel / completion lost), PRNG pairs and triples, real overload path; deterministic module failure at chosen blocks; differential oracle REF-LINEAR + cache audit + error-code monitor",
   text="Every enumerated transient fault placement was absorbed (request completed, outputs == reference, clean cache), and every deterministic module failure ended the request with an error mapped to invalid-argument, after a correct prefix strictly below the failing block and nothing after the error.",
   note="Retry back-off is real time (external library); faults are injected at the gRPC client stream boundary; reference for the failing package comes from its non-failing twin (pure programs).")
CHECKS["C15"]=dict(level="exploration", design="DESIGN.md §3 C15", technique="runtime monitoring: three-way differential of the two real filter evaluators and an independent evaluator over generated expressions x key assignments (incl. shared-bitmap immutability), plus end-to-end scenarios with index files present / absent / deleted judged by REF-LINEAR, the host-call log and a hand-written filter oracle",
   text="For every generated accepted expression and key-to-block assignment the bitmap evaluator, the per-block evaluator and an independent evaluator selected the same blocks, repeated evaluation left the shared bitmaps unchanged, negation was rejected; end-to-end, filtered modules produced reference outputs with index files present, absent and deleted, never ran on a rejected block and never missed a matching one.",
   note="Expression generator renders its own tree, so precedence is judged independently; end-to-end part trusts REF-LINEAR for payloads and a hand-written oracle for the 11 generated filter queries.")
CHECKS["C17"]=dict(level="exploration", design="DESIGN.md §3 C17", technique="runtime monitoring by structure-aware fuzzing of tier1/tier2 requests through the REAL validation + Tier1Service.blocks / Tier2Service.processRange entry points in child processes, with panic capture, hang watchdog (confirmed by isolated re-run) and live memory guard",
   text="Every generated malformed or well-formed request was either rejected with an error or accepted, without panic, hang or unbounded allocation, through the real service paths up to (not including) block execution. One recorded known finding (unbounded state matrix when the final block is unknown).",
   note="No block is delivered (execution itself is covered elsewhere); tier1 back-processing jobs fail immediately; hang verdicts need a reproduced watchdog timeout.")
NOT_YET = {}
def main():
    checks=[]
    for pid in ALL:
        if pid in CHECKS:
            c=CHECKS[pid]
            checks.append({
              "property_id": pid,
              "quick_cmd": f"./check {pid} quick",
              "thorough_cmd": f"./check {pid} thorough",
              "evidence_file": f"/verif/evidence/{pid}.json",
              "replay_cmd_template": "./check replay {path}",
              "engine": "vh",
              "level_claimed": {"category": c["level"], "text": c["text"], "design_ref": c["design"]},
              "level_note": c["note"],
              "technique": c["technique"],
            })
    na=[{"property_id":p,"reason":NOT_YET.get(p,"check under construction in this session (runtime-monitoring driver not yet registered); see DESIGN.md §3")} for p in ALL if p not in CHECKS]
    hooks=subprocess.run(["git","-C","/repo","log","--format=%h %s","--grep=^verif hook"],capture_output=True,text=True).stdout.strip().splitlines()
    m={"version":1,
       "setup_cmd":"./check build",
       "hooks":{"guard":"verif (Go build tag)","enable":"go build -tags verif (done by ./check on every run, from /repo's working tree via the harness module's replace directive)",
                "baseline_off_cmd":"cd /repo && GOFLAGS=-mod=mod GOPROXY=off GOSUMDB=off GOTOOLCHAIN=local go test -vet=off -count=1 -timeout 25m ./...",
                "source_commits":[h.split()[0] for h in hooks],"add_only":True},
       "engines":[{"name":"vh","path":"/verif/harness","serves_properties":sorted(CHECKS),"kind_free_text":"Go harness (module verif/harness, replace => /repo, -tags verif): PRNG workload generators, in-process tier1/tier2 cluster, native module runtime, monitors/oracles, child-process isolation, evidence writer"}],
       "checks":checks,
       "notes":"All verdicts come from executing /repo's current working tree (rebuilt by ./check). known_findings.json lists repaired (fixed) and recorded (known) genuine defects.",
       "not_applicable":na}
    json.dump(m,open("/verif/MANIFEST.json","w"),indent=1)
    print("checks:",len(checks),"not_applicable:",len(na))
main()
